package drummer

// Executor of the "sched" engine (see /verif/DESIGN.md Appendix A; C02 C11 C12).
// Builds a schedulerContext from a token line, passes it through the same JSON
// encoding the SCHEDULER_CONTEXT lookup uses, feeds it to a scheduler with a
// SCRIPTED random.Source and runs Drummer.maintainShards under recover().
// Unexported identifiers used: scheduler (fields randomSrc, config), schedulerContext,
// multiShard, shard, replica, replicaToKill, multiNodeHost, nodeHostSpec, Drummer
// (fields scheduler, nh), updateSchedulerContext, maintainShards, errNotEnoughNodeHost,
// nodeHostTTL, tickIntervalSecond, unknownRegion.
// Reads VERIF_IN, writes VERIF_OUT, asserts nothing.
//
// input line:  C|S <json?> <tick>      (C: a fresh scheduler object; S: the SAME Drummer/scheduler object as the previous
//                                       line, as drummer.go does: d.scheduler is created once and every round calls
//                                       updateSchedulerContext on it - a round's outcome must depend on its context only)
//                <ndefs>  { id app nmembers member.. }
//                <nview>  { key id cci nreps { key shard id addr tick first } }
//                <nhosts> { key addr region tick nplog { shard replica } nshards { shard } }
//                <nkill>  { shard replica addr }
//                <nints>  int..   <nu64> u64..          (the scripted random source)
//                [<nleaders> { shard replica }]         (optional: replicas of the view flagged IsLeader)
// output line: B <n> { type shard nmembers m.. ccid nrids r.. naddrs a.. inst raft join restore app } D <ints drawn> <u64 drawn>
//              | E <0 = errNotEnoughNodeHost, 1 = other> | P
// strings: address n <-> "a<n>", region n <-> "g<n>" (999 <-> unknownRegion), app n <-> "app<n>", 0 <-> "".

import (
	"bufio"
	"encoding/json"
	"errors"
	"fmt"
	"os"
	"strconv"
	"strings"
	"testing"

	"github.com/lni/dragonboat/v4"
	"github.com/lni/dragonboat/v4/logger"
	pb "github.com/lni/drummer/v3/drummerpb"
)

type vschSource struct {
	ints []int
	u64s []uint64
	ni   int
	nu   int
}

func (s *vschSource) Int() int {
	v := 0
	if len(s.ints) > 0 {
		v = s.ints[s.ni%len(s.ints)]
	}
	s.ni++
	return v
}

func (s *vschSource) Uint64() uint64 {
	v := uint64(1000000 + s.nu)
	if len(s.u64s) > 0 {
		v = s.u64s[s.nu%len(s.u64s)]
	}
	s.nu++
	return v
}

type vschToks struct {
	f []string
	i int
}

func (t *vschToks) u() uint64 {
	v, err := strconv.ParseUint(t.f[t.i], 10, 64)
	if err != nil {
		panic("bad token " + t.f[t.i])
	}
	t.i++
	return v
}

func vschStr(prefix string, n uint64) string {
	if n == 0 {
		return ""
	}
	if prefix == "g" && n == 999 {
		return unknownRegion
	}
	return fmt.Sprintf("%s%d", prefix, n)
}

func vschNum(prefix string, s string) uint64 {
	if s == "" {
		return 0
	}
	if prefix == "g" && s == unknownRegion {
		return 999
	}
	if strings.HasPrefix(s, prefix) {
		if v, err := strconv.ParseUint(s[len(prefix):], 10, 64); err == nil {
			return v
		}
	}
	return 888888
}

func vschB(b bool) int {
	if b {
		return 1
	}
	return 0
}

func vschParse(t *vschToks) (*schedulerContext, *vschSource, bool) {
	viaJSON := t.u() != 0
	sc := &schedulerContext{
		Shards:        make(map[uint64]*pb.Shard),
		ShardImage:    &multiShard{Shards: make(map[uint64]*shard)},
		NodeHostImage: &multiNodeHost{Nodehosts: make(map[string]*nodeHostSpec)},
		NodeHostInfo:  make(map[string]pb.NodeHostInfo),
	}
	sc.Tick = t.u()
	for n := t.u(); n > 0; n-- {
		c := &pb.Shard{}
		c.ShardId = t.u()
		c.AppName = vschStr("app", t.u())
		for m := t.u(); m > 0; m-- {
			c.Members = append(c.Members, t.u())
		}
		sc.Shards[c.ShardId] = c
	}
	for n := t.u(); n > 0; n-- {
		key := t.u()
		c := &shard{Replicas: make(map[uint64]*replica)}
		c.ShardID = t.u()
		c.ConfigChangeIndex = t.u()
		for m := t.u(); m > 0; m-- {
			rkey := t.u()
			r := &replica{}
			r.ShardID = t.u()
			r.ReplicaID = t.u()
			r.Address = vschStr("a", t.u())
			r.Tick = t.u()
			r.FirstObserved = t.u()
			c.Replicas[rkey] = r
		}
		sc.ShardImage.Shards[key] = c
	}
	for n := t.u(); n > 0; n-- {
		key := vschStr("a", t.u())
		h := &nodeHostSpec{Shards: make(map[uint64]struct{}), PersistentLog: make([]*pb.LogInfo, 0)}
		h.Address = vschStr("a", t.u())
		h.Region = vschStr("g", t.u())
		h.Tick = t.u()
		for m := t.u(); m > 0; m-- {
			li := &pb.LogInfo{}
			li.ShardId = t.u()
			li.ReplicaId = t.u()
			h.PersistentLog = append(h.PersistentLog, li)
		}
		for m := t.u(); m > 0; m-- {
			h.Shards[t.u()] = struct{}{}
		}
		sc.NodeHostImage.Nodehosts[key] = h
	}
	for n := t.u(); n > 0; n-- {
		k := replicaToKill{}
		k.ShardID = t.u()
		k.ReplicaID = t.u()
		k.Address = vschStr("a", t.u())
		sc.ShardImage.ReplicasToKill = append(sc.ShardImage.ReplicasToKill, k)
	}
	src := &vschSource{}
	for n := t.u(); n > 0; n-- {
		src.ints = append(src.ints, int(t.u()))
	}
	for n := t.u(); n > 0; n-- {
		src.u64s = append(src.u64s, t.u())
	}
	// optional: replicas flagged IsLeader in the view (contexts computed by the real DB carry them)
	if t.i < len(t.f) {
		for n := t.u(); n > 0; n-- {
			sid, rid := t.u(), t.u()
			if c, ok := sc.ShardImage.Shards[sid]; ok {
				if r, ok := c.Replicas[rid]; ok {
					r.IsLeader = true
				}
			}
		}
	}
	return sc, src, viaJSON
}

func vschDumpReq(sb *strings.Builder, r *pb.NodeHostRequest) {
	ch := r.Change
	if ch == nil {
		ch = &pb.Request{}
	}
	fmt.Fprintf(sb, " %d %d %d", int(ch.Type), ch.ShardId, len(ch.Members))
	for _, m := range ch.Members {
		fmt.Fprintf(sb, " %d", m)
	}
	fmt.Fprintf(sb, " %d %d", ch.ConfChangeId, len(r.ReplicaIdList))
	for _, m := range r.ReplicaIdList {
		fmt.Fprintf(sb, " %d", m)
	}
	fmt.Fprintf(sb, " %d", len(r.AddressList))
	for _, a := range r.AddressList {
		fmt.Fprintf(sb, " %d", vschNum("a", a))
	}
	fmt.Fprintf(sb, " %d %d %d %d %d", r.InstantiateReplicaId, vschNum("a", r.RaftAddress),
		vschB(r.Join), vschB(r.Restore), vschNum("app", r.AppName))
}

// the long-lived objects of a sequence of rounds
var vschDrummer *Drummer

func vschRun(line []string) (out string) {
	defer func() {
		if r := recover(); r != nil {
			out = "P"
		}
	}()
	t := &vschToks{f: line, i: 1}
	sc, src, viaJSON := vschParse(t)
	if viaJSON {
		// the path of server.getSchedulerContext: JSON bytes of the lookup answer
		data, err := json.Marshal(sc)
		if err != nil {
			panic(err)
		}
		sc = &schedulerContext{}
		if err := json.Unmarshal(data, &sc); err != nil {
			panic(err)
		}
	}
	if line[0] != "S" || vschDrummer == nil {
		s := &scheduler{config: getDefaultShardConfig()}
		vschDrummer = &Drummer{scheduler: s, nh: &dragonboat.NodeHost{}}
	}
	d := vschDrummer
	d.scheduler.randomSrc = src
	d.scheduler.updateSchedulerContext(sc)
	reqs, err := d.maintainShards()
	if err != nil {
		if errors.Is(err, errNotEnoughNodeHost) {
			return "E 0"
		}
		return "E 1"
	}
	var sb strings.Builder
	fmt.Fprintf(&sb, "B %d", len(reqs))
	for _, r := range reqs {
		vschDumpReq(&sb, r)
	}
	fmt.Fprintf(&sb, " D %d %d", src.ni, src.nu)
	return sb.String()
}

func TestVerifSched(t *testing.T) {
	in, err := os.Open(os.Getenv("VERIF_IN"))
	if err != nil {
		t.Skip("no VERIF_IN")
	}
	defer in.Close()
	outf, err := os.Create(os.Getenv("VERIF_OUT"))
	if err != nil {
		t.Fatal(err)
	}
	defer outf.Close()
	w := bufio.NewWriterSize(outf, 1<<20)
	defer w.Flush()
	plog.SetLevel(logger.CRITICAL) //: the scheduler logs every decision
	fmt.Fprintf(w, "PARAMS %d %d\n", nodeHostTTL, tickIntervalSecond)
	scn := bufio.NewScanner(in)
	scn.Buffer(make([]byte, 1<<20), 1<<26)
	for scn.Scan() {
		f := strings.Fields(scn.Text())
		if len(f) == 0 || (f[0] != "C" && f[0] != "S") {
			continue
		}
		fmt.Fprintf(w, "%s\n", vschRun(f))
	}
}
