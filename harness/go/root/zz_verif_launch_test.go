package drummer

// Executor for the C08 correspondence (see /verif/DESIGN.md, engine "sched", launch part).
// Reads VERIF_IN, writes VERIF_OUT; asserts nothing itself.
//
// For every input line (one JSON object = one case) it builds a real `scheduler`
// literal with
//   randomSrc     a SCRIPTED random.Source (goutils random.Source: Uint64(), Int())
//                 that returns the given draws in order and panics with the
//                 sentinel vlOutOfDraws when the script is exhausted,
//   tick          the scheduler's tick,
//   nodeHostList  built directly, in input order (no map iteration involved),
//   shards        []*pb.Shard in input order,
//   regions       *pb.Regions or nil,
// calls the real (*scheduler).launch() under recover() and prints what came
// back: the requests (every field the DB stores), or the error, or the panic.
// Each returned request is additionally passed to the real
// validateNodeHostRequest under recover().
// Before the launch the real server.validateRegions (what SetRegions runs on the
// request before persisting it) is called under recover() on the pb.Regions
// message and THE SAME message object is then the launch specification: the
// verdict, the message as it is afterwards and the plan are all printed, so a
// validator that touches the message shows up in the plan.
// Hosts may carry PersistentLog records ("p": [[shard, replica], ...]).
//
// Unexported identifiers this file depends on (a rename = harness does not
// build = broken correspondence, reported as such): scheduler{randomSrc, tick,
// nodeHostList, shards, regions}, nodeHostSpec{Address, Region, Tick, Shards},
// nodeHostSpec.PersistentLog, (*scheduler).launch, validateNodeHostRequest,
// validateRegions, nodeHostTTL; exported: settings.Soft (read by reflection).
//
// Input line:  {"tick":T,"hosts":[{"a":addr,"r":region,"t":tick,"s":[shard ids],"p":[[shard,replica]..]}],
//               "shards":[{"id":I,"app":name,"m":[member ids]}],
//               "regions":null|{"r":[names],"c":[counts]},"draws":[ints]}
// Output:      first line {"ttl":nodeHostTTL,"consts":[every string-valued setting of settings.Soft]}; then one line per case
//              {"o":"plan"|"err"|"panic"|"ood","msg":..,"used":draws consumed,"nilreqs":bool,
//               "vr":"ok"|"err"|"panic"|"-" (validateRegions verdict),"vrmsg":..,"ra":[names after],"rc":[counts after],
//               "reqs":[{"t":type,"sid":..,"cm":[..],"cc":..,"rids":[..],"addrs":[..],
//                        "inst":..,"raft":..,"join":..,"restore":..,"app":..,"v":validated,"cfg":config present}]}

import (
	"bufio"
	"encoding/json"
	"fmt"
	"os"
	"reflect"
	"sort"
	"testing"

	"github.com/lni/dragonboat/v4/logger"
	"github.com/lni/goutils/random"

	pb "github.com/lni/drummer/v3/drummerpb"
	"github.com/lni/drummer/v3/settings"
)

type vlOutOfDraws struct{}

type vlScripted struct {
	draws []uint64
	pos   int
}

func (s *vlScripted) next() uint64 {
	if s.pos >= len(s.draws) {
		panic(vlOutOfDraws{})
	}
	v := s.draws[s.pos]
	s.pos++
	return v
}

func (s *vlScripted) Uint64() uint64 { return s.next() }
func (s *vlScripted) Int() int       { return int(s.next() & 0x7fffffffffffffff) }

var _ random.Source = (*vlScripted)(nil)

type vlHost struct {
	A string     `json:"a"`
	R string     `json:"r"`
	T uint64     `json:"t"`
	S []uint64   `json:"s"`
	P [][]uint64 `json:"p"`
}

type vlShard struct {
	ID  uint64   `json:"id"`
	App string   `json:"app"`
	M   []uint64 `json:"m"`
}

type vlRegions struct {
	R []string `json:"r"`
	C []uint64 `json:"c"`
}

type vlCase struct {
	Tick    uint64     `json:"tick"`
	Hosts   []vlHost   `json:"hosts"`
	Shards  []vlShard  `json:"shards"`
	Regions *vlRegions `json:"regions"`
	Draws   []uint64   `json:"draws"`
}

type vlReq struct {
	T       int32    `json:"t"`
	Sid     uint64   `json:"sid"`
	CM      []uint64 `json:"cm"`
	CC      uint64   `json:"cc"`
	Rids    []uint64 `json:"rids"`
	Addrs   []string `json:"addrs"`
	Inst    uint64   `json:"inst"`
	Raft    string   `json:"raft"`
	Join    bool     `json:"join"`
	Restore bool     `json:"restore"`
	App     string   `json:"app"`
	V       bool     `json:"v"`
	Cfg     bool     `json:"cfg"`
}

type vlOut struct {
	O       string   `json:"o"`
	Msg     string   `json:"msg"`
	Used    int      `json:"used"`
	NilReqs bool     `json:"nilreqs"`
	VR      string   `json:"vr"`
	VRMsg   string   `json:"vrmsg"`
	RA      []string `json:"ra"`
	RC      []uint64 `json:"rc"`
	Reqs    []vlReq  `json:"reqs"`
}

func vlValidate(r *pb.NodeHostRequest) (ok bool) {
	defer func() {
		if e := recover(); e != nil {
			ok = false
		}
	}()
	validateNodeHostRequest(r)
	return true
}

func vlRun(c *vlCase) (out vlOut) {
	src := &vlScripted{draws: c.Draws}
	s := &scheduler{randomSrc: src, tick: c.Tick}
	s.nodeHostList = make([]*nodeHostSpec, 0)
	for _, h := range c.Hosts {
		spec := &nodeHostSpec{Address: h.A, Region: h.R, Tick: h.T, Shards: make(map[uint64]struct{})}
		for _, sid := range h.S {
			spec.Shards[sid] = struct{}{}
		}
		spec.PersistentLog = make([]*pb.LogInfo, 0)
		for _, p := range h.P {
			if len(p) == 2 {
				spec.PersistentLog = append(spec.PersistentLog, &pb.LogInfo{ShardId: p[0], ReplicaId: p[1]})
			}
		}
		s.nodeHostList = append(s.nodeHostList, spec)
	}
	s.shards = make([]*pb.Shard, 0)
	for _, sh := range c.Shards {
		m := make([]uint64, len(sh.M))
		copy(m, sh.M)
		s.shards = append(s.shards, &pb.Shard{ShardId: sh.ID, AppName: sh.App, Members: m})
	}
	if c.Regions != nil {
		s.regions = &pb.Regions{Region: append([]string{}, c.Regions.R...), Count: append([]uint64{}, c.Regions.C...)}
	}
	// the real request validation of SetRegions, on the very message the launch will read
	func() {
		defer func() {
			if e := recover(); e != nil {
				out.VR = "panic"
				out.VRMsg = fmt.Sprintf("%v", e)
			}
		}()
		if verr := validateRegions(s.regions); verr != nil {
			out.VR = "err"
			out.VRMsg = verr.Error()
		} else {
			out.VR = "ok"
		}
	}()
	out.RA, out.RC = []string{}, []uint64{}
	if s.regions != nil {
		out.RA = append(out.RA, s.regions.Region...)
		out.RC = append(out.RC, s.regions.Count...)
	}
	var reqs []*pb.NodeHostRequest
	var err error
	func() {
		defer func() {
			if e := recover(); e != nil {
				if _, ok := e.(vlOutOfDraws); ok {
					out.O = "ood"
				} else {
					out.O = "panic"
					out.Msg = fmt.Sprintf("%v", e)
				}
			}
		}()
		reqs, err = s.launch()
		if err != nil {
			out.O = "err"
			out.Msg = err.Error()
		} else {
			out.O = "plan"
		}
	}()
	out.Used = src.pos
	out.NilReqs = reqs == nil
	out.Reqs = make([]vlReq, 0)
	for _, r := range reqs {
		q := vlReq{T: -1, Rids: r.ReplicaIdList, Addrs: r.AddressList, Inst: r.InstantiateReplicaId,
			Raft: r.RaftAddress, Join: r.Join, Restore: r.Restore, App: r.AppName, Cfg: r.Config != nil}
		if r.Change != nil {
			q.T = int32(r.Change.Type)
			q.Sid = r.Change.ShardId
			q.CM = r.Change.Members
			q.CC = r.Change.ConfChangeId
			q.V = vlValidate(r)
		}
		if q.CM == nil {
			q.CM = []uint64{}
		}
		if q.Rids == nil {
			q.Rids = []uint64{}
		}
		if q.Addrs == nil {
			q.Addrs = []string{}
		}
		out.Reqs = append(out.Reqs, q)
	}
	return out
}

// vlSettingStrings: every string-valued setting of the settings package, read from the running
// program (reflection over settings.Soft, nested structs included): names the code base may treat
// specially (the unknown-region name, client names, ...).  The check puts them, and spelling variants
// of them, into the alphabet of region names.
func vlSettingStrings() []string {
	seen := map[string]struct{}{}
	var walk func(v reflect.Value, depth int)
	walk = func(v reflect.Value, depth int) {
		if depth > 4 {
			return
		}
		switch v.Kind() {
		case reflect.String:
			seen[v.String()] = struct{}{}
		case reflect.Struct:
			for i := 0; i < v.NumField(); i++ {
				walk(v.Field(i), depth+1)
			}
		case reflect.Ptr, reflect.Interface:
			if !v.IsNil() {
				walk(v.Elem(), depth+1)
			}
		case reflect.Slice, reflect.Array:
			for i := 0; i < v.Len() && i < 64; i++ {
				walk(v.Index(i), depth+1)
			}
		}
	}
	walk(reflect.ValueOf(settings.Soft), 0)
	out := make([]string, 0, len(seen))
	for s := range seen {
		out = append(out, s)
	}
	sort.Strings(out)
	return out
}

func TestVerifLaunch(t *testing.T) {
	in, err := os.Open(os.Getenv("VERIF_IN"))
	if err != nil {
		t.Skip("no VERIF_IN")
	}
	defer in.Close()
	outf, err := os.Create(os.Getenv("VERIF_OUT"))
	if err != nil {
		t.Fatal(err)
	}
	defer outf.Close()
	logger.GetLogger("drummer").SetLevel(logger.CRITICAL)
	w := bufio.NewWriterSize(outf, 1<<20)
	defer w.Flush()
	consts, _ := json.Marshal(vlSettingStrings())
	fmt.Fprintf(w, "{\"ttl\":%d,\"consts\":%s}\n", nodeHostTTL, consts)
	sc := bufio.NewScanner(in)
	sc.Buffer(make([]byte, 1<<20), 1<<26)
	enc := json.NewEncoder(w)
	for sc.Scan() {
		line := sc.Bytes()
		if len(line) == 0 {
			continue
		}
		var c vlCase
		if err := json.Unmarshal(line, &c); err != nil {
			fmt.Fprintf(w, "{\"o\":\"badinput\",\"msg\":%q}\n", err.Error())
			continue
		}
		out := vlRun(&c)
		if err := enc.Encode(&out); err != nil {
			t.Fatal(err)
		}
	}
}
