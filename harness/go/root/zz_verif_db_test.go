package drummer

// Executor of the "db" engine (see /verif/DESIGN.md Appendix A/B).  Drives the
// Drummer DB only through sm.IStateMachine (NewDB, Update, Lookup, SaveSnapshot,
// RecoverFromSnapshot, GetHash).  Unexported identifiers used: nodeHostTTL,
// tickIntervalSecond, launchDeadlineTick (read-only, to hand the real parameter
// values to the model).  Reads VERIF_IN, writes VERIF_OUT, asserts nothing.

import (
	"bufio"
	"bytes"
	"crypto/md5"
	"encoding/hex"
	"fmt"
	"os"
	"strconv"
	"strings"
	"testing"

	sm "github.com/lni/dragonboat/v4/statemachine"
	pb "github.com/lni/drummer/v3/drummerpb"
	"google.golang.org/protobuf/encoding/protojson"
	"google.golang.org/protobuf/proto"
)

var vKeyNames = map[uint64]string{1: deploymentIDKey, 2: launchedKey, 3: bootstrappedKey, 4: electionKey, 5: regionsKey,
	// keys that are the image of the ordinary keys k9 / k7 under common textual encodings, or their neighbours under case, blanks,
	// zero padding, JSON-sensitive characters (key ids 9101.. of the harness bijection; all valid UTF-8)
	9101: "hex:6b39", 9102: "0x6b39", 9103: "azk=", 9104: "%6b9", 9105: "\\u006b9", 9106: "\"k9\"", 9107: "K9", 9108: "k9 ", 9109: "k09", 9110: "hex:6b37", 9111: "k9\\", 9112: "ké9"}

type vCtx struct {
	regions map[uint64][]byte // value id -> marshalled pb.Regions
}

// literal values a flag key could hold besides "true" (value ids 9001.. of the harness bijection)
var vLiteralVals = map[uint64]string{9001: "false", 9002: "0", 9003: "no", 9004: "FALSE", 9005: "1", 9006: "bootstrapped"}

func vStr(prefix string, n uint64) string {
	if n == 0 {
		return ""
	}
	return fmt.Sprintf("%s%d", prefix, n)
}

func (c *vCtx) key(n uint64) []byte {
	if s, ok := vKeyNames[n]; ok {
		return []byte(s)
	}
	return []byte(vStr("k", n))
}

func (c *vCtx) val(n uint64) []byte {
	if n == 1 {
		return []byte("true")
	}
	if s, ok := vLiteralVals[n]; ok {
		return []byte(s)
	}
	if b, ok := c.regions[n]; ok {
		return b
	}
	return []byte(vStr("v", n))
}

type vToks struct {
	f []string
	i int
}

func (t *vToks) u() uint64 {
	v, err := strconv.ParseUint(t.f[t.i], 10, 64)
	if err != nil {
		panic("bad token " + t.f[t.i])
	}
	t.i++
	return v
}
func (t *vToks) b() bool { return t.u() != 0 }

func vParseRequest(t *vToks) *pb.NodeHostRequest {
	r := &pb.NodeHostRequest{Change: &pb.Request{}}
	r.Change.Type = pb.Request_Type(t.u())
	r.Change.ShardId = t.u()
	for n := t.u(); n > 0; n-- {
		r.Change.Members = append(r.Change.Members, t.u())
	}
	r.Change.ConfChangeId = t.u()
	for n := t.u(); n > 0; n-- {
		r.ReplicaIdList = append(r.ReplicaIdList, t.u())
	}
	for n := t.u(); n > 0; n-- {
		r.AddressList = append(r.AddressList, vStr("a", t.u()))
	}
	r.InstantiateReplicaId = t.u()
	r.RaftAddress = vStr("a", t.u())
	r.Join = t.b()
	r.Restore = t.b()
	r.AppName = vStr("app", t.u())
	return r
}

func vParseReport(t *vToks) *pb.NodeHostInfo {
	nhi := &pb.NodeHostInfo{}
	nhi.RaftAddress = vStr("a", t.u())
	nhi.RPCAddress = vStr("p", t.u())
	nhi.Region = vStr("g", t.u())
	nhi.PlogInfoIncluded = t.b()
	for n := t.u(); n > 0; n-- {
		nhi.PlogInfo = append(nhi.PlogInfo, &pb.LogInfo{ShardId: t.u(), ReplicaId: t.u()})
	}
	for n := t.u(); n > 0; n-- {
		nhi.ShardIdList = append(nhi.ShardIdList, t.u())
	}
	for n := t.u(); n > 0; n-- {
		si := &pb.ShardInfo{}
		si.ShardId = t.u()
		si.ReplicaId = t.u()
		si.IsLeader = t.b()
		si.ConfigChangeIndex = t.u()
		si.Incomplete = t.b()
		si.Pending = t.b()
		nm := t.u()
		if nm > 0 {
			si.Replicas = make(map[uint64]string)
		}
		for ; nm > 0; nm-- {
			rid := t.u()
			si.Replicas[rid] = vStr("a", t.u())
		}
		nhi.ShardInfo = append(nhi.ShardInfo, si)
	}
	return nhi
}

func vMD5(b []byte) string {
	h := md5.Sum(b)
	return hex.EncodeToString(h[:6])
}

func vJSON(m proto.Message) string {
	b, err := protojson.MarshalOptions{EmitUnpopulated: true}.Marshal(m)
	if err != nil {
		return "{}"
	}
	var out bytes.Buffer
	for _, c := range b {
		if c != '\n' && c != ' ' {
			out.WriteByte(c)
		}
	}
	return out.String()
}

func TestVerifDB(t *testing.T) {
	in, err := os.Open(os.Getenv("VERIF_IN"))
	if err != nil {
		t.Skip("no VERIF_IN")
	}
	defer in.Close()
	outf, err := os.Create(os.Getenv("VERIF_OUT"))
	if err != nil {
		t.Fatal(err)
	}
	defer outf.Close()
	w := bufio.NewWriterSize(outf, 1<<20)
	defer w.Flush()
	fmt.Fprintf(w, "PARAMS %d %d %d\n", nodeHostTTL, tickIntervalSecond, launchDeadlineTick)
	ctx := &vCtx{regions: make(map[uint64][]byte)}
	reps := make(map[uint64]sm.IStateMachine)
	snaps := make(map[uint64][]byte)
	sc := bufio.NewScanner(in)
	sc.Buffer(make([]byte, 1<<20), 1<<26)
	lineno := 0
	for sc.Scan() {
		lineno++
		f := strings.Fields(sc.Text())
		if len(f) == 0 {
			continue
		}
		tk := &vToks{f: f, i: 1}
		func() {
			defer func() {
				if r := recover(); r != nil {
					fmt.Fprintf(w, "%d panic\n", lineno)
				}
			}()
			update := func(rid uint64, u *pb.Update) {
				data, err := proto.Marshal(u)
				if err != nil {
					panic(err)
				}
				res, err := reps[rid].Update(sm.Entry{Cmd: data})
				if err != nil {
					fmt.Fprintf(w, "%d err\n", lineno)
					return
				}
				fmt.Fprintf(w, "%d ok v %d\n", lineno, res.Value)
			}
			lookup := func(rid uint64, q *pb.LookupRequest) []byte {
				data, err := proto.Marshal(q)
				if err != nil {
					panic(err)
				}
				res, err := reps[rid].Lookup(data)
				if err != nil {
					panic(err)
				}
				if res == nil {
					return nil
				}
				return res.([]byte)
			}
			switch f[0] {
			case "REG":
				id := tk.u()
				r := &pb.Regions{}
				for n := tk.u(); n > 0; n-- {
					r.Region = append(r.Region, vStr("g", tk.u()))
				}
				for n := tk.u(); n > 0; n-- {
					r.Count = append(r.Count, tk.u())
				}
				b, _ := proto.Marshal(r)
				ctx.regions[id] = b
				fmt.Fprintf(w, "%d ok reg %s\n", lineno, hex.EncodeToString(b))
			case "N":
				rid := tk.u()
				reps[rid] = NewDB(0, rid)
				fmt.Fprintf(w, "%d ok new\n", lineno)
			case "T":
				update(tk.u(), &pb.Update{Type: pb.Update_TICK})
			case "U":
				update(tk.u(), &pb.Update{Type: pb.Update_Type(77)})
			case "K":
				rid := tk.u()
				kv := &pb.KV{}
				kv.Key = ctx.key(tk.u())
				kv.Value = ctx.val(tk.u())
				kv.InstanceId = tk.u()
				kv.Tick = tk.u()
				kv.OldInstanceId = tk.u()
				kv.Finalized = tk.b()
				update(rid, &pb.Update{Type: pb.Update_KV, KvUpdate: kv})
			case "S":
				rid := tk.u()
				c := &pb.Change{}
				c.Type = pb.Change_Type(tk.u())
				c.ShardId = tk.u()
				c.AppName = vStr("app", tk.u())
				for n := tk.u(); n > 0; n-- {
					c.Members = append(c.Members, tk.u())
				}
				update(rid, &pb.Update{Type: pb.Update_SHARD, Change: c})
			case "R":
				rid := tk.u()
				update(rid, &pb.Update{Type: pb.Update_NODEHOST_INFO, NodehostInfo: vParseReport(tk)})
			case "Q":
				rid := tk.u()
				col := &pb.NodeHostRequestCollection{}
				for n := tk.u(); n > 0; n-- {
					col.Requests = append(col.Requests, vParseRequest(tk))
				}
				update(rid, &pb.Update{Type: pb.Update_REQUESTS, Requests: col})
			case "LS":
				b := lookup(tk.u(), &pb.LookupRequest{Type: pb.LookupRequest_SHARD})
				var resp pb.LookupResponse
				if err := proto.Unmarshal(b, &resp); err != nil {
					panic(err)
				}
				fmt.Fprintf(w, "%d ok pb %s %s\n", lineno, vMD5(b), vJSON(&resp))
			case "LK":
				rid := tk.u()
				b := lookup(rid, &pb.LookupRequest{Type: pb.LookupRequest_KV, KvLookup: &pb.KV{Key: ctx.key(tk.u())}})
				var resp pb.LookupResponse
				if err := proto.Unmarshal(b, &resp); err != nil {
					panic(err)
				}
				// value as hex so that marshalled Regions survive the transport
				kvr := resp.KvResult
				fmt.Fprintf(w, "%d ok kv %s %s %s %d %d %d %t\n", lineno, vMD5(b), "x"+hex.EncodeToString(kvr.GetKey()), "x"+hex.EncodeToString(kvr.GetValue()),
					kvr.GetInstanceId(), kvr.GetTick(), kvr.GetOldInstanceId(), kvr.GetFinalized())
			case "LC":
				b := lookup(tk.u(), &pb.LookupRequest{Type: pb.LookupRequest_SCHEDULER_CONTEXT})
				fmt.Fprintf(w, "%d ok json %s %s\n", lineno, vMD5(b), strings.ReplaceAll(string(b), "\n", ""))
			case "LR":
				rid := tk.u()
				b := lookup(rid, &pb.LookupRequest{Type: pb.LookupRequest_REQUESTS, Address: vStr("a", tk.u())})
				var resp pb.LookupResponse
				if err := proto.Unmarshal(b, &resp); err != nil {
					panic(err)
				}
				fmt.Fprintf(w, "%d ok pb %s %s\n", lineno, vMD5(b), vJSON(&resp))
			case "LT":
				rid := tk.u()
				q := &pb.ShardStateRequest{}
				for n := tk.u(); n > 0; n-- {
					q.ShardIdList = append(q.ShardIdList, tk.u())
				}
				b := lookup(rid, &pb.LookupRequest{Type: pb.LookupRequest_SHARD_STATES, Stats: q})
				if len(b) == 0 {
					fmt.Fprintf(w, "%d ok empty\n", lineno)
					return
				}
				var resp pb.ShardStates
				if err := proto.Unmarshal(b, &resp); err != nil {
					panic(err)
				}
				fmt.Fprintf(w, "%d ok pb - %s\n", lineno, vJSON(&resp))
			case "H":
				h, err := reps[tk.u()].(sm.IHash).GetHash()
				if err != nil {
					panic(err)
				}
				fmt.Fprintf(w, "%d ok hash %d\n", lineno, h)
			case "SNAP":
				rid := tk.u()
				var buf bytes.Buffer
				if err := reps[rid].SaveSnapshot(&buf, nil, nil); err != nil {
					panic(err)
				}
				snaps[rid] = append([]byte{}, buf.Bytes()...)
				fmt.Fprintf(w, "%d ok snap %s %d\n", lineno, vMD5(buf.Bytes()), buf.Len())
			case "REST":
				rid := tk.u()
				src := tk.u()
				reps[rid] = NewDB(0, rid)
				if err := reps[rid].RecoverFromSnapshot(bytes.NewReader(snaps[src]), nil, nil); err != nil {
					panic(err)
				}
				fmt.Fprintf(w, "%d ok rest\n", lineno)
			case "RESTI":
				// recover INTO the existing (non-fresh) replica: a lagging follower catching up from a snapshot
				rid := tk.u()
				src := tk.u()
				if err := reps[rid].RecoverFromSnapshot(bytes.NewReader(snaps[src]), nil, nil); err != nil {
					panic(err)
				}
				fmt.Fprintf(w, "%d ok rest\n", lineno)
			default:
				fmt.Fprintf(w, "%d ok skip\n", lineno)
			}
		}()
	}
}
