package drummer

// Executor of the closed-loop engine "loop" (see /verif/DESIGN.md Appendix A/C; C01, and the
// closed-loop parts of C02 C11).
//
// The REAL leader-loop pieces are driven against a fleet simulator that is part of this
// harness (type vlpFleet: hosts, replicas, per shard a linear membership history = the
// abstract Raft with ordered config change; the Coq model coq/theories/Fleet.v describes the
// same environment and re-validates every logged step).
//
// Two back ends, chosen per run:
//   direct    the real replicated state machine NewDB driven in process through
//             sm.IStateMachine.Update/Lookup (commands are the same protobuf pb.Update /
//             pb.LookupRequest messages server.go builds), the scheduler context is the JSON
//             answer of the SCHEDULER_CONTEXT lookup decoded into schedulerContext exactly as
//             server.getSchedulerContext does, the round is the body of Drummer.schedule:
//             launched? -> scheduler.updateSchedulerContext -> launch() | Drummer.maintainShards();
//   nodehost  a real single-replica dragonboat NodeHost running NewDB as shard 0 with the real
//             server and a Drummer literal: Drummer.tick, Drummer.schedule, Drummer.updateRequests,
//             server.ReportAvailableNodeHost, server.GetShardConfigChangeIndexList, SubmitChange,
//             SetRegions, SetBootstrapped (no ticker, no election).
// The scheduler's random source is a seeded source that never returns 0 and never repeats an id.
//
// Unexported identifiers used: scheduler{randomSrc,config}, schedulerContext, Drummer{scheduler,nh,server,
// sessionUser,ctx}, sessionUser, newDrummerServer, newScheduler, (*scheduler).updateSchedulerContext, hasRunningShard,
// launch, (*Drummer).maintainShards, schedule, tick, updateRequests, getDefaultShardConfig, launchedKey,
// bootstrappedKey, regionsKey, defaultShardID, nodeHostTTL, tickIntervalSecond, unknownRegion, errNotEnoughNodeHost.
//
// Reads VERIF_IN (one JSON run specification per line), writes VERIF_OUT (token lines, grammar in
// harness/py/c01.py), asserts nothing.

import (
	"bufio"
	"context"
	"encoding/json"
	"errors"
	"fmt"
	"math/rand"
	"os"
	"sort"
	"strconv"
	"strings"
	"testing"
	"time"

	"github.com/lni/dragonboat/v4"
	"github.com/lni/dragonboat/v4/config"
	"github.com/lni/dragonboat/v4/logger"
	chantrans "github.com/lni/dragonboat/v4/plugin/chan"
	sm "github.com/lni/dragonboat/v4/statemachine"
	"github.com/lni/vfs"
	"google.golang.org/protobuf/proto"

	pb "github.com/lni/drummer/v3/drummerpb"
)

// ---------------------------------------------------------------- specification

type vlpProb struct {
	Crash     float64 `json:"crash"`
	Restart   float64 `json:"restart"`
	SkipSnap  float64 `json:"skip_snap"`
	Delay     float64 `json:"delay"`
	LostReply float64 `json:"lost_reply"`
	Learn     float64 `json:"learn"`
	CCFail    float64 `json:"ccfail"`
	Exec      float64 `json:"exec"`
	Sched     float64 `json:"sched"`
	Plog      float64 `json:"plog"`
	Mute      float64 `json:"mute"`
	Unmute    float64 `json:"unmute"`
}

type vlpSpec struct {
	ID          int     `json:"id"`
	Seed        int64   `json:"seed"`
	Backend     string  `json:"backend"`
	Hosts       int     `json:"hosts"`
	NShards     int     `json:"nshards"`
	Size        int     `json:"size"`
	Regions     int     `json:"regions"`
	FaultRounds int     `json:"fault_rounds"`
	HealRounds  int     `json:"heal_rounds"`
	TicksRound  int     `json:"ticks_round"`
	PlogCycle   int     `json:"plog_cycle"`
	MaxDown     int     `json:"max_down"`
	Script      string  `json:"script"` // "" = random faults; "rotate" = directed: successive repairs, then a quorum crash
	P           vlpProb `json:"p"`
}

// ---------------------------------------------------------------- random source of the scheduler

type vlpSource struct {
	rng  *rand.Rand
	next uint64
	nu   int
}

func (s *vlpSource) Int() int { return int(s.rng.Int31()) }

// fresh, non-zero, never repeated (the fresh_id hypothesis of the theorems)
func (s *vlpSource) Uint64() uint64 {
	s.next += 1 + uint64(s.rng.Intn(3))
	s.nu++
	return s.next
}

// ---------------------------------------------------------------- names

func vlpStr(prefix string, n uint64) string {
	if n == 0 {
		return ""
	}
	if prefix == "g" && n == 999 {
		return unknownRegion
	}
	return fmt.Sprintf("%s%d", prefix, n)
}

func vlpNum(prefix string, s string) uint64 {
	if s == "" {
		return 0
	}
	if prefix == "g" && s == unknownRegion {
		return 999
	}
	if strings.HasPrefix(s, prefix) {
		if v, err := strconv.ParseUint(s[len(prefix):], 10, 64); err == nil {
			return v
		}
	}
	return 888888
}

func vlpB(b bool) int {
	if b {
		return 1
	}
	return 0
}

// ---------------------------------------------------------------- back ends

type vlpBackend interface {
	submitShard(id uint64, members []uint64, app string) (uint64, error)
	setRegions(r *pb.Regions) error
	setBootstrapped() error
	tick() (uint64, error)
	versions() (map[uint64]uint64, error)
	report(nhi *pb.NodeHostInfo) (uint64, []*pb.NodeHostRequest, error) // count is ^0 when not observable
	schedule() (kind string, reqs []*pb.NodeHostRequest)              // "L" launch | "M" maintain | "LE" launch refused | "E0" | "E1" | "P"
	updateRequests(reqs []*pb.NodeHostRequest) (uint64, error)
	context() (*schedulerContext, error)
	states(ids []uint64) (map[uint64]bool, error) // shard id -> available
	close()
}

// ---- direct

type vlpDirect struct {
	db  sm.IStateMachine
	sch *scheduler
	dr  *Drummer
}

func vlpNewDirect(src *vlpSource) *vlpDirect {
	s := &scheduler{randomSrc: src, config: getDefaultShardConfig()}
	return &vlpDirect{db: NewDB(0, 1), sch: s, dr: &Drummer{scheduler: s, nh: &dragonboat.NodeHost{}}}
}

func (b *vlpDirect) update(u *pb.Update) (v uint64, err error) {
	defer func() {
		if r := recover(); r != nil {
			err = fmt.Errorf("dbpanic: %v", r)
		}
	}()
	data, e := proto.Marshal(u)
	if e != nil {
		panic(e)
	}
	res, e := b.db.Update(sm.Entry{Cmd: data})
	if e != nil {
		return 0, e
	}
	return res.Value, nil
}

func (b *vlpDirect) lookup(q *pb.LookupRequest) (out []byte, err error) {
	defer func() {
		if r := recover(); r != nil {
			err = fmt.Errorf("dbpanic: %v", r)
		}
	}()
	data, e := proto.Marshal(q)
	if e != nil {
		panic(e)
	}
	res, e := b.db.Lookup(data)
	if e != nil {
		return nil, e
	}
	if res == nil {
		return nil, nil
	}
	return res.([]byte), nil
}

func (b *vlpDirect) submitShard(id uint64, members []uint64, app string) (uint64, error) {
	return b.update(&pb.Update{Type: pb.Update_SHARD, Change: &pb.Change{Type: pb.Change_CREATE, ShardId: id, Members: members, AppName: app}})
}

func (b *vlpDirect) setKV(key string, val []byte) error {
	_, err := b.update(&pb.Update{Type: pb.Update_KV, KvUpdate: &pb.KV{Key: []byte(key), Value: val, Finalized: true}})
	return err
}

func (b *vlpDirect) setRegions(r *pb.Regions) error {
	data, err := proto.Marshal(r)
	if err != nil {
		panic(err)
	}
	return b.setKV(regionsKey, data)
}

func (b *vlpDirect) setBootstrapped() error { return b.setKV(bootstrappedKey, []byte("true")) }

func (b *vlpDirect) tick() (uint64, error) { return b.update(&pb.Update{Type: pb.Update_TICK}) }

func (b *vlpDirect) context() (*schedulerContext, error) {
	data, err := b.lookup(&pb.LookupRequest{Type: pb.LookupRequest_SCHEDULER_CONTEXT})
	if err != nil {
		return nil, err
	}
	sc := &schedulerContext{}
	if err := json.Unmarshal(data, &sc); err != nil {
		panic(err)
	}
	return sc, nil
}

func (b *vlpDirect) versions() (map[uint64]uint64, error) {
	sc, err := b.context()
	if err != nil {
		return nil, err
	}
	result := make(map[uint64]uint64)
	for shardID, c := range sc.ShardImage.Shards {
		result[shardID] = c.ConfigChangeIndex
	}
	return result, nil
}

func (b *vlpDirect) report(nhi *pb.NodeHostInfo) (uint64, []*pb.NodeHostRequest, error) {
	cnt, err := b.update(&pb.Update{Type: pb.Update_NODEHOST_INFO, NodehostInfo: nhi})
	if err != nil {
		return 0, nil, err
	}
	data, err := b.lookup(&pb.LookupRequest{Type: pb.LookupRequest_REQUESTS, Address: nhi.RaftAddress})
	if err != nil {
		return 0, nil, err
	}
	var v pb.LookupResponse
	if err := proto.Unmarshal(data, &v); err != nil {
		panic(err)
	}
	return cnt, v.Requests.Requests, nil
}

func (b *vlpDirect) launched() (bool, error) {
	data, err := b.lookup(&pb.LookupRequest{Type: pb.LookupRequest_KV, KvLookup: &pb.KV{Key: []byte(launchedKey)}})
	if err != nil {
		return false, err
	}
	var v pb.LookupResponse
	if err := proto.Unmarshal(data, &v); err != nil {
		panic(err)
	}
	val := string(v.KvResult.GetValue())
	return val == "true", nil
}

// the body of Drummer.schedule
func (b *vlpDirect) schedule() (kind string, reqs []*pb.NodeHostRequest) {
	defer func() {
		if r := recover(); r != nil {
			kind, reqs = "P", nil
		}
	}()
	launched, err := b.launched()
	if err != nil {
		return "P", nil
	}
	sc, err := b.context()
	if err != nil {
		return "P", nil
	}
	b.sch.updateSchedulerContext(sc)
	if !launched && !b.sch.hasRunningShard() {
		reqs, err := b.sch.launch()
		if err != nil {
			return "LE", nil
		}
		return "L", reqs
	}
	reqs, err = b.dr.maintainShards()
	if err != nil {
		if errors.Is(err, errNotEnoughNodeHost) {
			return "E0", nil
		}
		return "E1", nil
	}
	return "M", reqs
}

func (b *vlpDirect) updateRequests(reqs []*pb.NodeHostRequest) (uint64, error) {
	if len(reqs) == 0 {
		return 0, nil
	}
	return b.update(&pb.Update{Type: pb.Update_REQUESTS, Requests: &pb.NodeHostRequestCollection{Requests: reqs}})
}

func (b *vlpDirect) states(ids []uint64) (map[uint64]bool, error) {
	out := make(map[uint64]bool)
	for _, id := range ids {
		data, err := b.lookup(&pb.LookupRequest{Type: pb.LookupRequest_SHARD_STATES, Stats: &pb.ShardStateRequest{ShardIdList: []uint64{id}}})
		if err != nil {
			return nil, err
		}
		if len(data) == 0 {
			continue
		}
		var resp pb.ShardStates
		if err := proto.Unmarshal(data, &resp); err != nil {
			panic(err)
		}
		for _, c := range resp.Collection {
			out[c.ShardId] = c.State == pb.ShardState_OK
		}
	}
	return out, nil
}

func (b *vlpDirect) close() {}

// ---- real NodeHost

type vlpChanFactory struct{ chantrans.ChanTransportFactory }

func (f *vlpChanFactory) Validate(string) bool { return true }

type vlpNH struct {
	nh  *dragonboat.NodeHost
	srv *server
	dr  *Drummer
}

func vlpInfra(err error) bool {
	if err == nil {
		return false
	}
	msg := err.Error()
	for _, e := range []error{dragonboat.ErrTimeout, dragonboat.ErrSystemBusy, dragonboat.ErrShardNotReady,
		dragonboat.ErrAborted, dragonboat.ErrRejected, context.DeadlineExceeded, errSessionNotReady} {
		if errors.Is(err, e) || strings.Contains(msg, e.Error()) {
			return true
		}
	}
	return false
}

var vlpNHSeq int

func vlpNewNH(src *vlpSource) (*vlpNH, error) {
	vlpNHSeq++
	nhc := config.NodeHostConfig{
		NodeHostDir:    fmt.Sprintf("/verif-loop-%d", vlpNHSeq),
		RTTMillisecond: 2,
		RaftAddress:    "localhost:26117",
		Expert: config.ExpertConfig{
			FS:               vfs.NewMem(),
			LogDB:            config.GetTinyMemLogDBConfig(),
			TransportFactory: &vlpChanFactory{},
			Engine: config.EngineConfig{ExecShards: 2, CommitShards: 2, ApplyShards: 2,
				SnapshotShards: 2, CloseShards: 2},
		},
	}
	nh, err := dragonboat.NewNodeHost(nhc)
	if err != nil {
		return nil, err
	}
	rc := config.Config{ReplicaID: 1, ShardID: defaultShardID, ElectionRTT: 10, HeartbeatRTT: 1, CheckQuorum: false}
	if err = nh.StartReplica(map[uint64]string{1: nhc.RaftAddress}, false, NewDB, rc); err != nil {
		nh.Close()
		return nil, err
	}
	srv := newDrummerServer(nh, src)
	dr := &Drummer{nh: nh, server: srv, scheduler: newScheduler(srv, getDefaultShardConfig()), sessionUser: &sessionUser{nh: nh}}
	dr.ctx, dr.cancel = context.WithCancel(context.Background())
	b := &vlpNH{nh: nh, srv: srv, dr: dr}
	// wait for the single replica to elect itself
	deadline := time.Now().Add(20 * time.Second)
	for time.Now().Before(deadline) {
		if _, err := b.context(); err == nil {
			return b, nil
		}
		time.Sleep(5 * time.Millisecond)
	}
	nh.Close()
	return nil, errors.New("infra: DB shard not ready")
}

func (b *vlpNH) ctx() (context.Context, context.CancelFunc) {
	return context.WithTimeout(context.Background(), 20*time.Second)
}

// retry infrastructure errors (Appendix E)
func vlpRetry(f func() error) error {
	var err error
	for i := 0; i < 8; i++ {
		err = f()
		if err == nil || !vlpInfra(err) {
			return err
		}
		time.Sleep(20 * time.Millisecond)
	}
	return fmt.Errorf("infra: %v", err)
}

func (b *vlpNH) submitShard(id uint64, members []uint64, app string) (uint64, error) {
	var code uint64
	err := vlpRetry(func() error {
		ctx, cancel := b.ctx()
		defer cancel()
		r, err := b.srv.SubmitChange(ctx, &pb.Change{Type: pb.Change_CREATE, ShardId: id, Members: members, AppName: app})
		if err == nil {
			code = uint64(r.Code)
		}
		return err
	})
	return code, err
}

func (b *vlpNH) setRegions(r *pb.Regions) error {
	return vlpRetry(func() error {
		ctx, cancel := b.ctx()
		defer cancel()
		_, err := b.srv.SetRegions(ctx, r)
		return err
	})
}

func (b *vlpNH) setBootstrapped() error {
	return vlpRetry(func() error {
		ctx, cancel := b.ctx()
		defer cancel()
		_, err := b.srv.SetBootstrapped(ctx, &pb.Empty{})
		return err
	})
}

// a tick whose proposal timed out may or may not have been applied; the executor reads the
// DB's tick before and after to find out (never needed in practice)
func (b *vlpNH) tick() (uint64, error) {
	var v uint64
	err := vlpRetry(func() error {
		var e error
		v, e = b.dr.tick()
		return e
	})
	return v, err
}

func (b *vlpNH) versions() (map[uint64]uint64, error) {
	var out map[uint64]uint64
	err := vlpRetry(func() error {
		ctx, cancel := b.ctx()
		defer cancel()
		il, err := b.srv.GetShardConfigChangeIndexList(ctx, &pb.Empty{})
		if err == nil {
			out = il.Indexes
			if out == nil {
				out = make(map[uint64]uint64)
			}
		}
		return err
	})
	return out, err
}

func (b *vlpNH) report(nhi *pb.NodeHostInfo) (uint64, []*pb.NodeHostRequest, error) {
	var reqs []*pb.NodeHostRequest
	err := vlpRetry(func() error {
		ctx, cancel := b.ctx()
		defer cancel()
		rc, err := b.srv.ReportAvailableNodeHost(ctx, nhi)
		if err == nil {
			reqs = rc.Requests
		}
		return err
	})
	return ^uint64(0), reqs, err
}

func (b *vlpNH) schedule() (kind string, reqs []*pb.NodeHostRequest) {
	defer func() {
		if r := recover(); r != nil {
			kind, reqs = "P", nil
		}
	}()
	ctx, cancel := b.ctx()
	defer cancel()
	// Drummer.schedule folds "launch refused" and errNotEnoughNodeHost into a nil result; the
	// harness tells them apart by looking at the launched flag before and the context
	launched, err := b.srv.getLaunched(ctx)
	if err != nil {
		return "P", nil
	}
	sc, err := b.context()
	if err != nil {
		return "P", nil
	}
	reqs = b.dr.schedule(ctx)
	if !launched && len(sc.ShardImage.Shards) == 0 {
		if reqs == nil {
			return "LE", nil
		}
		return "L", reqs
	}
	if reqs == nil {
		return "E0", nil
	}
	return "M", reqs
}

func (b *vlpNH) updateRequests(reqs []*pb.NodeHostRequest) (uint64, error) {
	var v uint64
	err := vlpRetry(func() error {
		var e error
		v, e = b.dr.updateRequests(reqs)
		return e
	})
	return v, err
}

func (b *vlpNH) context() (*schedulerContext, error) {
	var sc *schedulerContext
	err := vlpRetry(func() error {
		ctx, cancel := b.ctx()
		defer cancel()
		var e error
		sc, e = b.srv.getSchedulerContext(ctx)
		return e
	})
	return sc, err
}

func (b *vlpNH) states(ids []uint64) (map[uint64]bool, error) {
	out := make(map[uint64]bool)
	for _, id := range ids {
		var resp *pb.ShardStates
		err := vlpRetry(func() error {
			ctx, cancel := b.ctx()
			defer cancel()
			var e error
			resp, e = b.srv.GetShardStates(ctx, &pb.ShardStateRequest{ShardIdList: []uint64{id}})
			return e
		})
		if err != nil {
			if vlpInfra(err) || strings.HasPrefix(err.Error(), "infra") {
				return nil, err
			}
			continue // unknown shard
		}
		for _, c := range resp.Collection {
			out[c.ShardId] = c.State == pb.ShardState_OK
		}
	}
	return out, nil
}

func (b *vlpNH) close() {
	b.dr.cancel()
	b.nh.Close()
}

// ---------------------------------------------------------------- the fleet simulator

type vlpRep struct {
	running bool
	ver     uint64 // locally known membership version; 0 = nothing applied yet (pending)
}

type vlpKey struct{ shard, rid uint64 }

type vlpHost struct {
	addr    uint64
	region  uint64
	up      bool
	reps    map[vlpKey]*vlpRep // presence = persisted data exists
	queue   []*pb.NodeHostRequest
	out     *pb.NodeHostInfo
	nreport int
	mute    bool // cut off from Drummer (reports lost), replicas keep running
}

type vlpEntry struct {
	ver     uint64
	members map[uint64]uint64 // replica id -> host
}

type vlpFleet struct {
	hosts  []*vlpHost            // index 0 unused
	hist   map[uint64][]vlpEntry // last = current
	used   map[uint64]map[uint64]bool
	shards []uint64
}

func (f *vlpFleet) cur(s uint64) *vlpEntry {
	h := f.hist[s]
	if len(h) == 0 {
		return nil
	}
	return &h[len(h)-1]
}

func (f *vlpFleet) entry(s, ver uint64) *vlpEntry {
	for i := range f.hist[s] {
		if f.hist[s][i].ver == ver {
			return &f.hist[s][i]
		}
	}
	return nil
}

// version ver of shard s records the removal of rid: not a member at ver, a member at an earlier version
func (f *vlpFleet) removedAt(s, rid, ver uint64) bool {
	e := f.entry(s, ver)
	if e == nil {
		return false
	}
	if _, m := e.members[rid]; m {
		return false
	}
	for i := range f.hist[s] {
		if f.hist[s][i].ver < ver {
			if _, m := f.hist[s][i].members[rid]; m {
				return true
			}
		}
	}
	return false
}

func (h *vlpHost) keys() []vlpKey {
	ks := make([]vlpKey, 0, len(h.reps))
	for k := range h.reps {
		ks = append(ks, k)
	}
	sort.Slice(ks, func(i, j int) bool {
		if ks[i].shard != ks[j].shard {
			return ks[i].shard < ks[j].shard
		}
		return ks[i].rid < ks[j].rid
	})
	return ks
}

func (h *vlpHost) runningOf(s uint64) (uint64, bool) {
	for _, k := range h.keys() {
		if k.shard == s && h.reps[k].running {
			return k.rid, true
		}
	}
	return 0, false
}

// a majority of the current members runs on a live host
func (f *vlpFleet) quorumRunning(s uint64) bool {
	c := f.cur(s)
	if c == nil {
		return false
	}
	n := 0
	for rid, a := range c.members {
		h := f.hosts[a]
		if r, ok := h.reps[vlpKey{s, rid}]; ok && h.up && r.running {
			n++
		}
	}
	return n >= len(c.members)/2+1
}

func vlpSortedIDs(m map[uint64]uint64) []uint64 {
	ids := make([]uint64, 0, len(m))
	for k := range m {
		ids = append(ids, k)
	}
	sort.Slice(ids, func(i, j int) bool { return ids[i] < ids[j] })
	return ids
}

// the report a host builds (Agent.build_report): running replicas, membership omitted when
// Drummer's version is not older (the incomplete rule), persisted logs when announced
func (f *vlpFleet) buildReport(h *vlpHost, vers map[uint64]uint64, plog bool) *pb.NodeHostInfo {
	nhi := &pb.NodeHostInfo{RaftAddress: vlpStr("a", h.addr), RPCAddress: "", Region: vlpStr("g", h.region), PlogInfoIncluded: plog}
	for _, k := range h.keys() {
		r := h.reps[k]
		if plog {
			nhi.PlogInfo = append(nhi.PlogInfo, &pb.LogInfo{ShardId: k.shard, ReplicaId: k.rid})
		}
		if !r.running {
			continue
		}
		nhi.ShardIdList = append(nhi.ShardIdList, k.shard)
		si := &pb.ShardInfo{ShardId: k.shard, ReplicaId: k.rid, ConfigChangeIndex: r.ver}
		if r.ver == 0 {
			si.Pending = true
		} else {
			dv, ok := vers[k.shard]
			if ok && dv >= r.ver {
				si.Incomplete = true
			} else {
				e := f.entry(k.shard, r.ver)
				si.Replicas = make(map[uint64]string)
				for rid, a := range e.members {
					si.Replicas[rid] = vlpStr("a", a)
				}
			}
		}
		nhi.ShardInfo = append(nhi.ShardInfo, si)
	}
	return nhi
}

// ---------------------------------------------------------------- dumping

func vlpDumpReq(sb *strings.Builder, r *pb.NodeHostRequest) {
	ch := r.Change
	if ch == nil {
		ch = &pb.Request{}
	}
	fmt.Fprintf(sb, " %d %d %d", int(ch.Type), ch.ShardId, len(ch.Members))
	for _, m := range ch.Members {
		fmt.Fprintf(sb, " %d", m)
	}
	fmt.Fprintf(sb, " %d %d", ch.ConfChangeId, len(r.ReplicaIdList))
	for _, m := range r.ReplicaIdList {
		fmt.Fprintf(sb, " %d", m)
	}
	fmt.Fprintf(sb, " %d", len(r.AddressList))
	for _, a := range r.AddressList {
		fmt.Fprintf(sb, " %d", vlpNum("a", a))
	}
	fmt.Fprintf(sb, " %d %d %d %d %d", r.InstantiateReplicaId, vlpNum("a", r.RaftAddress),
		vlpB(r.Join), vlpB(r.Restore), vlpNum("app", r.AppName))
}

func vlpDumpReqs(reqs []*pb.NodeHostRequest) string {
	var sb strings.Builder
	fmt.Fprintf(&sb, "%d", len(reqs))
	for _, r := range reqs {
		vlpDumpReq(&sb, r)
	}
	return sb.String()
}

// addr rpc region plogincl np (shard rid)* ni shard* ne entry*;  entry := shard rid leader cci incomplete pending nm (rid addr)*
func vlpDumpReport(nhi *pb.NodeHostInfo) string {
	var sb strings.Builder
	fmt.Fprintf(&sb, "%d %d %d %d %d", vlpNum("a", nhi.RaftAddress), vlpNum("p", nhi.RPCAddress), vlpNum("g", nhi.Region),
		vlpB(nhi.PlogInfoIncluded), len(nhi.PlogInfo))
	for _, l := range nhi.PlogInfo {
		fmt.Fprintf(&sb, " %d %d", l.ShardId, l.ReplicaId)
	}
	fmt.Fprintf(&sb, " %d", len(nhi.ShardIdList))
	for _, s := range nhi.ShardIdList {
		fmt.Fprintf(&sb, " %d", s)
	}
	fmt.Fprintf(&sb, " %d", len(nhi.ShardInfo))
	for _, si := range nhi.ShardInfo {
		fmt.Fprintf(&sb, " %d %d %d %d %d %d %d", si.ShardId, si.ReplicaId, vlpB(si.IsLeader), si.ConfigChangeIndex,
			vlpB(si.Incomplete), vlpB(si.Pending), len(si.Replicas))
		ids := make([]uint64, 0)
		for rid := range si.Replicas {
			ids = append(ids, rid)
		}
		sort.Slice(ids, func(i, j int) bool { return ids[i] < ids[j] })
		for _, rid := range ids {
			fmt.Fprintf(&sb, " %d %d", rid, vlpNum("a", si.Replicas[rid]))
		}
	}
	return sb.String()
}

// the scheduler context in the grammar of the "sched" engine:
//   tick ndefs {id app nmembers member..} nview {key id cci nreps {key shard id addr tick first}}
//   nhosts {key addr region tick nplog {shard replica} nshards {shard}} nkill {shard replica addr}
func vlpDumpCtx(sc *schedulerContext) string {
	var sb strings.Builder
	fmt.Fprintf(&sb, "%d", sc.Tick)
	ids := make([]uint64, 0)
	for k := range sc.Shards {
		ids = append(ids, k)
	}
	sort.Slice(ids, func(i, j int) bool { return ids[i] < ids[j] })
	fmt.Fprintf(&sb, " %d", len(ids))
	for _, k := range ids {
		c := sc.Shards[k]
		fmt.Fprintf(&sb, " %d %d %d", c.ShardId, vlpNum("app", c.AppName), len(c.Members))
		for _, m := range c.Members {
			fmt.Fprintf(&sb, " %d", m)
		}
	}
	ids = ids[:0]
	for k := range sc.ShardImage.Shards {
		ids = append(ids, k)
	}
	sort.Slice(ids, func(i, j int) bool { return ids[i] < ids[j] })
	fmt.Fprintf(&sb, " %d", len(ids))
	for _, k := range ids {
		c := sc.ShardImage.Shards[k]
		fmt.Fprintf(&sb, " %d %d %d %d", k, c.ShardID, c.ConfigChangeIndex, len(c.Replicas))
		rids := make([]uint64, 0)
		for r := range c.Replicas {
			rids = append(rids, r)
		}
		sort.Slice(rids, func(i, j int) bool { return rids[i] < rids[j] })
		for _, rk := range rids {
			r := c.Replicas[rk]
			fmt.Fprintf(&sb, " %d %d %d %d %d %d %d", rk, r.ShardID, r.ReplicaID, vlpNum("a", r.Address), r.Tick, r.FirstObserved, vlpB(r.IsLeader))
		}
	}
	addrs := make([]string, 0)
	for a := range sc.NodeHostImage.Nodehosts {
		addrs = append(addrs, a)
	}
	sort.Slice(addrs, func(i, j int) bool { return vlpNum("a", addrs[i]) < vlpNum("a", addrs[j]) })
	fmt.Fprintf(&sb, " %d", len(addrs))
	for _, a := range addrs {
		h := sc.NodeHostImage.Nodehosts[a]
		fmt.Fprintf(&sb, " %d %d %d %d %d", vlpNum("a", a), vlpNum("a", h.Address), vlpNum("g", h.Region), h.Tick, len(h.PersistentLog))
		for _, l := range h.PersistentLog {
			fmt.Fprintf(&sb, " %d %d", l.ShardId, l.ReplicaId)
		}
		ss := make([]uint64, 0)
		for s := range h.Shards {
			ss = append(ss, s)
		}
		sort.Slice(ss, func(i, j int) bool { return ss[i] < ss[j] })
		fmt.Fprintf(&sb, " %d", len(ss))
		for _, s := range ss {
			fmt.Fprintf(&sb, " %d", s)
		}
	}
	fmt.Fprintf(&sb, " %d", len(sc.ShardImage.ReplicasToKill))
	for _, k := range sc.ShardImage.ReplicasToKill {
		fmt.Fprintf(&sb, " %d %d %d", k.ShardID, k.ReplicaID, vlpNum("a", k.Address))
	}
	return sb.String()
}

// ---------------------------------------------------------------- one run

type vlpRun struct {
	spec  vlpSpec
	rng   *rand.Rand
	src   *vlpSource
	be    vlpBackend
	fl    *vlpFleet
	w     *bufio.Writer
	fatal string
}

type vlpAbort struct{ msg string }

func (r *vlpRun) logf(format string, a ...interface{}) {
	fmt.Fprintf(r.w, format, a...)
	r.w.WriteByte('\n')
}

func (r *vlpRun) must(err error, what string) {
	if err != nil {
		kind := "DBFAIL"
		if strings.HasPrefix(err.Error(), "infra") {
			kind = "INFRA"
		}
		panic(vlpAbort{fmt.Sprintf("%s %s %s", kind, what, strings.ReplaceAll(err.Error(), " ", "_"))})
	}
}

// G lines: the simulator's state (ghost knowledge for the monitors and for the model's cross-check)
func (r *vlpRun) ghost() {
	for _, s := range r.fl.shards {
		c := r.fl.cur(s)
		if c == nil {
			continue
		}
		var sb strings.Builder
		for _, rid := range vlpSortedIDs(c.members) {
			fmt.Fprintf(&sb, " %d %d", rid, c.members[rid])
		}
		r.logf("G hist %d %d %d%s", s, c.ver, len(c.members), sb.String())
	}
	for _, h := range r.fl.hosts[1:] {
		var sb strings.Builder
		for _, k := range h.keys() {
			fmt.Fprintf(&sb, " %d %d %d %d", k.shard, k.rid, vlpB(h.reps[k].running), h.reps[k].ver)
		}
		r.logf("G host %d %d %d%s %d %d", h.addr, vlpB(h.up), len(h.reps), sb.String(), len(h.queue), vlpB(h.out != nil))
	}
	st, err := r.be.states(r.fl.shards)
	r.must(err, "states")
	var sb strings.Builder
	for _, s := range r.fl.shards {
		ok, known := st[s]
		fmt.Fprintf(&sb, " %d %d", s, vlpB(known)+vlpB(known && ok))
	}
	r.logf("G avail%s", sb.String())
}

// H line: a new entry of the membership history
func (r *vlpRun) logHist(s uint64) {
	c := r.fl.cur(s)
	var sb strings.Builder
	for _, rid := range vlpSortedIDs(c.members) {
		fmt.Fprintf(&sb, " %d %d", rid, c.members[rid])
	}
	r.logf("H %d %d %d%s", s, c.ver, len(c.members), sb.String())
}

func (r *vlpRun) evTick() {
	v, err := r.be.tick()
	r.must(err, "tick")
	r.logf("E T %d", v)
}

func (r *vlpRun) evSnap(h *vlpHost, plog bool) {
	if !h.up {
		return
	}
	vers, err := r.be.versions()
	r.must(err, "versions")
	h.out = r.fl.buildReport(h, vers, plog)
	h.nreport++
	r.logf("E S %d %d %s", h.addr, vlpB(plog), vlpDumpReport(h.out))
}

func (r *vlpRun) evDeliver(h *vlpHost, lost bool) {
	if !h.up || h.out == nil {
		return
	}
	cnt, reqs, err := r.be.report(h.out)
	r.must(err, "report")
	h.out = nil
	if !lost {
		h.queue = append(h.queue, reqs...)
	}
	c := "x"
	if cnt != ^uint64(0) {
		c = strconv.FormatUint(cnt, 10)
	}
	r.logf("E D %d %d %s %s", h.addr, vlpB(lost), c, vlpDumpReqs(reqs))
}

func (r *vlpRun) evSchedule() string {
	sc, err := r.be.context()
	r.must(err, "context")
	ctx := vlpDumpCtx(sc)
	kind, reqs := r.be.schedule()
	switch kind {
	case "L", "M":
		cnt, err := r.be.updateRequests(reqs)
		r.must(err, "updateRequests")
		r.logf("E %s %d %s | %s", kind, cnt, vlpDumpReqs(reqs), ctx)
		if kind == "L" {
			// the launch plan defines the initial membership of every shard
			for _, q := range reqs {
				s := q.Change.ShardId
				if len(r.fl.hist[s]) == 0 && cnt > 0 {
					m := make(map[uint64]uint64)
					for i, rid := range q.ReplicaIdList {
						m[rid] = vlpNum("a", q.AddressList[i])
					}
					r.fl.hist[s] = []vlpEntry{{ver: 1, members: m}}
					defer r.logHist(s)
					r.fl.used[s] = make(map[uint64]bool)
					for rid := range m {
						r.fl.used[s][rid] = true
					}
				}
			}
		}
	default:
		r.logf("E %s 0 0 | %s", kind, ctx)
	}
	return kind
}

// Agent.execute against the abstract Raft
func (r *vlpRun) evExec(h *vlpHost, ccok bool) {
	if !h.up {
		return
	}
	reqs := h.queue
	h.queue = nil
	var sb strings.Builder
	for _, q := range reqs {
		s := q.Change.ShardId
		switch q.Change.Type {
		case pb.Request_CREATE:
			k := vlpKey{s, q.InstantiateReplicaId}
			rep, has := h.reps[k]
			_, busy := h.runningOf(s)
			// a replica whose own log says it was removed from the shard stops again at once
			gone := has && r.fl.removedAt(s, k.rid, rep.ver)
			switch {
			case !q.Join && !q.Restore: // launch
				if has {
					sb.WriteString(" PANIC")
					r.fatal = "agent panic: launch on existing data"
				} else if !busy {
					h.reps[k] = &vlpRep{running: true, ver: 1}
					sb.WriteString(" launch")
				} else {
					sb.WriteString(" busy")
				}
			case q.Join && !q.Restore:
				if busy {
					sb.WriteString(" busy")
				} else if gone {
					sb.WriteString(" gone")
				} else if has {
					rep.running = true
					sb.WriteString(" rejoin")
				} else {
					h.reps[k] = &vlpRep{running: true, ver: 0}
					sb.WriteString(" join")
				}
			case !q.Join && q.Restore:
				if !has {
					sb.WriteString(" nodata")
				} else if busy {
					sb.WriteString(" busy")
				} else if gone {
					sb.WriteString(" gone")
				} else {
					rep.running = true
					sb.WriteString(" restore")
				}
			default:
				sb.WriteString(" PANIC")
				r.fatal = "agent panic: join && restore"
			}
		case pb.Request_ADD, pb.Request_DELETE:
			rid := q.Change.Members[0]
			c := r.fl.cur(s)
			prop, runs := h.runningOf(s)
			okc := ccok && runs && c != nil
			if okc {
				_, member := c.members[prop]
				okc = member && q.Change.ConfChangeId == c.ver && r.fl.quorumRunning(s)
			}
			if okc && q.Change.Type == pb.Request_ADD {
				okc = !r.fl.used[s][rid]
			}
			if okc && q.Change.Type == pb.Request_DELETE {
				_, m := c.members[rid]
				okc = m
			}
			if !okc {
				sb.WriteString(" noop")
				break
			}
			nm := make(map[uint64]uint64)
			for k, v := range c.members {
				nm[k] = v
			}
			if q.Change.Type == pb.Request_ADD {
				nm[rid] = vlpNum("a", q.AddressList[0])
				r.fl.used[s][rid] = true
				sb.WriteString(" added")
			} else {
				delete(nm, rid)
				// completed DELETE: RemoveData on the executing host
				delete(h.reps, vlpKey{s, rid})
				sb.WriteString(" deleted")
			}
			// the request completed: the proposing replica has applied the change
			for _, k := range h.keys() {
				if rep := h.reps[k]; k.shard == s && rep.running {
					if _, m := c.members[k.rid]; m {
						rep.ver = c.ver + 1
					}
				}
			}
			r.fl.hist[s] = append(r.fl.hist[s], vlpEntry{ver: c.ver + 1, members: nm})
			r.logHist(s)
		case pb.Request_KILL:
			k := vlpKey{s, q.Change.Members[0]}
			if rep, ok := h.reps[k]; ok && rep.running {
				delete(h.reps, k)
				sb.WriteString(" killed")
			} else {
				sb.WriteString(" nokill")
			}
		default:
			sb.WriteString(" PANIC")
			r.fatal = "agent panic: unknown request type"
		}
	}
	r.logf("E X %d %d %s |%s", h.addr, vlpB(ccok), vlpDumpReqs(reqs), sb.String())
}

func (r *vlpRun) evCrash(h *vlpHost) {
	if !h.up {
		return
	}
	h.up = false
	h.queue = nil
	h.out = nil
	for _, rep := range h.reps {
		rep.running = false
	}
	r.logf("E C %d", h.addr)
}

func (r *vlpRun) evRestart(h *vlpHost) {
	if h.up {
		return
	}
	h.up = true
	r.logf("E R %d", h.addr)
}

// a running replica learns a newer membership version; learning its own removal stops it
func (r *vlpRun) evLearn(h *vlpHost, k vlpKey, ver uint64) {
	rep, ok := h.reps[k]
	e := r.fl.entry(k.shard, ver)
	if !ok || !rep.running || !h.up || e == nil || ver <= rep.ver {
		return
	}
	rep.ver = ver
	if r.fl.removedAt(k.shard, k.rid, ver) {
		rep.running = false
	}
	r.logf("E N %d %d %d %d", h.addr, k.shard, k.rid, ver)
}

func (r *vlpRun) numDown() int {
	n := 0
	for _, h := range r.fl.hosts[1:] {
		if !h.up {
			n++
		}
	}
	return n
}

func (r *vlpRun) faultRound() {
	p := r.spec.P
	type act struct {
		kind string
		h    *vlpHost
		k    vlpKey
	}
	acts := make([]act, 0)
	for i := 0; i < r.spec.TicksRound; i++ {
		acts = append(acts, act{kind: "T"})
	}
	for _, h := range r.fl.hosts[1:] {
		if h.mute {
			if r.rng.Float64() < p.Unmute {
				h.mute = false
			}
		} else if r.rng.Float64() < p.Mute {
			h.mute = true
		}
		if h.up {
			if !h.mute && r.rng.Float64() >= p.SkipSnap {
				acts = append(acts, act{kind: "S", h: h})
			}
			if !h.mute && r.rng.Float64() >= p.Delay {
				acts = append(acts, act{kind: "D", h: h})
			}
			if r.rng.Float64() < p.Exec {
				acts = append(acts, act{kind: "X", h: h})
			}
			if r.rng.Float64() < p.Crash {
				acts = append(acts, act{kind: "C", h: h})
			}
			for _, k := range h.keys() {
				if r.rng.Float64() < p.Learn {
					acts = append(acts, act{kind: "N", h: h, k: k})
				}
			}
		} else if r.rng.Float64() < p.Restart {
			acts = append(acts, act{kind: "R", h: h})
		}
	}
	if r.rng.Float64() < p.Sched {
		acts = append(acts, act{kind: "M"})
	}
	r.rng.Shuffle(len(acts), func(i, j int) { acts[i], acts[j] = acts[j], acts[i] })
	for _, a := range acts {
		switch a.kind {
		case "T":
			r.evTick()
		case "S":
			r.evSnap(a.h, r.rng.Float64() < p.Plog)
		case "D":
			r.evDeliver(a.h, r.rng.Float64() < p.LostReply)
		case "X":
			r.evExec(a.h, r.rng.Float64() >= p.CCFail)
		case "C":
			if r.numDown() < r.spec.MaxDown {
				r.evCrash(a.h)
			}
		case "R":
			r.evRestart(a.h)
		case "M":
			r.evSchedule()
		case "N":
			c := r.fl.cur(a.k.shard)
			if rep, ok := a.h.reps[a.k]; ok && c != nil && c.ver > rep.ver {
				r.evLearn(a.h, a.k, rep.ver+1+uint64(r.rng.Intn(int(c.ver-rep.ver))))
			}
		}
	}
}

// no fault: every host reports (persisted-log info every cycle-th report) and receives the reply,
// every host executes, Raft catches up where a majority runs, time passes, the leader schedules
func (r *vlpRun) healthyRound() {
	for _, h := range r.fl.hosts[1:] {
		r.evSnap(h, r.spec.PlogCycle <= 1 || h.nreport%r.spec.PlogCycle == 0)
		r.evDeliver(h, false)
	}
	for _, h := range r.fl.hosts[1:] {
		r.evExec(h, true)
	}
	r.catchUp()
	for i := 0; i < r.spec.TicksRound; i++ {
		r.evTick()
	}
	r.evSchedule()
}

// directed fault schedule (same events as the random one): one host after the other stays down until every
// shard has been repaired away from it (ADD onto the spare, join, DELETE) and then returns as a spare that still
// holds the persisted log of its removed replicas; the next repair places new replicas of the same shards on it.
// After quorum+1 such rotations a quorum of hosts holds, per shard, the log of a removed replica AND of a current
// member; those hosts then crash together for longer than the failure timeout.  Healing needs the restore of the
// current members from their logs.
func (r *vlpRun) rotate() {
	sp := r.spec
	quorum := sp.Size/2 + 1
	nround := 0
	degraded := func(n int, until func() bool) {
		for i := 0; i < n && r.fatal == ""; i++ {
			r.healthyRound()
			r.logf("ROUND F %d", nround)
			nround++
			r.ghost()
			if until != nil && until() {
				return
			}
		}
	}
	// hosts that hold a current member of shard 1: with / without the log of another (removed) replica of shard 1
	memberHosts := func() (double, clean []*vlpHost) {
		c := r.fl.cur(r.fl.shards[0])
		if c == nil {
			return
		}
		for _, h := range r.fl.hosts[1:] {
			member, other := false, false
			for k := range h.reps {
				if k.shard != r.fl.shards[0] {
					continue
				}
				if a, ok := c.members[k.rid]; ok && a == h.addr {
					member = true
				} else {
					other = true
				}
			}
			if member && other {
				double = append(double, h)
			} else if member {
				clean = append(clean, h)
			}
		}
		return
	}
	for rot := 0; rot < sp.Size+3 && r.fatal == ""; rot++ {
		double, clean := memberHosts()
		if len(double) >= quorum || len(clean) == 0 {
			break
		}
		h := clean[0]
		r.evCrash(h)
		degraded(24, func() bool {
			for _, s := range r.fl.shards {
				c := r.fl.cur(s)
				if c == nil || len(c.members) != sp.Size {
					return false
				}
				for rid, a := range c.members {
					hh := r.fl.hosts[a]
					rep, ok := hh.reps[vlpKey{s, rid}]
					if a == h.addr || !ok || !rep.running || rep.ver != c.ver {
						return false
					}
				}
			}
			return true
		})
		r.evRestart(h)
		degraded(2, nil)
	}
	double, _ := memberHosts()
	for i, h := range double {
		if i < quorum {
			r.evCrash(h)
		}
	}
	degraded(5, nil)
}

func (r *vlpRun) catchUp() {
	for _, h := range r.fl.hosts[1:] {
		for _, k := range h.keys() {
			c := r.fl.cur(k.shard)
			if c == nil || !r.fl.quorumRunning(k.shard) {
				continue
			}
			if _, m := c.members[k.rid]; m {
				r.evLearn(h, k, c.ver)
			}
		}
	}
}

func (r *vlpRun) run() {
	sp := r.spec
	r.logf("RUN %d %s hosts %d shards %d size %d regions %d seed %d", sp.ID, sp.Backend, sp.Hosts, sp.NShards, sp.Size, sp.Regions, sp.Seed)
	defer func() {
		if x := recover(); x != nil {
			if a, ok := x.(vlpAbort); ok {
				r.logf("ABORT %s", a.msg)
			} else {
				r.logf("ABORT HARNESS %s", strings.ReplaceAll(fmt.Sprint(x), " ", "_"))
			}
		}
		r.logf("END %d", sp.ID)
	}()
	fl := &vlpFleet{hosts: make([]*vlpHost, sp.Hosts+1), hist: make(map[uint64][]vlpEntry), used: make(map[uint64]map[uint64]bool)}
	r.fl = fl
	var sb strings.Builder
	for i := 1; i <= sp.Hosts; i++ {
		fl.hosts[i] = &vlpHost{addr: uint64(i), region: uint64((i-1)%sp.Regions + 1), up: true, reps: make(map[vlpKey]*vlpRep)}
		fmt.Fprintf(&sb, " %d", fl.hosts[i].region)
	}
	r.logf("HOSTS %d%s", sp.Hosts, sb.String())
	// setup: regions, shard definitions, bootstrapped
	reg := &pb.Regions{}
	left := sp.Size
	for g := 1; g <= sp.Regions; g++ {
		cnt := sp.Size / sp.Regions
		if g == sp.Regions {
			cnt = left
		}
		left -= cnt
		reg.Region = append(reg.Region, vlpStr("g", uint64(g)))
		reg.Count = append(reg.Count, uint64(cnt))
	}
	r.must(r.be.setRegions(reg), "setRegions")
	r.logf("E KV 5")
	for s := 1; s <= sp.NShards; s++ {
		members := make([]uint64, 0)
		for m := 1; m <= sp.Size; m++ {
			members = append(members, uint64(m))
		}
		code, err := r.be.submitShard(uint64(s), members, "app1")
		r.must(err, "submitShard")
		fl.shards = append(fl.shards, uint64(s))
		r.logf("E SH %d %d 1 %d%s", code, s, len(members), vlpJoinU(members))
	}
	r.must(r.be.setBootstrapped(), "setBootstrapped")
	r.logf("E KV 3")
	// launch phase
	r.evTick()
	for _, h := range fl.hosts[1:] {
		r.evSnap(h, true)
		r.evDeliver(h, false)
	}
	r.evTick()
	kind := r.evSchedule()
	if kind != "L" {
		panic(vlpAbort{"NOLAUNCH " + kind})
	}
	for round := 0; round < 2; round++ {
		for _, h := range fl.hosts[1:] {
			r.evSnap(h, true)
			r.evDeliver(h, false)
		}
		for _, h := range fl.hosts[1:] {
			r.evExec(h, true)
		}
		r.evTick()
	}
	r.logf("LAUNCHED")
	r.ghost()
	if sp.Script == "rotate" {
		r.rotate()
	}
	for i := 0; i < sp.FaultRounds && r.fatal == ""; i++ {
		r.faultRound()
		r.logf("ROUND F %d", i)
		r.ghost()
	}
	// faults stop: every host is up again
	for _, h := range fl.hosts[1:] {
		r.evRestart(h)
		h.mute = false
	}
	r.logf("HEAL")
	r.ghost()
	for i := 0; i < sp.HealRounds && r.fatal == ""; i++ {
		r.healthyRound()
		r.logf("ROUND H %d", i)
		r.ghost()
	}
	if r.fatal != "" {
		r.logf("FATAL %s", strings.ReplaceAll(r.fatal, " ", "_"))
	}
}

func vlpJoinU(xs []uint64) string {
	var sb strings.Builder
	for _, x := range xs {
		fmt.Fprintf(&sb, " %d", x)
	}
	return sb.String()
}

func TestVerifLoop(t *testing.T) {
	in, err := os.Open(os.Getenv("VERIF_IN"))
	if err != nil {
		t.Skip("no VERIF_IN")
	}
	defer in.Close()
	outf, err := os.Create(os.Getenv("VERIF_OUT"))
	if err != nil {
		t.Fatal(err)
	}
	defer outf.Close()
	w := bufio.NewWriterSize(outf, 1<<20)
	defer w.Flush()
	plog.SetLevel(logger.CRITICAL)
	logger.GetLogger("dragonboat").SetLevel(logger.CRITICAL)
	logger.GetLogger("raft").SetLevel(logger.CRITICAL)
	logger.GetLogger("rsm").SetLevel(logger.CRITICAL)
	logger.GetLogger("transport").SetLevel(logger.CRITICAL)
	logger.GetLogger("logdb").SetLevel(logger.CRITICAL)
	logger.GetLogger("config").SetLevel(logger.CRITICAL)
	fmt.Fprintf(w, "PARAMS %d %d\n", nodeHostTTL, tickIntervalSecond)
	scn := bufio.NewScanner(in)
	scn.Buffer(make([]byte, 1<<20), 1<<26)
	for scn.Scan() {
		line := strings.TrimSpace(scn.Text())
		if line == "" {
			continue
		}
		var sp vlpSpec
		if err := json.Unmarshal([]byte(line), &sp); err != nil {
			fmt.Fprintf(w, "BADSPEC %s\n", strings.ReplaceAll(err.Error(), " ", "_"))
			continue
		}
		src := &vlpSource{rng: rand.New(rand.NewSource(sp.Seed ^ 0x5eed)), next: 100}
		run := &vlpRun{spec: sp, rng: rand.New(rand.NewSource(sp.Seed)), src: src, w: w}
		if sp.Backend == "nodehost" {
			var be *vlpNH
			var err error
			for try := 0; try < 3; try++ {
				be, err = vlpNewNH(src)
				if err == nil {
					break
				}
			}
			if err != nil {
				fmt.Fprintf(w, "RUN %d nodehost\nABORT INFRA newnodehost %s\nEND %d\n", sp.ID, strings.ReplaceAll(err.Error(), " ", "_"), sp.ID)
				continue
			}
			run.be = be
		} else {
			run.be = vlpNewDirect(src)
		}
		run.run()
		run.be.close()
		w.Flush()
	}
}
