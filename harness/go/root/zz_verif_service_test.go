package drummer

// Executor for the C17 correspondence (see /verif/DESIGN.md, engine "service").
// Built together with zz_verif_db_test.go (token parsers vToks / vParseReport /
// vParseRequest / vStr / vJSON are shared with the "db" engine).
//
// PARENT mode (VERIF_IN / VERIF_OUT set): reads cases, runs each of them against a
// CHILD process (the same test binary, env VERIF_CHILD=1) and records what the
// child answered call by call.  A panic inside the replicated state machine kills
// the child; the parent observes that as "DIED" (the pipe closes, the process
// exits) and - when the case runs on a real directory - starts a new child on the
// same directory to see whether the replica comes up again (log replay).
//
// CHILD mode: one real single-replica dragonboat NodeHost (in-memory FS, or a real
// directory when the case contains restarts) whose shard 0 runs the real drummer
// DB (NewDB); srv = newDrummerServer(nh, scripted random source).  Calls are read
// from fd 3 line by line, executed through the real `server` methods, answers are
// written to fd 4.  Nothing is asserted.
//
// Unexported identifiers used: newDrummerServer, (*server).setDeploymentID,
// getSession, getSchedulerContext, Drummer{nh, server, sessionUser, ctx} literal
// with (*Drummer).tick / updateRequests (the Drummer's own, non-client updates),
// sessionUser, defaultShardID, nodeHostTTL, tickIntervalSecond, launchDeadlineTick,
// (*server).getBootstrapped, raftOpTimeoutMillisecond (package variable, set for the duration of one faulted call).
//
// Case grammar (VERIF_IN):
//   CASE <name> <mem|dir>
//   SC <ctype> <shard> <app> <n> <member>*          SubmitChange
//   SCNIL                                           SubmitChange(nil)
//   SR <n> <region>* <m> <count>*                   SetRegions
//   SRNIL                                           SetRegions(nil)
//   SB                                              SetBootstrapped
//   SD <did>                                        setDeploymentID, random source returns did
//   RP <report tokens>                              ReportAvailableNodeHost
//   GS | GN | GT <n> <id>* | GL | GD                GetShards / GetNodeHostCollection / GetShardStates /
//                                                   GetShardConfigChangeIndexList / GetDeploymentInfo
//   T                                               Drummer.tick()
//   Q <n> <request tokens>*                         Drummer.updateRequests()
//   CTX                                             server.getSchedulerContext()
//   GB                                              server.getBootstrapped(): linearizable read of the bootstrapped flag of the DB
//   RESTART | KILL                                  stop the child (NodeHost.Close / SIGKILL), start a new one on the same dir
//   END
// Prefixes of a call line (in this order, both optional):
//   @2                    the call goes through a SECOND server object on the same NodeHost (another front-end of the same DB)
//   F <kind> <arg>        fault injection for this one call:
//        c 0              the client's context is already cancelled
//        d <microsec>     the client's context expires <microsec> after the call started
//        t <millisec>     the soft setting behind raftOpTimeoutMillisecond (allowance of one proposal / lookup inside the
//                         call) is <millisec> during this call: 1 = below one RTT (refused before it is submitted),
//                         2.. = may time out in flight (the proposal may or may not be applied)
//      The error of a faulted call is reported as "err ..." (never as infrastructure); after a faulted call the executor
//      waits until everything the call may have left in flight is settled (a session round trip through the same queue).
// Before the first CASE:  STR <id> <hex>   string table: token <id> in a string position (application name, region name,
//   report region / RPC address) stands for the bytes <hex>, whatever the prefix; everything else is vStr(prefix, id).
// All answers are printed in ASCII (\uXXXX escapes inside JSON strings), JSON without insignificant white space.
// Output (VERIF_OUT): "PARAMS ttl step ldt" then per case "CASE <name>", one line
// "<opindex> <answer>" per executed op, "ENDCASE ok|infra <msg>".
// Answers: "ok code N" | "ok did N" | "ok pb JSON" | "ok json JSON" | "ok v N" | "ok bool N" |
//   "err <grpc code> <text>" | "hpanic <text>" | "DIED <panic text>" |
//   "restarted alive" | "restarted died <text>"
// After DIED on a dir case one more line "<opindex> AGAIN alive|died <text>".

import (
	"bufio"
	"bytes"
	"context"
	"encoding/hex"
	"encoding/json"
	"errors"
	"fmt"
	"os"
	"os/exec"
	"path/filepath"
	"strconv"
	"strings"
	"sync"
	"sync/atomic"
	"syscall"
	"testing"
	"time"

	"github.com/lni/dragonboat/v4"
	"github.com/lni/dragonboat/v4/config"
	"github.com/lni/dragonboat/v4/logger"
	chantrans "github.com/lni/dragonboat/v4/plugin/chan"
	"github.com/lni/vfs"
	"google.golang.org/grpc/status"
	"google.golang.org/protobuf/encoding/protojson"
	"google.golang.org/protobuf/proto"

	pb "github.com/lni/drummer/v3/drummerpb"
)

// ---------------------------------------------------------------- child

type vsRand struct {
	next uint64
	hook func() // runs once inside the next Uint64() call: something another server does between this draw and its use
}

func (r *vsRand) Uint64() uint64 {
	if r.hook != nil {
		h := r.hook
		r.hook = nil
		h()
	}
	return r.next
}
func (r *vsRand) Int() int       { return int(r.next) }

type vsChanFactory struct{ chantrans.ChanTransportFactory }

func (f *vsChanFactory) Validate(string) bool { return true }

func vsInfra(err error) bool {
	if err == nil {
		return false
	}
	if errors.Is(err, dragonboat.ErrTimeout) || errors.Is(err, dragonboat.ErrSystemBusy) ||
		errors.Is(err, dragonboat.ErrShardNotReady) || errors.Is(err, dragonboat.ErrAborted) ||
		errors.Is(err, dragonboat.ErrRejected) || errors.Is(err, context.DeadlineExceeded) ||
		errors.Is(err, errSessionNotReady) {
		return true
	}
	msg := err.Error()
	for _, e := range []error{dragonboat.ErrTimeout, dragonboat.ErrSystemBusy, dragonboat.ErrShardNotReady,
		dragonboat.ErrAborted, dragonboat.ErrRejected, context.DeadlineExceeded} {
		if strings.Contains(msg, e.Error()) {
			return true
		}
	}
	return false
}

func vsNewNodeHost(dir string) (*dragonboat.NodeHost, error) {
	nhc := config.NodeHostConfig{
		NodeHostDir:    "/verif-service",
		RTTMillisecond: 2,
		RaftAddress:    "localhost:26017",
		Expert: config.ExpertConfig{
			LogDB:            config.GetTinyMemLogDBConfig(),
			TransportFactory: &vsChanFactory{},
			Engine: config.EngineConfig{ExecShards: 2, CommitShards: 2, ApplyShards: 2,
				SnapshotShards: 2, CloseShards: 2},
		},
	}
	if dir == "" {
		nhc.Expert.FS = vfs.NewMem()
	} else {
		nhc.NodeHostDir = dir
	}
	nh, err := dragonboat.NewNodeHost(nhc)
	if err != nil {
		return nil, err
	}
	rc := config.Config{
		ReplicaID:    1,
		ShardID:      defaultShardID,
		ElectionRTT:  10,
		HeartbeatRTT: 1,
		CheckQuorum:  false,
	}
	if err = nh.StartReplica(map[uint64]string{1: nhc.RaftAddress}, false, NewDB, rc); err != nil {
		nh.Close()
		return nil, err
	}
	return nh, nil
}

// string table (STR lines): token -> literal string
var vsStrTab = map[uint64]string{}
var vsStrLines []string

func vsSetStr(f []string) {
	if len(f) < 2 {
		return
	}
	id, err := strconv.ParseUint(f[1], 10, 64)
	if err != nil {
		return
	}
	lit := ""
	if len(f) > 2 {
		b, err := hex.DecodeString(f[2])
		if err != nil {
			return
		}
		lit = string(b)
	}
	vsStrTab[id] = lit
}

func vsStr(prefix string, n uint64) string {
	if s, ok := vsStrTab[n]; ok {
		return s
	}
	return vStr(prefix, n)
}

// vsASCII makes a line printable ASCII: inside JSON strings non-ASCII runes become \uXXXX escapes, which is still the same JSON
func vsASCII(s string) string {
	plain := true
	for i := 0; i < len(s); i++ {
		if s[i] < 0x20 || s[i] >= 0x7f {
			plain = false
			break
		}
	}
	if plain {
		return s
	}
	var b strings.Builder
	for _, r := range s {
		switch {
		case r >= 0x20 && r < 0x7f:
			b.WriteRune(r)
		case r < 0x10000:
			fmt.Fprintf(&b, "\\u%04x", r)
		default:
			r -= 0x10000
			fmt.Fprintf(&b, "\\u%04x\\u%04x", 0xd800+(r>>10), 0xdc00+(r&0x3ff))
		}
	}
	return b.String()
}

// vsJSON: protojson without insignificant white space (white space INSIDE strings is kept, unlike vJSON)
func vsJSON(m proto.Message) string {
	b, err := protojson.MarshalOptions{EmitUnpopulated: true}.Marshal(m)
	if err != nil {
		return "{}"
	}
	var out bytes.Buffer
	if err := json.Compact(&out, b); err != nil {
		return "{}"
	}
	return out.String()
}

func vsErrText(err error) string {
	return strings.ReplaceAll(strings.ReplaceAll(err.Error(), " ", "_"), "\n", "_")
}

func vsErrLine(err error) string {
	msg := vsErrText(err)
	if vsInfra(err) {
		return "infra " + msg
	}
	return fmt.Sprintf("err %d %s", uint32(status.Code(err)), msg)
}

type vsChild struct {
	nh   *dragonboat.NodeHost
	srv  *server // the server object the Drummer itself uses
	srv2 *server // a second front-end of the same DB
	cur  *server // the one serving the current call
	rnd  *vsRand
	dr   *Drummer
}

func (c *vsChild) ctx() (context.Context, context.CancelFunc) {
	return context.WithTimeout(context.Background(), 20*time.Second)
}

// settle: whatever an abandoned call left in flight has been applied or dropped when a later proposal through the same
// queue (a client session registration + its removal; neither touches the DB) has completed
func (c *vsChild) settle() {
	for i := 0; i < 50; i++ {
		ctx, cancel := c.ctx()
		s, err := c.nh.SyncGetSession(ctx, defaultShardID)
		if err == nil {
			err = c.nh.SyncCloseSession(ctx, s)
		}
		cancel()
		if err == nil {
			return
		}
		time.Sleep(5 * time.Millisecond)
	}
}

// call: one line = optional "@2", optional "F kind arg", then the op
func (c *vsChild) call(f []string) string {
	c.cur = c.srv
	if len(f) > 1 && f[0] == "@2" {
		c.cur = c.srv2
		f = f[1:]
	}
	if len(f) > 3 && f[0] == "F" {
		kind := f[1]
		arg, _ := strconv.ParseUint(f[2], 10, 64)
		f = f[3:]
		var ctx context.Context
		var cancel context.CancelFunc
		saved := raftOpTimeoutMillisecond
		switch kind {
		case "c":
			ctx, cancel = c.ctx()
			cancel()
		case "d":
			ctx, cancel = context.WithTimeout(context.Background(), time.Duration(arg)*time.Microsecond)
		case "t":
			ctx, cancel = c.ctx()
			raftOpTimeoutMillisecond = arg
		default:
			return "hpanic unknown_fault_" + kind
		}
		ans := c.exec(f, ctx)
		cancel()
		raftOpTimeoutMillisecond = saved
		c.settle()
		if strings.HasPrefix(ans, "infra ") {
			ans = "err 2 " + ans[6:]
		}
		return ans
	}
	ctx, cancel := c.ctx()
	defer cancel()
	return c.exec(f, ctx)
}

func (c *vsChild) pbAnswer(m proto.Message, err error) string {
	if err != nil {
		return vsErrLine(err)
	}
	return "ok pb " + vsJSON(m)
}

func (c *vsChild) changeAnswer(r *pb.ChangeResponse, err error) string {
	if err != nil {
		return vsErrLine(err)
	}
	return fmt.Sprintf("ok code %d", int32(r.Code))
}

func (c *vsChild) exec(f []string, ctx context.Context) (ans string) {
	defer func() {
		if r := recover(); r != nil {
			ans = "hpanic " + strings.ReplaceAll(strings.ReplaceAll(fmt.Sprint(r), " ", "_"), "\n", "_")
		}
	}()
	tk := &vToks{f: f, i: 1}
	srv := c.cur
	switch f[0] {
	case "SC":
		ch := &pb.Change{}
		ch.Type = pb.Change_Type(tk.u())
		ch.ShardId = tk.u()
		ch.AppName = vsStr("app", tk.u())
		for n := tk.u(); n > 0; n-- {
			ch.Members = append(ch.Members, tk.u())
		}
		return c.changeAnswer(srv.SubmitChange(ctx, ch))
	case "SCNIL":
		return c.changeAnswer(srv.SubmitChange(ctx, nil))
	case "SR":
		r := &pb.Regions{}
		for n := tk.u(); n > 0; n-- {
			r.Region = append(r.Region, vsStr("g", tk.u()))
		}
		for n := tk.u(); n > 0; n-- {
			r.Count = append(r.Count, tk.u())
		}
		return c.changeAnswer(srv.SetRegions(ctx, r))
	case "SRNIL":
		return c.changeAnswer(srv.SetRegions(ctx, nil))
	case "SB":
		return c.changeAnswer(srv.SetBootstrapped(ctx, &pb.Empty{}))
	case "SD":
		c.rnd.next = tk.u()
		session, err := srv.getSession(ctx, defaultShardID)
		if err != nil {
			return vsErrLine(err)
		}
		did, err := srv.setDeploymentID(ctx, session)
		cc, ccancel := c.ctx()
		_ = c.nh.SyncCloseSession(cc, session)
		ccancel()
		if err != nil {
			return vsErrLine(err)
		}
		return fmt.Sprintf("ok did %d", did)
	case "SDR":
		// two Drummer servers set the deployment id concurrently: the second server's whole setDeploymentID call lands between
		// this server's random draw and its proposal.  Answer: "ok did2 <result of this server> <result of the other server>"
		c.rnd.next = tk.u()
		other := tk.u()
		var rb uint64
		var errb error
		c.rnd.hook = func() {
			srv2 := newDrummerServer(c.nh, &vsRand{next: other})
			ctx2, cancel2 := c.ctx()
			defer cancel2()
			s2, err := srv2.getSession(ctx2, defaultShardID)
			if err != nil {
				errb = err
				return
			}
			rb, errb = srv2.setDeploymentID(ctx2, s2)
			cc2, ccancel2 := c.ctx()
			_ = c.nh.SyncCloseSession(cc2, s2)
			ccancel2()
		}
		session, err := srv.getSession(ctx, defaultShardID)
		if err != nil {
			c.rnd.hook = nil
			return vsErrLine(err)
		}
		ra, err := srv.setDeploymentID(ctx, session)
		hookRan := c.rnd.hook == nil
		c.rnd.hook = nil
		cc, ccancel := c.ctx()
		_ = c.nh.SyncCloseSession(cc, session)
		ccancel()
		if err != nil {
			return vsErrLine(err)
		}
		if errb != nil {
			return vsErrLine(errb)
		}
		if !hookRan {
			// this server did not draw at all (it found the id already set): the other server never ran
			return fmt.Sprintf("ok did2 %d 0", ra)
		}
		return fmt.Sprintf("ok did2 %d %d", ra, rb)
	case "RP":
		nhi := vParseReport(tk)
		for id, lit := range vsStrTab { // string-table tokens in the string positions of a report
			if nhi.Region == vStr("g", id) {
				nhi.Region = lit
			}
			if nhi.RPCAddress == vStr("p", id) {
				nhi.RPCAddress = lit
			}
		}
		return c.pbAnswer(srv.ReportAvailableNodeHost(ctx, nhi))
	case "GS":
		return c.pbAnswer(srv.GetShards(ctx, &pb.Empty{}))
	case "GN":
		return c.pbAnswer(srv.GetNodeHostCollection(ctx, &pb.Empty{}))
	case "GT":
		q := &pb.ShardStateRequest{}
		for n := tk.u(); n > 0; n-- {
			q.ShardIdList = append(q.ShardIdList, tk.u())
		}
		return c.pbAnswer(srv.GetShardStates(ctx, q))
	case "GL":
		return c.pbAnswer(srv.GetShardConfigChangeIndexList(ctx, &pb.Empty{}))
	case "GD":
		r, err := srv.GetDeploymentInfo(ctx, &pb.Empty{})
		if err != nil {
			return vsErrLine(err)
		}
		return fmt.Sprintf("ok did %d", r.DeploymentId)
	case "GB":
		b, err := srv.getBootstrapped(ctx)
		if err != nil {
			return vsErrLine(err)
		}
		if b {
			return "ok bool 1"
		}
		return "ok bool 0"
	case "T":
		v, err := c.dr.tick()
		if err != nil {
			return vsErrLine(err)
		}
		return fmt.Sprintf("ok v %d", v)
	case "Q":
		var reqs []*pb.NodeHostRequest
		for n := tk.u(); n > 0; n-- {
			reqs = append(reqs, vParseRequest(tk))
		}
		v, err := c.dr.updateRequests(reqs)
		if err != nil {
			return vsErrLine(err)
		}
		return fmt.Sprintf("ok v %d", v)
	case "CTX":
		sc, err := srv.getSchedulerContext(ctx)
		if err != nil {
			return vsErrLine(err)
		}
		data, err := json.Marshal(sc)
		if err != nil {
			return "hpanic json_" + err.Error()
		}
		return "ok json " + string(data) // json.Marshal: compact, control characters escaped
	}
	return "hpanic unknown_op_" + f[0]
}

func vsChildMain() {
	in := os.NewFile(3, "verif-in")
	out := os.NewFile(4, "verif-out")
	w := bufio.NewWriter(out)
	say := func(s string) {
		fmt.Fprintln(w, vsASCII(s))
		w.Flush()
	}
	for _, n := range []string{"raft", "rsm", "transport", "dragonboat", "logdb", "raftpb", "config", "settings",
		"tan", "drummer", "grpc", "server", "utils", "goutils", "pebble"} {
		logger.GetLogger(n).SetLevel(logger.ERROR)
	}
	nh, err := vsNewNodeHost(os.Getenv("VERIF_DIR"))
	if err != nil {
		say("NOTREADY " + strings.ReplaceAll(err.Error(), " ", "_"))
		return
	}
	c := &vsChild{nh: nh, rnd: &vsRand{next: 1}}
	c.srv = newDrummerServer(nh, c.rnd)
	c.srv2 = newDrummerServer(nh, c.rnd)
	c.dr = &Drummer{nh: nh, server: c.srv, sessionUser: &sessionUser{nh: nh}, ctx: context.Background()}
	// wait until the shard answers linearizable reads (idempotent, retried)
	ready := false
	for i := 0; i < 2000 && !ready; i++ {
		ctx, cancel := context.WithTimeout(context.Background(), 5*time.Second)
		_, err := c.srv.GetShards(ctx, &pb.Empty{})
		cancel()
		if err == nil {
			ready = true
		} else {
			time.Sleep(5 * time.Millisecond)
		}
	}
	if !ready {
		say("NOTREADY shard_does_not_answer")
		return
	}
	say("READY")
	sc := bufio.NewScanner(in)
	sc.Buffer(make([]byte, 1<<20), 1<<26)
	for sc.Scan() {
		f := strings.Fields(sc.Text())
		if len(f) == 0 {
			continue
		}
		if f[0] == "QUIT" {
			nh.Close()
			say("BYE")
			return
		}
		if f[0] == "STR" { // string table entry, not answered
			vsSetStr(f)
			continue
		}
		say(c.call(f))
	}
}

// ---------------------------------------------------------------- parent

type vsCase struct {
	name string
	dir  bool
	ops  []string
}

type vsProc struct {
	cmd     *exec.Cmd
	toChild *os.File
	lines   chan string
	errPath string
	done    chan struct{}
}

func vsSpawn(dir, errPath string) (*vsProc, error) {
	r1, w1, err := os.Pipe() // parent -> child
	if err != nil {
		return nil, err
	}
	r2, w2, err := os.Pipe() // child -> parent
	if err != nil {
		return nil, err
	}
	ef, err := os.OpenFile(errPath, os.O_CREATE|os.O_WRONLY|os.O_TRUNC, 0o644)
	if err != nil {
		return nil, err
	}
	cmd := exec.Command(os.Args[0], "-test.run", "^TestVerifService$", "-test.count=1", "-test.timeout", "30m")
	cmd.Env = append(os.Environ(), "VERIF_CHILD=1", "VERIF_DIR="+dir, "GOTRACEBACK=single")
	cmd.ExtraFiles = []*os.File{r1, w2}
	cmd.Stdout = ef
	cmd.Stderr = ef
	if err := cmd.Start(); err != nil {
		return nil, err
	}
	r1.Close()
	w2.Close()
	ef.Close()
	p := &vsProc{cmd: cmd, toChild: w1, lines: make(chan string, 16), errPath: errPath, done: make(chan struct{})}
	go func() {
		sc := bufio.NewScanner(r2)
		sc.Buffer(make([]byte, 1<<20), 1<<26)
		for sc.Scan() {
			p.lines <- sc.Text()
		}
		close(p.lines)
		r2.Close()
	}()
	go func() {
		_ = cmd.Wait()
		close(p.done)
	}()
	return p, nil
}

// next answer line; ok=false: the child is gone (pipe closed) or hangs
func (p *vsProc) read(timeout time.Duration) (string, bool, bool) {
	select {
	case l, ok := <-p.lines:
		if !ok {
			return "", false, false
		}
		return l, true, false
	case <-time.After(timeout):
		return "", false, true
	}
}

func (p *vsProc) kill() {
	if p.cmd.Process != nil {
		_ = p.cmd.Process.Signal(syscall.SIGKILL)
	}
	p.toChild.Close()
	select {
	case <-p.done:
	case <-time.After(20 * time.Second):
	}
}

func (p *vsProc) panicText() string {
	select {
	case <-p.done:
	case <-time.After(20 * time.Second):
	}
	data, err := os.ReadFile(p.errPath)
	if err != nil {
		return "?"
	}
	for _, l := range strings.Split(string(data), "\n") {
		if strings.HasPrefix(l, "panic:") {
			l = strings.ReplaceAll(strings.TrimSpace(l), " ", "_")
			if len(l) > 160 {
				l = l[:160]
			}
			return l
		}
	}
	return "no_panic_line_in_child_output"
}

var vsSeq uint64

func vsRunCase(c *vsCase, scratch string) (lines []string) {
	lines = append(lines, "CASE "+c.name)
	id := atomic.AddUint64(&vsSeq, 1)
	dir := ""
	if c.dir {
		dir = filepath.Join(scratch, fmt.Sprintf("nh-%d-%d", os.Getpid(), id))
		_ = os.MkdirAll(dir, 0o755)
		defer os.RemoveAll(dir)
	}
	errPath := filepath.Join(scratch, fmt.Sprintf("child-%d-%d.log", os.Getpid(), id))
	defer os.Remove(errPath)
	fail := func(msg string) []string {
		return append(lines, "ENDCASE infra "+strings.ReplaceAll(msg, "\n", " "))
	}
	start := func() (*vsProc, string) {
		p, err := vsSpawn(dir, errPath)
		if err != nil {
			return nil, "spawn: " + err.Error()
		}
		l, ok, hang := p.read(120 * time.Second)
		if hang {
			p.kill()
			return nil, "child start hangs"
		}
		if !ok {
			return nil, "died " + p.panicText()
		}
		if l != "READY" {
			p.kill()
			return nil, "child: " + l
		}
		for _, sl := range vsStrLines {
			_, _ = fmt.Fprintln(p.toChild, sl)
		}
		return p, ""
	}
	p, msg := start()
	if p == nil {
		return fail("first start: " + msg)
	}
	defer func() { p.kill() }()
	for i, op := range c.ops {
		if op == "RESTART" || op == "KILL" {
			if op == "RESTART" {
				fmt.Fprintln(p.toChild, "QUIT")
				if l, ok, _ := p.read(60 * time.Second); !ok || l != "BYE" {
					p.kill()
					return fail("graceful stop failed")
				}
			}
			p.kill()
			np, msg := start()
			if np == nil {
				if strings.HasPrefix(msg, "died ") {
					lines = append(lines, fmt.Sprintf("%d restarted died %s", i, msg[5:]))
					lines = append(lines, "ENDCASE ok")
					return lines
				}
				return fail("restart: " + msg)
			}
			p = np
			lines = append(lines, fmt.Sprintf("%d restarted alive", i))
			continue
		}
		_, _ = fmt.Fprintln(p.toChild, op) // a write error means the child is already gone: seen below as EOF
		l, ok, hang := p.read(90 * time.Second)
		if hang {
			return fail(fmt.Sprintf("op %d hangs", i))
		}
		if !ok {
			lines = append(lines, fmt.Sprintf("%d DIED %s", i, p.panicText()))
			if c.dir {
				np, msg := start()
				if np != nil {
					lines = append(lines, fmt.Sprintf("%d AGAIN alive", i))
					p = np
				} else if strings.HasPrefix(msg, "died ") {
					lines = append(lines, fmt.Sprintf("%d AGAIN died %s", i, msg[5:]))
				} else {
					return fail("restart after death: " + msg)
				}
			}
			lines = append(lines, "ENDCASE ok")
			return lines
		}
		if strings.HasPrefix(l, "infra ") {
			return fail(fmt.Sprintf("op %d: %s", i, l))
		}
		lines = append(lines, fmt.Sprintf("%d %s", i, l))
	}
	lines = append(lines, "ENDCASE ok")
	return lines
}

func vsParse(path string) ([]*vsCase, error) {
	f, err := os.Open(path)
	if err != nil {
		return nil, err
	}
	defer f.Close()
	var cases []*vsCase
	var cur *vsCase
	sc := bufio.NewScanner(f)
	sc.Buffer(make([]byte, 1<<20), 1<<26)
	for sc.Scan() {
		t := strings.TrimSpace(sc.Text())
		if t == "" {
			continue
		}
		fs := strings.Fields(t)
		switch fs[0] {
		case "STR":
			if cur == nil {
				vsStrLines = append(vsStrLines, t)
			}
		case "CASE":
			cur = &vsCase{name: fs[1], dir: len(fs) > 2 && fs[2] == "dir"}
		case "END":
			cases = append(cases, cur)
			cur = nil
		default:
			if cur != nil {
				cur.ops = append(cur.ops, t)
			}
		}
	}
	return cases, sc.Err()
}

func TestVerifService(t *testing.T) {
	if os.Getenv("VERIF_CHILD") != "" {
		vsChildMain()
		return
	}
	in, out := os.Getenv("VERIF_IN"), os.Getenv("VERIF_OUT")
	if in == "" || out == "" {
		t.Skip("VERIF_IN / VERIF_OUT not set")
	}
	cases, err := vsParse(in)
	if err != nil {
		t.Fatalf("cannot read input: %v", err)
	}
	scratch := os.Getenv("VERIF_SCRATCH")
	if scratch == "" {
		scratch = filepath.Dir(out)
	}
	workers := 8
	if v, err := strconv.Atoi(os.Getenv("VERIF_WORKERS")); err == nil && v > 0 {
		workers = v
	}
	results := make([][]string, len(cases))
	var next int64 = -1
	var wg sync.WaitGroup
	for w := 0; w < workers; w++ {
		wg.Add(1)
		go func() {
			defer wg.Done()
			for {
				i := int(atomic.AddInt64(&next, 1))
				if i >= len(cases) {
					return
				}
				for attempt := 0; attempt < 3; attempt++ {
					results[i] = vsRunCase(cases[i], scratch)
					last := results[i][len(results[i])-1]
					if !strings.HasPrefix(last, "ENDCASE infra") {
						break
					}
				}
			}
		}()
	}
	wg.Wait()
	f, err := os.Create(out)
	if err != nil {
		t.Fatalf("cannot write output: %v", err)
	}
	w := bufio.NewWriter(f)
	fmt.Fprintf(w, "PARAMS %d %d %d\n", nodeHostTTL, tickIntervalSecond, launchDeadlineTick)
	for _, r := range results {
		for _, l := range r {
			fmt.Fprintln(w, l)
		}
	}
	w.Flush()
	f.Close()
}
