package drummer

// Executor for the C19 correspondence (see /verif/DESIGN.md, engine "facade").
// Reads VERIF_IN, writes VERIF_OUT; asserts nothing itself, recovers panics into outcome tokens.
//
// Real code driven: NodehostAPI.GetSession / CloseSession / Propose / Read, ToPBSession,
// ToNodeHostSession, grpcError, GRPCError on real single-replica dragonboat NodeHosts (MemFS, in-memory
// chan transport: no OS port is opened) hosting harness-defined state machines of the three types.
// Facade objects are made by the public constructor NewNodehostAPI (listening on 127.0.0.1:0, never dialled, stopped
// at the end of the block): no field of NodehostAPI is named here. Unexported identifiers used: grpcError, updatePBSession.
//
// Input grammar (one token line each; '#' comment lines ignored):
//   NH                        begin of a NodeHost block (blocks are independent, run in parallel)
//   A <a>                     new facade object a  (NewNodehostAPI on this NodeHost)
//   S <shard> <type>          start a single-replica shard, type 1 regular / 2 concurrent / 3 on-disk
//   SN <shard> <type>         as S, but returns at once: the shard is hosted, nothing is applied yet (NodeHostInfo says
//                             Pending until the first entry is applied)
//   SJ <shard> <type>         a JOINING replica (join=true, no initial members, nobody to join): hosted, never ready
//   W <shard>                 wait until a shard started with SN answers reads
//   Q <a> <shard>             GetSession through facade a (own goroutine, under recover), then CloseSession; for a
//                             joining shard with a short deadline, followed by the local SyncGetSession with the same
//                             deadline ("jerr <code> <is status> <text> <name of the local error>")
//   B <a> <rounds> <id>...    CONCURRENT GetSession calls through ONE facade object: per round one goroutine per listed shard
//                             id (ids may repeat), all released at the same instant, each under its own recover; tracked
//                             sessions are closed again. Output: "ok <shard>:<outcome>:<count> ..." (outcome tracked / noop /
//                             err / errstatus<code> / panic / infra / wrongshard) summed over all rounds
//   G <a> <shard> <name>      obtain a session through facade a and the local session of the same kind, keep both as <name>
//   H <name> <shard> <tracked|noop>  a hand-made session pair for <shard> (never registered anywhere)
//   Y <a> <name> <f|l> <propose|close>  Propose / CloseSession with the kept session through the facade (f) or
//                             SyncPropose / SyncCloseSession with the kept local session (l)
//   P <a> <shard> <f|l> <hex> propose through the facade (f) or locally (l: nh.SyncPropose)
//   R <a> <shard> <f|l> <hex> linearizable read through the facade (f) or locally (l: nh.SyncRead)
//   X <a> <shard> <f|l> <op>  error-path operation with identical arguments on both paths (nodeadline pastdeadline
//                             invalidsession toobig canceledread nodeadline-read plain-propose plain-read)
//   K <shard> <d|n|k>         stop the shard (NodeHost.StopShard); d: the data of the stopped replica is removed
//                             (SyncRemoveData), the next S of this shard id is a new replica id; n: data kept, the next
//                             S is a new replica id; k: data kept, the next S restarts the same replica (same type)
//   E <a> <shard> <f|l> <k>   read whose query makes the state machine's Lookup return error value no. k of
//                             vfErrAlphabet (an error of an arbitrary dynamic type, handed back unchanged by SyncRead)
//   C                         close the NodeHost (later operations observe a closed NodeHost)
//   END                       end of block
//   T <f1> <f2> ...           session conversion on a session whose uint64 fields (in declaration
//                             order) are the given values, both directions
//   ERRS                      evaluate grpcError/GRPCError on every enumerated error value (the dragonboat/context
//                             values and vfErrAlphabet: wrapped, pointer, struct, slice, map, func-holding ... typed)
//   WIRE <shard> <type>       one NodeHost behind a real gRPC listener (NewNodehostAPI) and client
// Output: "<lineno> <tokens...>" per executed input line (lineno = 1-based input line).

import (
	"bufio"
	"context"
	"encoding/binary"
	"encoding/hex"
	"errors"
	"fmt"
	"hash/fnv"
	"io"
	"net"
	"os"
	"reflect"
	"runtime"
	"sort"
	"strconv"
	"strings"
	"sync"
	"sync/atomic"
	"testing"
	"time"

	"github.com/lni/dragonboat/v4"
	"github.com/lni/dragonboat/v4/client"
	"github.com/lni/dragonboat/v4/config"
	"github.com/lni/dragonboat/v4/logger"
	chantrans "github.com/lni/dragonboat/v4/plugin/chan"
	"github.com/lni/dragonboat/v4/raftio"
	sm "github.com/lni/dragonboat/v4/statemachine"
	pb "github.com/lni/drummer/v3/multiraftpb"
	"github.com/lni/vfs"
	"google.golang.org/grpc"
	"google.golang.org/grpc/codes"
	"google.golang.org/grpc/credentials/insecure"
	"google.golang.org/grpc/status"
	"google.golang.org/protobuf/proto"
)

// ------------------------------------------------------------------ tiny deterministic state machine

type vfCore struct {
	mu    sync.Mutex
	count uint64
	acc   uint64
	last  []byte
}

func vfHash(b []byte) uint64 {
	h := fnv.New64a()
	_, _ = h.Write(b)
	return h.Sum64()
}

// apply is the whole Update semantics: result Value = rolling hash of every command so far.
// A command starting with 'D' also returns Result.Data (probe: what happens to Data on the facade).
func (c *vfCore) apply(cmd []byte) sm.Result {
	c.mu.Lock()
	defer c.mu.Unlock()
	c.count++
	c.acc = c.acc*1099511628211 ^ vfHash(cmd) ^ c.count
	c.last = append([]byte{}, cmd...)
	r := sm.Result{Value: c.acc}
	if len(cmd) > 0 && cmd[0] == 'D' {
		r.Data = append([]byte("data:"), cmd...)
	}
	return r
}

func (c *vfCore) query(q []byte) []byte {
	c.mu.Lock()
	defer c.mu.Unlock()
	if string(q) == "nilbytes" {
		return []byte(nil)
	}
	if string(q) == "empty" {
		return []byte{}
	}
	out := make([]byte, 16)
	binary.BigEndian.PutUint64(out[0:], c.count)
	binary.BigEndian.PutUint64(out[8:], c.acc)
	out = append(out, c.last...)
	out = append(out, '|')
	out = append(out, q...)
	return out
}

func (c *vfCore) save(w io.Writer) error {
	c.mu.Lock()
	defer c.mu.Unlock()
	b := make([]byte, 16)
	binary.BigEndian.PutUint64(b[0:], c.count)
	binary.BigEndian.PutUint64(b[8:], c.acc)
	_, err := w.Write(append(b, c.last...))
	return err
}

func (c *vfCore) load(r io.Reader) error {
	b, err := io.ReadAll(r)
	if err != nil || len(b) < 16 {
		return errors.New("bad snapshot")
	}
	c.mu.Lock()
	defer c.mu.Unlock()
	c.count = binary.BigEndian.Uint64(b[0:])
	c.acc = binary.BigEndian.Uint64(b[8:])
	c.last = append([]byte{}, b[16:]...)
	return nil
}

func vfLookup(c *vfCore, q interface{}) (interface{}, error) {
	b, ok := q.([]byte)
	if !ok {
		return nil, errors.New("bad query type")
	}
	// "E:<k>": the state machine rejects the query with error value no. k of the alphabet
	if len(b) > 2 && b[0] == 'E' && b[1] == ':' {
		if k, err := strconv.Atoi(string(b[2:])); err == nil {
			al := vfErrAlphabet()
			if k >= 0 && k < len(al) {
				return nil, al[k].err
			}
		}
	}
	return c.query(b), nil
}

type vfRegSM struct{ c vfCore }

func (s *vfRegSM) Update(e sm.Entry) (sm.Result, error)      { return s.c.apply(e.Cmd), nil }
func (s *vfRegSM) Lookup(q interface{}) (interface{}, error) { return vfLookup(&s.c, q) }
func (s *vfRegSM) Close() error                              { return nil }
func (s *vfRegSM) SaveSnapshot(w io.Writer, _ sm.ISnapshotFileCollection, _ <-chan struct{}) error {
	return s.c.save(w)
}
func (s *vfRegSM) RecoverFromSnapshot(r io.Reader, _ []sm.SnapshotFile, _ <-chan struct{}) error {
	return s.c.load(r)
}

type vfConcSM struct{ c vfCore }

func (s *vfConcSM) Update(es []sm.Entry) ([]sm.Entry, error) {
	for i := range es {
		es[i].Result = s.c.apply(es[i].Cmd)
	}
	return es, nil
}
func (s *vfConcSM) Lookup(q interface{}) (interface{}, error) { return vfLookup(&s.c, q) }
func (s *vfConcSM) PrepareSnapshot() (interface{}, error)     { return nil, nil }
func (s *vfConcSM) Close() error                              { return nil }
func (s *vfConcSM) SaveSnapshot(_ interface{}, w io.Writer, _ sm.ISnapshotFileCollection, _ <-chan struct{}) error {
	return s.c.save(w)
}
func (s *vfConcSM) RecoverFromSnapshot(r io.Reader, _ []sm.SnapshotFile, _ <-chan struct{}) error {
	return s.c.load(r)
}

type vfDiskSM struct{ c vfCore }

func (s *vfDiskSM) Open(_ <-chan struct{}) (uint64, error) { return 0, nil }
func (s *vfDiskSM) Update(es []sm.Entry) ([]sm.Entry, error) {
	for i := range es {
		es[i].Result = s.c.apply(es[i].Cmd)
	}
	return es, nil
}
func (s *vfDiskSM) Lookup(q interface{}) (interface{}, error) { return vfLookup(&s.c, q) }
func (s *vfDiskSM) Sync() error                               { return nil }
func (s *vfDiskSM) PrepareSnapshot() (interface{}, error)     { return nil, nil }
func (s *vfDiskSM) Close() error                              { return nil }
func (s *vfDiskSM) SaveSnapshot(_ interface{}, w io.Writer, _ <-chan struct{}) error {
	return s.c.save(w)
}
func (s *vfDiskSM) RecoverFromSnapshot(r io.Reader, _ <-chan struct{}) error { return s.c.load(r) }

// ------------------------------------------------------------------ helpers

func vfHex(b []byte) string {
	if len(b) == 0 {
		return "-"
	}
	return hex.EncodeToString(b)
}

func vfUnhex(s string) []byte {
	if s == "-" {
		return []byte{}
	}
	b, err := hex.DecodeString(s)
	if err != nil {
		panic(err)
	}
	return b
}

func vfTok(s string) string {
	s = strings.Map(func(r rune) rune {
		if r == ' ' || r == '\n' || r == '\t' || r == '\r' {
			return '_'
		}
		if r < 32 || r > 126 {
			return '?'
		}
		return r
	}, s)
	if len(s) > 160 {
		s = s[:160]
	}
	if s == "" {
		return "_"
	}
	return s
}

// the error values the executor can name; order is irrelevant, names are the interface to python
type vfNamedErr struct {
	name string
	err  error
}

func vfErrTable() []vfNamedErr {
	return []vfNamedErr{
		{"ErrInvalidSession", dragonboat.ErrInvalidSession},
		{"ErrPayloadTooBig", dragonboat.ErrPayloadTooBig},
		{"ErrTimeoutTooSmall", dragonboat.ErrTimeoutTooSmall},
		{"ErrSystemBusy", dragonboat.ErrSystemBusy},
		{"ErrClosed", dragonboat.ErrClosed},
		{"ErrShardClosed", dragonboat.ErrShardClosed},
		{"ErrShardNotFound", dragonboat.ErrShardNotFound},
		{"ContextCanceled", context.Canceled},
		{"ErrCanceled", dragonboat.ErrCanceled},
		{"ContextDeadlineExceeded", context.DeadlineExceeded},
		{"ErrTimeout", dragonboat.ErrTimeout},
		// the remaining exported error values of package dragonboat: "other" for the table
		{"ErrInvalidOption", dragonboat.ErrInvalidOption},
		{"ErrInvalidOperation", dragonboat.ErrInvalidOperation},
		{"ErrInvalidAddress", dragonboat.ErrInvalidAddress},
		{"ErrShardNotInitialized", dragonboat.ErrShardNotInitialized},
		{"ErrRejected", dragonboat.ErrRejected},
		{"ErrAborted", dragonboat.ErrAborted},
		{"ErrShardNotReady", dragonboat.ErrShardNotReady},
		{"ErrInvalidTarget", dragonboat.ErrInvalidTarget},
		{"ErrReplicaRemoved", dragonboat.ErrReplicaRemoved},
		{"ErrShardAlreadyExist", dragonboat.ErrShardAlreadyExist},
		{"ErrShardNotStopped", dragonboat.ErrShardNotStopped},
		{"ErrInvalidShardSettings", dragonboat.ErrInvalidShardSettings},
		{"ErrShardNotBootstrapped", dragonboat.ErrShardNotBootstrapped},
		{"ErrDeadlineNotSet", dragonboat.ErrDeadlineNotSet},
		{"ErrInvalidDeadline", dragonboat.ErrInvalidDeadline},
		{"ErrDirNotExist", dragonboat.ErrDirNotExist},
		{"ErrLogDBNotCreatedOrClosed", dragonboat.ErrLogDBNotCreatedOrClosed},
		{"ErrInvalidRange", dragonboat.ErrInvalidRange},
		// values that are not identical to any table entry
		{"Other:plain", errors.New("some unrelated failure")},
		{"Other:wrappedTimeout", fmt.Errorf("wrapped: %w", dragonboat.ErrTimeout)},
		{"Other:wrappedCanceled", fmt.Errorf("wrapped: %w", context.Canceled)},
		{"Other:sameTextAsTimeout", errors.New(dragonboat.ErrTimeout.Error())},
		{"Other:io.EOF", io.EOF},
	}
}

// ---- error values of arbitrary dynamic types ("every error is mapped to a defined status code": error is an
// interface, its values are not only the *errors.errorString values of the dragonboat/context table).
// Error() of every type below is total (the nil-pointer value included); errors whose Error() panics are out of scope.

type vfPtrErr struct{ msg string } // pointer receiver; the nil pointer is a legal value

func (e *vfPtrErr) Error() string {
	if e == nil {
		return "nil *vfPtrErr"
	}
	return e.msg
}

type vfValErr struct { // comparable struct, value receiver
	code int
	msg  string
}

func (e vfValErr) Error() string { return fmt.Sprintf("%s (%d)", e.msg, e.code) }

type vfSliceErr []string // slice-typed error (like go/scanner.ErrorList, validation error lists)

func (e vfSliceErr) Error() string { return "problems: " + strings.Join(e, "; ") }

type vfMapErr map[string]string // map-typed error (field -> problem)

func (e vfMapErr) Error() string {
	ks := make([]string, 0, len(e))
	for k := range e {
		ks = append(ks, k+"="+e[k])
	}
	sort.Strings(ks)
	return "fields: " + strings.Join(ks, ",")
}

type vfStructSliceErr struct { // value struct holding a slice
	op    string
	items []string
}

func (e vfStructSliceErr) Error() string { return e.op + ": " + strings.Join(e.items, "|") }

type vfStructMapErr struct { // value struct holding a map
	op string
	m  map[string]int
}

func (e vfStructMapErr) Error() string { return fmt.Sprintf("%s: %d entries", e.op, len(e.m)) }

type vfStructFuncErr struct{ f func() string } // value struct holding a func

func (e vfStructFuncErr) Error() string {
	if e.f == nil {
		return "no text"
	}
	return e.f()
}

type vfIfaceErr struct { // comparable static type; whether a value can be compared depends on what it holds
	op     string
	detail interface{}
}

func (e vfIfaceErr) Error() string { return fmt.Sprintf("%s: %v", e.op, e.detail) }

type vfArrayErr [2]string // comparable array

func (e vfArrayErr) Error() string { return e[0] + "/" + e[1] }

type vfArrayOfSliceErr [1][]byte // array of slices

func (e vfArrayOfSliceErr) Error() string { return "bytes " + hex.EncodeToString(e[0]) }

type vfStringErr string

func (e vfStringErr) Error() string { return string(e) }

type vfIntErr int

func (e vfIntErr) Error() string { return "errno " + strconv.Itoa(int(e)) }

type vfEmbedErr struct{ error } // embeds (does not equal) another error value

type vfIsErr struct{ target error } // claims identity through errors.Is only

func (e *vfIsErr) Error() string        { return "like " + e.target.Error() }
func (e *vfIsErr) Is(target error) bool { return target == e.target }
func (e *vfIsErr) Unwrap() error        { return e.target }

type vfNestedErr struct { // uncomparable two levels down
	op    string
	inner struct{ parts [2]vfStructSliceErr }
}

func (e vfNestedErr) Error() string { return e.op + " nested" }

var vfSharedPtrErr = &vfPtrErr{"shared pointer error"}

// vfErrAlphabet: names are the interface to python ("Dyn:" = not a value of the table, whatever its type or text);
// the first group are values the table lists, coming from somewhere else than dragonboat (a state machine's Lookup).
func vfErrAlphabet() []vfNamedErr {
	long := strings.Repeat("long error text ", 700)
	return []vfNamedErr{
		{"ErrShardNotFound", dragonboat.ErrShardNotFound},
		{"ErrInvalidSession", dragonboat.ErrInvalidSession},
		{"ErrClosed", dragonboat.ErrClosed},
		{"ErrCanceled", dragonboat.ErrCanceled},
		{"ContextCanceled", context.Canceled},
		{"ErrPayloadTooBig", dragonboat.ErrPayloadTooBig},
		{"Dyn:wrapped", fmt.Errorf("lookup failed: %w", dragonboat.ErrShardNotFound)},
		{"Dyn:wrappedTwice", fmt.Errorf("outer: %w", fmt.Errorf("inner: %w", context.DeadlineExceeded))},
		{"Dyn:joined", errors.Join(dragonboat.ErrTimeout, io.EOF)},
		{"Dyn:pointer", &vfPtrErr{"custom pointer error"}},
		{"Dyn:pointerShared", vfSharedPtrErr},
		{"Dyn:pointerNil", (*vfPtrErr)(nil)},
		{"Dyn:struct", vfValErr{7, "custom struct error"}},
		{"Dyn:structZero", vfValErr{}},
		{"Dyn:slice", vfSliceErr{"empty key", "key too long"}},
		{"Dyn:sliceNil", vfSliceErr(nil)},
		{"Dyn:sliceEmpty", vfSliceErr{}},
		{"Dyn:map", vfMapErr{"key": "missing", "ttl": "negative"}},
		{"Dyn:mapNil", vfMapErr(nil)},
		{"Dyn:structWithSlice", vfStructSliceErr{"validate", []string{"a", "b"}}},
		{"Dyn:structWithNilSlice", vfStructSliceErr{"validate", nil}},
		{"Dyn:structWithMap", vfStructMapErr{"index", map[string]int{"x": 1}}},
		{"Dyn:structWithFunc", vfStructFuncErr{func() string { return "lazy text" }}},
		{"Dyn:structWithNilFunc", vfStructFuncErr{}},
		{"Dyn:ifaceHoldingInt", vfIfaceErr{"parse", 42}},
		{"Dyn:ifaceHoldingSlice", vfIfaceErr{"parse", []int{1, 2}}},
		{"Dyn:ifaceHoldingMap", vfIfaceErr{"parse", map[int]int{1: 2}}},
		{"Dyn:ifaceHoldingNil", vfIfaceErr{"parse", nil}},
		{"Dyn:array", vfArrayErr{"a", "b"}},
		{"Dyn:arrayOfSlice", vfArrayOfSliceErr{[]byte{1, 2, 3}}},
		{"Dyn:string", vfStringErr("string typed error")},
		{"Dyn:stringSameTextAsNotFound", vfStringErr(dragonboat.ErrShardNotFound.Error())},
		{"Dyn:int", vfIntErr(13)},
		{"Dyn:intZero", vfIntErr(0)},
		{"Dyn:embedsNotFound", vfEmbedErr{dragonboat.ErrShardNotFound}},
		{"Dyn:embedsNil", vfEmbedErrSafe()},
		{"Dyn:isTimeout", &vfIsErr{dragonboat.ErrTimeout}},
		{"Dyn:nested", vfNestedErr{op: "deep"}},
		{"Dyn:statusNotFound", status.Error(codes.NotFound, "already a status")},
		{"Dyn:statusUnavailable", vfStatusErr(codes.Unavailable)},
		{"Dyn:emptyText", errors.New("")},
		{"Dyn:longText", errors.New(long)},
		{"Dyn:newlineText", errors.New("line one\nline two\ttab")},
		{"Dyn:nonUTF8Text", errors.New("bad \xff\xfe bytes")},
		{"Dyn:percentText", errors.New("disk 100% full, %d files, %s")},
		{"Dyn:sliceWithPercent", vfSliceErr{"50%", "%v"}},
	}
}

// a vfEmbedErr whose embedded error is a value struct (Error() stays total)
func vfEmbedErrSafe() error { return vfEmbedErr{vfValErr{0, "embedded"}} }

func vfStatusErr(c codes.Code) error { return status.New(c, "status made elsewhere").Err() }

func vfTypeName(err error) string {
	if err == nil {
		return "nil"
	}
	return vfTok(fmt.Sprintf("%T", err))
}

// vfSameErr: identity of two error values without ==, which panics on two values of one uncomparable type
func vfSameErr(a, b error) bool {
	if a == nil || b == nil {
		return a == nil && b == nil
	}
	if reflect.TypeOf(a) != reflect.TypeOf(b) {
		return false
	}
	if reflect.TypeOf(a).Comparable() {
		same := false
		func() {
			defer func() { _ = recover() }()
			same = a == b
		}()
		if same {
			return true
		}
	}
	return a.Error() == b.Error()
}

func vfErrName(err error) string {
	if err == nil {
		return "nil"
	}
	for _, ne := range vfErrTable()[:29] {
		if err == ne.err {
			return ne.name
		}
	}
	return "Other:" + vfTok(err.Error())
}

// vfCode: the status code a gRPC peer sees for err (a non-status error travels as Unknown)
func vfCode(err error) string {
	if err == nil {
		return "0"
	}
	return strconv.Itoa(int(status.Code(err)))
}

func vfIsStatus(err error) string {
	if _, ok := status.FromError(err); ok {
		return "1"
	}
	return "0"
}

func vfMsg(err error) string {
	if st, ok := status.FromError(err); ok {
		return vfTok(st.Message())
	}
	return vfTok(err.Error())
}

// guarded runs f in its own goroutine under recover; a panic becomes the returned string
func vfGuard(f func()) (pan string) {
	done := make(chan string, 1)
	go func() {
		defer func() {
			if r := recover(); r != nil {
				done <- vfTok(fmt.Sprint(r))
				return
			}
			done <- ""
		}()
		f()
	}()
	select {
	case p := <-done:
		return p
	case <-time.After(60 * time.Second):
		return "HANG"
	}
}

func vfInfra(err error) bool {
	if err == nil {
		return false
	}
	for _, e := range []error{dragonboat.ErrTimeout, dragonboat.ErrShardNotReady, dragonboat.ErrSystemBusy,
		dragonboat.ErrAborted, dragonboat.ErrRejected} {
		if err == e {
			return true
		}
	}
	m := err.Error()
	for _, e := range []error{dragonboat.ErrTimeout, dragonboat.ErrShardNotReady, dragonboat.ErrSystemBusy,
		dragonboat.ErrAborted} {
		if st, ok := status.FromError(err); ok && st.Message() == e.Error() {
			return true
		}
		_ = m
	}
	return false
}

// vfMaybeApplied: the outcome of a proposal that ended like this is unknown (it may still be applied later); a
// repetition can then apply the command twice, so the block is reported as an infrastructure problem and run again
func vfMaybeApplied(err error) bool {
	if err == nil {
		return false
	}
	if err == dragonboat.ErrTimeout || err == context.DeadlineExceeded {
		return true
	}
	if st, ok := status.FromError(err); ok && (st.Code() == codes.DeadlineExceeded || st.Message() == dragonboat.ErrTimeout.Error()) {
		return true
	}
	return false
}

var vfNHSeq uint64

// ------------------------------------------------------------------ one NodeHost block

type vfLine struct {
	no  int
	tok []string
}

type vfBlock struct {
	lines []vfLine
	out   []string
}

type vfHost struct {
	nh      *dragonboat.NodeHost
	closed  bool
	apis    map[string]*NodehostAPI
	types   map[uint64]int
	shadow  map[uint64]*vfCore
	fsess   map[string]*pb.Session     // facade sessions by api/shard
	lsess   map[uint64]*client.Session // local sessions by shard
	started []uint64
	replica map[uint64]uint64 // replica id the next start of a shard id uses (default 1)
	keep    map[uint64]bool   // the next start of this shard id restarts the stopped replica (state is replayed)
	ev      *vfSysListener
	joining map[uint64]bool // shards started with join=true
	unready map[uint64]bool // shards started without waiting, not yet waited for
	kept    map[string]*vfKept
}

// a session obtained earlier (or made by hand), in both forms
type vfKept struct {
	pb    *pb.Session
	local *client.Session
	shard uint64
}

const vfMaxInMem = 64 * 1024

// in-memory transport of dragonboat (plugin/chan); its Validate is not implemented (panics), a
// single replica never dials anybody, so any well-formed address is accepted here
type vfChanFactory struct{ chantrans.ChanTransportFactory }

func (f *vfChanFactory) Validate(string) bool { return true }

// vfSysListener: the NodeHost's own notification that a stopped replica has been unloaded by every engine worker
// (a shard id must not be started again before that: dragonboat panics "from two incarnations found")
type vfSysListener struct {
	mu       sync.Mutex
	unloaded map[[2]uint64]int
}

func (l *vfSysListener) NodeUnloaded(info raftio.NodeInfo) {
	l.mu.Lock()
	l.unloaded[[2]uint64{info.ShardID, info.ReplicaID}]++
	l.mu.Unlock()
}
func (l *vfSysListener) unloadedCount(shard, replica uint64) int {
	l.mu.Lock()
	defer l.mu.Unlock()
	return l.unloaded[[2]uint64{shard, replica}]
}
func (l *vfSysListener) NodeHostShuttingDown()                       {}
func (l *vfSysListener) NodeDeleted(raftio.NodeInfo)                 {}
func (l *vfSysListener) NodeReady(raftio.NodeInfo)                   {}
func (l *vfSysListener) MembershipChanged(raftio.NodeInfo)           {}
func (l *vfSysListener) ConnectionEstablished(raftio.ConnectionInfo) {}
func (l *vfSysListener) ConnectionFailed(raftio.ConnectionInfo)      {}
func (l *vfSysListener) SendSnapshotStarted(raftio.SnapshotInfo)     {}
func (l *vfSysListener) SendSnapshotCompleted(raftio.SnapshotInfo)   {}
func (l *vfSysListener) SendSnapshotAborted(raftio.SnapshotInfo)     {}
func (l *vfSysListener) SnapshotReceived(raftio.SnapshotInfo)        {}
func (l *vfSysListener) SnapshotRecovered(raftio.SnapshotInfo)       {}
func (l *vfSysListener) SnapshotCreated(raftio.SnapshotInfo)         {}
func (l *vfSysListener) SnapshotCompacted(raftio.SnapshotInfo)       {}
func (l *vfSysListener) LogCompacted(raftio.EntryInfo)               {}
func (l *vfSysListener) LogDBCompacted(raftio.EntryInfo)             {}

func vfNewNodeHost() (nh *dragonboat.NodeHost, ev *vfSysListener, err error) {
	ev = &vfSysListener{unloaded: map[[2]uint64]int{}}
	pan := vfGuard(func() { nh, err = vfNewNodeHost0(ev) })
	if pan != "" {
		return nil, nil, errors.New("panic: " + pan)
	}
	return nh, ev, err
}

func vfNewNodeHost0(ev *vfSysListener) (*dragonboat.NodeHost, error) {
	id := atomic.AddUint64(&vfNHSeq, 1)
	nhc := config.NodeHostConfig{
		NodeHostDir:         fmt.Sprintf("/vfnh%d", id),
		RTTMillisecond:      2,
		RaftAddress:         fmt.Sprintf("localhost:%d", 20000+id%40000),
		SystemEventListener: ev,
		Expert: config.ExpertConfig{
			FS:               vfs.NewMem(),
			LogDB:            config.GetTinyMemLogDBConfig(),
			TransportFactory: &vfChanFactory{},
			Engine: config.EngineConfig{ExecShards: 2, CommitShards: 2, ApplyShards: 2,
				SnapshotShards: 2, CloseShards: 2},
		},
	}
	return dragonboat.NewNodeHost(nhc)
}

func (h *vfHost) ctx() (context.Context, context.CancelFunc) {
	return context.WithTimeout(context.Background(), 10*time.Second)
}

func (h *vfHost) start(shard uint64, typ int) string { return h.startMode(shard, typ, "wait") }

// startMode: "wait" = until the replica answers reads, "nowait" = return at once, "join" = join=true with nobody to join
func (h *vfHost) startMode(shard uint64, typ int, mode string) string {
	if h.replica == nil {
		h.replica = map[uint64]uint64{}
		h.keep = map[uint64]bool{}
	}
	rid := h.replica[shard]
	if rid == 0 {
		rid = 1
		h.replica[shard] = 1
	}
	cfg := config.Config{
		ReplicaID: rid, ShardID: shard, ElectionRTT: 10, HeartbeatRTT: 1, CheckQuorum: false,
		SnapshotEntries: 0, MaxInMemLogSize: vfMaxInMem,
	}
	members := map[uint64]dragonboat.Target{rid: h.nh.RaftAddress()}
	join := mode == "join"
	if join {
		members = map[uint64]dragonboat.Target{}
	}
	var err error
	switch typ {
	case 1:
		err = h.nh.StartReplica(members, join, func(uint64, uint64) sm.IStateMachine { return &vfRegSM{} }, cfg)
	case 2:
		err = h.nh.StartConcurrentReplica(members, join, func(uint64, uint64) sm.IConcurrentStateMachine { return &vfConcSM{} }, cfg)
	case 3:
		err = h.nh.StartOnDiskReplica(members, join, func(uint64, uint64) sm.IOnDiskStateMachine { return &vfDiskSM{} }, cfg)
	default:
		return "badtype"
	}
	if err != nil {
		return "err " + vfErrName(err)
	}
	h.types[shard] = typ
	if !h.keep[shard] || h.shadow[shard] == nil {
		h.shadow[shard] = &vfCore{}
	}
	h.keep[shard] = false
	h.started = append(h.started, shard)
	if mode != "wait" {
		if join {
			if h.joining == nil {
				h.joining = map[uint64]bool{}
			}
			h.joining[shard] = true
		}
		if !join {
			if h.unready == nil {
				h.unready = map[uint64]bool{}
			}
			h.unready[shard] = true
		}
		rep, pending := h.reported(shard)
		return fmt.Sprintf("ok %d %d %d", rep, rid, pending)
	}
	return h.waitReady(shard, rid)
}

// reported: what the NodeHost itself says about the shard (state machine type, Pending flag); -1 = not listed
func (h *vfHost) reported(shard uint64) (int, int) {
	rep, pending := -1, 0
	if nhi := h.nh.GetNodeHostInfo(dragonboat.DefaultNodeHostInfoOption); nhi != nil {
		for _, ci := range nhi.ShardInfoList {
			if ci.ShardID == shard {
				rep = int(ci.StateMachineType)
				if ci.Pending {
					pending = 1
				}
			}
		}
	}
	return rep, pending
}

func (h *vfHost) waitReady(shard uint64, rid uint64) string {
	var err error
	delete(h.unready, shard)
	// wait until the single replica has elected itself (infrastructure, not under test)
	deadline := time.Now().Add(20 * time.Second)
	for {
		ctx, cancel := context.WithTimeout(context.Background(), time.Second)
		_, err = h.nh.SyncRead(ctx, shard, []byte("ready"))
		cancel()
		if err == nil {
			break
		}
		if time.Now().After(deadline) {
			return "notready " + vfErrName(err)
		}
		time.Sleep(2 * time.Millisecond)
	}
	// what the NodeHost itself reports for this shard
	rep := -1
	if nhi := h.nh.GetNodeHostInfo(dragonboat.DefaultNodeHostInfoOption); nhi != nil {
		for _, ci := range nhi.ShardInfoList {
			if ci.ShardID == shard {
				rep = int(ci.StateMachineType)
			}
		}
	}
	return fmt.Sprintf("ok %d %d", rep, rid)
}

// stop: NodeHost.StopShard, then what the mode says about the stopped replica's data / the next replica id.
// Sessions of the stopped incarnation are forgotten by the harness (the facade objects are not told anything).
func (h *vfHost) stop(shard uint64, mode string) string {
	if h.replica == nil {
		h.replica = map[uint64]uint64{}
		h.keep = map[uint64]bool{}
	}
	if _, ok := h.types[shard]; !ok {
		return "nothosted"
	}
	rid := h.replica[shard]
	before := 0
	if h.ev != nil {
		before = h.ev.unloadedCount(shard, rid)
	}
	if err := h.nh.StopShard(shard); err != nil {
		return "err " + vfErrName(err)
	}
	// wait until every engine worker has let go of the stopped replica (infrastructure, not under test)
	if h.ev != nil {
		deadline := time.Now().Add(20 * time.Second)
		for h.ev.unloadedCount(shard, rid) == before {
			if time.Now().After(deadline) {
				return "infra notunloaded"
			}
			time.Sleep(time.Millisecond)
		}
	}
	delete(h.types, shard)
	delete(h.joining, shard)
	delete(h.unready, shard)
	delete(h.lsess, shard)
	suffix := "/" + strconv.FormatUint(shard, 10)
	for k := range h.fsess {
		if strings.HasSuffix(k, suffix) {
			delete(h.fsess, k)
		}
	}
	switch mode {
	case "d":
		// returns once the stopped replica is offloaded and its data (bootstrap record, log) is gone
		var err error
		for tries := 0; tries < 50; tries++ {
			ctx, cancel := context.WithTimeout(context.Background(), 10*time.Second)
			err = h.nh.SyncRemoveData(ctx, shard, rid)
			cancel()
			if err != dragonboat.ErrShardNotStopped {
				break
			}
			time.Sleep(5 * time.Millisecond)
		}
		if err != nil {
			return "infra removedata " + vfErrName(err)
		}
		// (dragonboat refuses to start a removed replica id again: ErrReplicaRemoved)
		h.replica[shard] = rid + 1
		delete(h.shadow, shard)
	case "n":
		h.replica[shard] = rid + 1
		delete(h.shadow, shard)
	case "k":
		h.keep[shard] = true
	default:
		return "badmode"
	}
	// the NodeHost no longer lists the shard
	listed := 0
	if nhi := h.nh.GetNodeHostInfo(dragonboat.DefaultNodeHostInfoOption); nhi != nil {
		for _, ci := range nhi.ShardInfoList {
			if ci.ShardID == shard {
				listed = 1
			}
		}
	}
	return fmt.Sprintf("ok %d %d", listed, rid)
}

// lookupErr: a read whose query the state machine rejects with error value no. k of the alphabet. The local path
// reports which value came back (name, dynamic type, whether it is the state machine's value), the facade path what
// a peer would see.
func (h *vfHost) lookupErr(api *NodehostAPI, shard uint64, path string, k int) string {
	al := vfErrAlphabet()
	if k < 0 || k >= len(al) {
		return "badindex"
	}
	q := []byte("E:" + strconv.Itoa(k))
	var err error
	var got interface{}
	pan := vfGuard(func() {
		for tries := 0; tries < 4; tries++ {
			ctx, cancel := h.ctx()
			if path == "l" {
				got, err = h.nh.SyncRead(ctx, shard, q)
			} else {
				var resp *pb.RaftResponse
				resp, err = api.Read(ctx, &pb.RaftReadIndex{ShardId: shard, Data: q})
				got = resp
			}
			cancel()
			if err == nil || vfSameErr(err, al[k].err) || !vfInfra(err) {
				break
			}
		}
	})
	if pan != "" {
		return "panic " + pan
	}
	if err == nil {
		return "ok " + vfTok(fmt.Sprint(got))
	}
	if path == "l" {
		if vfSameErr(err, al[k].err) {
			return fmt.Sprintf("err %s %s 1", al[k].name, vfTypeName(err))
		}
		return fmt.Sprintf("err %s %s 0", vfErrName(err), vfTypeName(err))
	}
	sameMsg := 0
	if st, ok := status.FromError(err); ok && st.Message() == al[k].err.Error() {
		sameMsg = 1
	}
	return fmt.Sprintf("err %s %s %s %d", vfCode(err), vfIsStatus(err), vfMsg(err), sameMsg)
}

func vfSessTok(s *pb.Session) string {
	if s == nil {
		return "nil"
	}
	return fmt.Sprintf("%d:%d:%d:%d", s.ShardID, s.ClientID, s.SeriesID, s.RespondedTo)
}

// getSession: the facade call under test. Returns kind token and the session.
// getSessionJoining: the shard is hosted but can not make progress (nobody to join): the facade call and the local
// call of the kind the shard's type needs, both with the same short deadline, no retries
func (h *vfHost) getSessionJoining(api *NodehostAPI, shard uint64) (string, *pb.Session) {
	const d = time.Second // (a shard without a leader drops the request at once; the deadline only bounds the call)
	var s *pb.Session
	var err error
	pan := vfGuard(func() {
		ctx, cancel := context.WithTimeout(context.Background(), d)
		defer cancel()
		s, err = api.GetSession(ctx, &pb.SessionRequest{ShardId: shard})
	})
	if pan != "" {
		return "panic " + pan, nil
	}
	if err == nil {
		if s == nil {
			return "nilsession", nil
		}
		nhs := ToNodeHostSession(s)
		kind := "tracked"
		if nhs.IsNoOPSession() {
			kind = "noop"
		}
		valid := 0
		if nhs.ShardID == shard && nhs.ValidForProposal(shard) {
			valid = 1
		}
		return fmt.Sprintf("%s %d %s", kind, valid, vfSessTok(s)), s
	}
	local := "-"
	if h.types[shard] != 3 {
		var lerr error
		lp := vfGuard(func() {
			ctx, cancel := context.WithTimeout(context.Background(), d)
			defer cancel()
			_, lerr = h.nh.SyncGetSession(ctx, shard)
		})
		if lp != "" {
			local = "panic"
		} else {
			local = vfErrName(lerr)
		}
	}
	// under heavy load the deadline can be nearly used up before dragonboat looks at it: infrastructure, the block is run again
	if st, ok := status.FromError(err); (ok && st.Message() == dragonboat.ErrTimeoutTooSmall.Error()) ||
		local == "ErrTimeoutTooSmall" {
		return "infra deadline-used-up", nil
	}
	return fmt.Sprintf("jerr %s %s %s %s", vfCode(err), vfIsStatus(err), vfMsg(err), local), nil
}

// burst: concurrent GetSession calls through one facade object
func (h *vfHost) burst(api *NodehostAPI, rounds int, ids []uint64) string {
	type key struct {
		shard uint64
		out   string
	}
	var mu sync.Mutex
	counts := map[key]int{}
	one := func(shard uint64) string {
		out := "infra"
		for tries := 0; tries < 4; tries++ {
			var s *pb.Session
			var err error
			pan := ""
			func() {
				defer func() {
					if r := recover(); r != nil {
						pan = vfTok(fmt.Sprint(r))
					}
				}()
				ctx, cancel := h.ctx()
				defer cancel()
				s, err = api.GetSession(ctx, &pb.SessionRequest{ShardId: shard})
			}()
			if pan != "" {
				return "panic"
			}
			if err != nil {
				if vfInfra(err) {
					time.Sleep(5 * time.Millisecond)
					continue
				}
				if _, ok := status.FromError(err); ok {
					return "errstatus" + vfCode(err)
				}
				return "err"
			}
			if s == nil {
				return "nilsession"
			}
			nhs := ToNodeHostSession(s)
			if nhs.ShardID != shard {
				return "wrongshard"
			}
			if nhs.IsNoOPSession() {
				return "noop"
			}
			func() {
				defer func() { _ = recover() }()
				ctx, cancel := h.ctx()
				defer cancel()
				_, _ = api.CloseSession(ctx, s)
			}()
			return "tracked"
		}
		return out
	}
	for r := 0; r < rounds; r++ {
		start := make(chan struct{})
		var ready, wg sync.WaitGroup
		for _, id := range ids {
			ready.Add(1)
			wg.Add(1)
			go func(shard uint64) {
				defer wg.Done()
				ready.Done()
				<-start
				o := one(shard)
				mu.Lock()
				counts[key{shard, o}]++
				mu.Unlock()
			}(id)
		}
		ready.Wait()
		close(start)
		done := make(chan struct{})
		go func() { wg.Wait(); close(done) }()
		select {
		case <-done:
		case <-time.After(120 * time.Second):
			return "infra burst-hang"
		}
	}
	keys := make([]key, 0, len(counts))
	for k := range counts {
		keys = append(keys, k)
	}
	sort.Slice(keys, func(i, j int) bool {
		if keys[i].shard != keys[j].shard {
			return keys[i].shard < keys[j].shard
		}
		return keys[i].out < keys[j].out
	})
	parts := []string{"ok"}
	for _, k := range keys {
		parts = append(parts, fmt.Sprintf("%d:%s:%d", k.shard, k.out, counts[k]))
	}
	return strings.Join(parts, " ")
}

// keep: a session through the facade and the local session of the same kind, both kept for later
func (h *vfHost) keepSession(api *NodehostAPI, shard uint64, name string) string {
	if h.kept == nil {
		h.kept = map[string]*vfKept{}
	}
	tok, ps := h.getSession(api, shard)
	if ps == nil {
		return "nosession " + tok
	}
	var ls *client.Session
	if ToNodeHostSession(ps).IsNoOPSession() {
		ls = h.nh.GetNoOPSession(shard)
	} else {
		var err error
		for tries := 0; tries < 4; tries++ {
			ctx, cancel := h.ctx()
			ls, err = h.nh.SyncGetSession(ctx, shard)
			cancel()
			if !vfInfra(err) {
				break
			}
		}
		if err != nil {
			return "nosession local " + vfErrName(err)
		}
	}
	h.kept[name] = &vfKept{pb: ps, local: ls, shard: shard}
	return "ok " + strings.Fields(tok)[0]
}

func (h *vfHost) handmade(name string, shard uint64, kind string) string {
	if h.kept == nil {
		h.kept = map[string]*vfKept{}
	}
	mk := func() *client.Session {
		if kind == "noop" {
			return &client.Session{ShardID: shard, ClientID: 424242, SeriesID: client.NoOPSeriesID}
		}
		return &client.Session{ShardID: shard, ClientID: 424242, SeriesID: client.SeriesIDFirstProposal, RespondedTo: 0}
	}
	h.kept[name] = &vfKept{pb: ToPBSession(mk()), local: mk(), shard: shard}
	return "ok " + kind
}

// useKept: Propose / CloseSession with a session obtained earlier; both paths get the same command
func (h *vfHost) useKept(api *NodehostAPI, name string, path string, op string) string {
	k := h.kept[name]
	if k == nil {
		return "nokept"
	}
	cmd := []byte("kept-" + name)
	noop := k.local.IsNoOPSession()
	var err error
	var done bool
	unknown := false
	pan := vfGuard(func() {
		for tries := 0; tries < 4; tries++ {
			ctx, cancel := h.ctx()
			switch {
			case op == "propose" && path == "l":
				_, err = h.nh.SyncPropose(ctx, k.local, cmd)
				if err == nil && !noop {
					k.local.ProposalCompleted()
				}
			case op == "propose":
				req := &pb.RaftProposal{Session: k.pb, Data: cmd}
				_, err = api.Propose(ctx, req)
				if err == nil && !noop {
					nhs := ToNodeHostSession(req.Session)
					nhs.ProposalCompleted()
					*k.pb = *ToPBSession(nhs)
				}
			case op == "close" && path == "l":
				// (the local call has no meaning for a no-op session: nothing is registered)
				if noop {
					done = true
				} else {
					c := *k.local
					err = h.nh.SyncCloseSession(ctx, &c)
					done = err == nil
				}
			case op == "close":
				var r *pb.SessionResponse
				r, err = api.CloseSession(ctx, k.pb)
				done = r != nil && r.Completed
			}
			cancel()
			if !vfInfra(err) {
				break
			}
			unknown = unknown || vfMaybeApplied(err)
		}
	})
	if pan != "" {
		return "panic " + pan
	}
	if unknown {
		return "infra proposal-timed-out"
	}
	if err == nil {
		if op == "propose" {
			if sh, ok := h.shadow[k.shard]; ok {
				if _, hosted := h.types[k.shard]; hosted {
					sh.apply(cmd)
				}
			}
			return "ok"
		}
		if done {
			return "ok completed"
		}
		return "ok notcompleted"
	}
	if path == "l" {
		return "err " + vfErrName(err) + " -"
	}
	return fmt.Sprintf("err %s %s %s", vfCode(err), vfIsStatus(err), vfMsg(err))
}

func (h *vfHost) getSession(api *NodehostAPI, shard uint64) (string, *pb.Session) {
	if h.joining[shard] {
		return h.getSessionJoining(api, shard)
	}
	var s *pb.Session
	var err error
	tries := 0
	for {
		tries++
		pan := vfGuard(func() {
			ctx, cancel := h.ctx()
			defer cancel()
			s, err = api.GetSession(ctx, &pb.SessionRequest{ShardId: shard})
		})
		if pan != "" {
			return "panic " + pan, nil
		}
		// (a shard that was started a moment ago drops requests until it has elected itself: the call is repeated, every
		// repetition is a complete GetSession; an answer that is not a timing error is final)
		maxTries := 4
		if h.unready[shard] {
			maxTries = 500
		}
		if err != nil && vfInfra(err) && tries < maxTries {
			time.Sleep(20 * time.Millisecond)
			continue
		}
		break
	}
	if err != nil {
		return fmt.Sprintf("err %s %s %s", vfCode(err), vfIsStatus(err), vfMsg(err)), nil
	}
	if s == nil {
		return "nilsession", nil
	}
	nhs := ToNodeHostSession(s)
	kind := "tracked"
	if nhs.IsNoOPSession() {
		kind = "noop"
	}
	valid := 0
	if nhs.ShardID == shard && nhs.ValidForProposal(shard) {
		valid = 1
	}
	return fmt.Sprintf("%s %d %s", kind, valid, vfSessTok(s)), s
}

func (h *vfHost) closeSession(api *NodehostAPI, s *pb.Session) string {
	var r *pb.SessionResponse
	var err error
	pan := vfGuard(func() {
		ctx, cancel := h.ctx()
		defer cancel()
		r, err = api.CloseSession(ctx, s)
	})
	if pan != "" {
		return "closepanic:" + pan
	}
	if err != nil {
		return "closeerr:" + vfCode(err) + ":" + vfMsg(err)
	}
	if r == nil {
		return "closenil"
	}
	if r.Completed {
		return "closed"
	}
	return "notcompleted"
}

func (h *vfHost) localSession(shard uint64) (*client.Session, error) {
	if s, ok := h.lsess[shard]; ok {
		return s, nil
	}
	typ, hosted := h.types[shard]
	if !hosted || typ == 3 {
		s := h.nh.GetNoOPSession(shard)
		h.lsess[shard] = s
		return s, nil
	}
	ctx, cancel := h.ctx()
	defer cancel()
	s, err := h.nh.SyncGetSession(ctx, shard)
	if err != nil {
		return nil, err
	}
	h.lsess[shard] = s
	return s, nil
}

func (h *vfHost) facadeSession(a string, api *NodehostAPI, shard uint64) (*pb.Session, string) {
	key := a + "/" + strconv.FormatUint(shard, 10)
	if s, ok := h.fsess[key]; ok {
		return s, ""
	}
	tok, s := h.getSession(api, shard)
	if s == nil {
		return nil, tok
	}
	h.fsess[key] = s
	return s, ""
}

func (h *vfHost) propose(a string, api *NodehostAPI, shard uint64, path string, cmd []byte) string {
	if path == "l" {
		cs, err := h.localSession(shard)
		if err != nil {
			return "nosession " + vfErrName(err)
		}
		var res sm.Result
		unknown := false
		pan := vfGuard(func() {
			for tries := 0; tries < 4; tries++ {
				ctx, cancel := h.ctx()
				res, err = h.nh.SyncPropose(ctx, cs, cmd)
				cancel()
				if !vfInfra(err) {
					break
				}
				unknown = unknown || vfMaybeApplied(err)
			}
		})
		if pan != "" {
			return "panic " + pan
		}
		if unknown {
			return "infra proposal-timed-out"
		}
		if err != nil {
			return "err " + vfErrName(err) + " -"
		}
		before := fmt.Sprintf("%d:%d", cs.SeriesID, cs.RespondedTo)
		if !cs.IsNoOPSession() {
			cs.ProposalCompleted()
		}
		exp := h.shadow[shard].apply(cmd)
		return fmt.Sprintf("ok %d %d %d %d %s", res.Value, exp.Value, len(res.Data), len(exp.Data), before)
	}
	ps, why := h.facadeSession(a, api, shard)
	if ps == nil {
		return "nosession " + why
	}
	req := &pb.RaftProposal{Session: ps, Data: cmd}
	sent := vfSessTok(ps)
	var resp *pb.RaftResponse
	var err error
	unknown := false
	pan := vfGuard(func() {
		for tries := 0; tries < 4; tries++ {
			ctx, cancel := h.ctx()
			resp, err = api.Propose(ctx, req)
			cancel()
			if !vfInfra(err) {
				break
			}
			unknown = unknown || vfMaybeApplied(err)
		}
	})
	if pan != "" {
		return "panic " + pan
	}
	if unknown {
		return "infra proposal-timed-out"
	}
	if err != nil {
		return fmt.Sprintf("err %s %s %s", vfCode(err), vfIsStatus(err), vfMsg(err))
	}
	after := vfSessTok(req.Session)
	same := 0
	if sent == after {
		same = 1
	}
	// client side of the protocol (as lcm/monkey clients do): advance a tracked session
	nhs := ToNodeHostSession(req.Session)
	if !nhs.IsNoOPSession() {
		nhs.ProposalCompleted()
	}
	*ps = *ToPBSession(nhs)
	exp := h.shadow[shard].apply(cmd)
	return fmt.Sprintf("ok %d %d %d %d %d %s %s", resp.Result, exp.Value, len(resp.Data), len(exp.Data), same, sent, after)
}

func (h *vfHost) read(api *NodehostAPI, shard uint64, path string, q []byte) string {
	var data []byte
	var err error
	pan := vfGuard(func() {
		for tries := 0; tries < 4; tries++ {
			ctx, cancel := h.ctx()
			if path == "l" {
				var v interface{}
				v, err = h.nh.SyncRead(ctx, shard, q)
				if err == nil {
					data = v.([]byte)
				}
			} else {
				var resp *pb.RaftResponse
				resp, err = api.Read(ctx, &pb.RaftReadIndex{ShardId: shard, Data: q})
				if err == nil {
					data = resp.Data
				}
			}
			cancel()
			if !vfInfra(err) {
				break
			}
		}
	})
	if pan != "" {
		return "panic " + pan
	}
	if err != nil {
		if path == "l" {
			return "err " + vfErrName(err) + " -"
		}
		return fmt.Sprintf("err %s %s %s", vfCode(err), vfIsStatus(err), vfMsg(err))
	}
	exp := []byte{}
	if sh, ok := h.shadow[shard]; ok {
		exp = sh.query(q)
	}
	return fmt.Sprintf("ok %s %s", vfHex(data), vfHex(exp))
}

// errop: both paths get the same arguments; local reports the error's name, the facade code+message
func (h *vfHost) errop(api *NodehostAPI, shard uint64, path string, op string) string {
	bg := context.Background()
	var ctx context.Context
	cancel := func() {}
	sess := h.nh.GetNoOPSession(shard)
	if h.closed {
		sess = &client.Session{ShardID: shard, ClientID: 12345, SeriesID: client.NoOPSeriesID}
	}
	cmd := []byte("x")
	isRead := false
	switch op {
	case "nodeadline":
		ctx = bg
	case "pastdeadline":
		ctx, cancel = context.WithDeadline(bg, time.Now().Add(-time.Second))
	case "invalidsession":
		ctx, cancel = context.WithTimeout(bg, 10*time.Second)
		sess = &client.Session{ShardID: shard, ClientID: client.NotSessionManagedClientID, SeriesID: 7}
	case "toobig":
		ctx, cancel = context.WithTimeout(bg, 10*time.Second)
		cmd = make([]byte, vfMaxInMem+1)
	case "canceledread":
		var c2 context.CancelFunc
		ctx, c2 = context.WithTimeout(bg, 10*time.Second)
		c2()
		isRead = true
	case "nodeadline-read":
		ctx = bg
		isRead = true
	case "plain-propose":
		ctx, cancel = context.WithTimeout(bg, 10*time.Second)
	case "plain-read":
		ctx, cancel = context.WithTimeout(bg, 10*time.Second)
		isRead = true
	default:
		return "badop"
	}
	defer cancel()
	var err error
	okTok := "ok"
	pan := vfGuard(func() {
		if path == "l" {
			if isRead {
				_, err = h.nh.SyncRead(ctx, shard, []byte("q"))
			} else {
				_, err = h.nh.SyncPropose(ctx, sess, cmd)
			}
		} else {
			if isRead {
				_, err = api.Read(ctx, &pb.RaftReadIndex{ShardId: shard, Data: []byte("q")})
			} else {
				_, err = api.Propose(ctx, &pb.RaftProposal{Session: ToPBSession(sess), Data: cmd})
			}
		}
	})
	if pan != "" {
		return "panic " + pan
	}
	if err == nil {
		// an unexpected success changed the state: keep the shadow in step
		if !isRead {
			if sh, ok := h.shadow[sess.ShardID]; ok {
				sh.apply(cmd)
			}
		}
		return okTok
	}
	if path == "l" {
		return "err " + vfErrName(err) + " -"
	}
	return fmt.Sprintf("err %s %s %s", vfCode(err), vfIsStatus(err), vfMsg(err))
}

func vfRunBlock(b *vfBlock) {
	emit := func(l vfLine, s string) { b.out = append(b.out, fmt.Sprintf("%d %s %s", l.no, l.tok[0], s)) }
	nh, ev, err := vfNewNodeHost()
	if err != nil {
		for _, l := range b.lines {
			emit(l, "infra nodehost "+vfTok(err.Error()))
		}
		return
	}
	h := &vfHost{nh: nh, apis: map[string]*NodehostAPI{}, types: map[uint64]int{}, shadow: map[uint64]*vfCore{},
		fsess: map[string]*pb.Session{}, lsess: map[uint64]*client.Session{}, ev: ev}
	defer func() {
		if !h.closed {
			vfGuard(func() { nh.Close() })
		}
		for _, x := range h.apis {
			if x != nil {
				y := x
				vfGuard(func() { y.Stop() })
			}
		}
	}()
	u := func(s string) uint64 { v, _ := strconv.ParseUint(s, 10, 64); return v }
	// a facade object: the public constructor (port chosen by the OS); nil = could not listen (infrastructure)
	api := func(a string) *NodehostAPI {
		if x, ok := h.apis[a]; ok {
			return x
		}
		var x *NodehostAPI
		for tries := 0; tries < 5 && x == nil; tries++ {
			vfGuard(func() { x = NewNodehostAPI("127.0.0.1:0", nh) })
			if x == nil {
				time.Sleep(20 * time.Millisecond)
			}
		}
		h.apis[a] = x
		return x
	}
	for _, l := range b.lines {
		t := l.tok
		var res string
		pan := vfGuard(func() {
			switch t[0] {
			case "A", "Q", "P", "R", "X", "E", "G", "Y", "B":
				if api(t[1]) == nil {
					res = "infra facade"
					return
				}
			}
			switch t[0] {
			case "NH", "END":
				res = "-"
			case "A":
				res = "ok"
			case "S":
				typ, _ := strconv.Atoi(t[2])
				res = h.start(u(t[1]), typ)
			case "Q":
				tok, s := h.getSession(api(t[1]), u(t[2]))
				res = tok
				if s != nil {
					res += " " + h.closeSession(api(t[1]), s)
				}
			case "P":
				res = h.propose(t[1], api(t[1]), u(t[2]), t[3], vfUnhex(t[4]))
			case "R":
				res = h.read(api(t[1]), u(t[2]), t[3], vfUnhex(t[4]))
			case "X":
				res = h.errop(api(t[1]), u(t[2]), t[3], t[4])
			case "K":
				res = h.stop(u(t[1]), t[2])
			case "SN", "SJ":
				typ, _ := strconv.Atoi(t[2])
				res = h.startMode(u(t[1]), typ, map[string]string{"SN": "nowait", "SJ": "join"}[t[0]])
			case "W":
				res = h.waitReady(u(t[1]), h.replica[u(t[1])])
			case "B":
				rounds, _ := strconv.Atoi(t[2])
				ids := []uint64{}
				for _, x := range t[3:] {
					ids = append(ids, u(x))
				}
				res = h.burst(api(t[1]), rounds, ids)
			case "G":
				res = h.keepSession(api(t[1]), u(t[2]), t[3])
			case "H":
				res = h.handmade(t[1], u(t[2]), t[3])
			case "Y":
				res = h.useKept(api(t[1]), t[2], t[3], t[4])
			case "E":
				k, _ := strconv.Atoi(t[4])
				res = h.lookupErr(api(t[1]), u(t[2]), t[3], k)
			case "C":
				// close facade sessions first (tracked ones are unregistered), then the NodeHost
				keys := make([]string, 0, len(h.fsess))
				for k := range h.fsess {
					keys = append(keys, k)
				}
				sort.Strings(keys)
				cl := []string{}
				for _, k := range keys {
					a := strings.SplitN(k, "/", 2)[0]
					cl = append(cl, h.closeSession(api(a), h.fsess[k]))
				}
				nh.Close()
				h.closed = true
				res = "ok " + strings.Join(append(cl, "."), ",")
			default:
				res = "badline"
			}
		})
		if pan != "" {
			res = "harnesspanic " + pan
		}
		emit(l, res)
	}
}

// ------------------------------------------------------------------ session conversions (reflection: all fields)

func vfUintFields(v reflect.Value) []string {
	names := []string{}
	tp := v.Type()
	for i := 0; i < tp.NumField(); i++ {
		f := tp.Field(i)
		if f.PkgPath == "" && f.Type.Kind() == reflect.Uint64 {
			names = append(names, f.Name)
		}
	}
	return names
}

func vfFieldDump(x interface{}) string {
	v := reflect.ValueOf(x).Elem()
	parts := []string{}
	for _, n := range vfUintFields(v) {
		parts = append(parts, fmt.Sprintf("%s=%d", n, v.FieldByName(n).Uint()))
	}
	return strings.Join(parts, ",")
}

func vfFill(x interface{}, vals []uint64) {
	v := reflect.ValueOf(x).Elem()
	for i, n := range vfUintFields(v) {
		if i < len(vals) {
			v.FieldByName(n).SetUint(vals[i])
		}
	}
}

func vfSessionCase(vals []uint64) string {
	var out []string
	pan := vfGuard(func() {
		// wire form -> NodeHost form -> wire form
		p := &pb.Session{}
		vfFill(p, vals)
		c := ToNodeHostSession(p)
		p2 := ToPBSession(c)
		// NodeHost form -> wire form -> NodeHost form
		c0 := &client.Session{}
		vfFill(c0, vals)
		q := ToPBSession(c0)
		c2 := ToNodeHostSession(q)
		// updatePBSession is the third copy of the field list
		p3 := &pb.Session{}
		updatePBSession(p3, c0)
		// the wire itself
		wire := "-"
		if raw, err := proto.Marshal(p); err == nil {
			p4 := &pb.Session{}
			if err := proto.Unmarshal(raw, p4); err == nil {
				wire = vfFieldDump(p4)
			}
		}
		out = []string{"pb=" + vfFieldDump(p), "pb>nh=" + vfFieldDump(c), "pb>nh>pb=" + vfFieldDump(p2),
			"nh=" + vfFieldDump(c0), "nh>pb=" + vfFieldDump(q), "nh>pb>nh=" + vfFieldDump(c2),
			"upd=" + vfFieldDump(p3), "wire=" + wire}
	})
	if pan != "" {
		return "panic " + pan
	}
	return "ok " + strings.Join(out, " ")
}

// ------------------------------------------------------------------ a real gRPC listener and client

func vfFreeAddr() string {
	l, err := net.Listen("tcp", "127.0.0.1:0")
	if err != nil {
		return "127.0.0.1:0"
	}
	defer l.Close()
	return l.Addr().String()
}

func vfWire(shard uint64, typ int) []string {
	out := []string{}
	nh, _, err := vfNewNodeHost()
	if err != nil {
		return []string{"infra nodehost " + vfTok(err.Error())}
	}
	defer func() { vfGuard(func() { nh.Close() }) }()
	h := &vfHost{nh: nh, apis: map[string]*NodehostAPI{}, types: map[uint64]int{}, shadow: map[uint64]*vfCore{},
		fsess: map[string]*pb.Session{}, lsess: map[uint64]*client.Session{}}
	if r := h.start(shard, typ); !strings.HasPrefix(r, "ok") {
		return []string{"infra start " + r}
	}
	var srv *NodehostAPI
	addr := ""
	for tries := 0; tries < 5 && srv == nil; tries++ {
		addr = vfFreeAddr()
		vfGuard(func() { srv = NewNodehostAPI(addr, nh) })
	}
	if srv == nil {
		return []string{"infra listener"}
	}
	defer func() { vfGuard(func() { srv.Stop() }) }()
	conn, err := grpc.Dial(addr, grpc.WithTransportCredentials(insecure.NewCredentials()))
	if err != nil {
		return []string{"infra dial " + vfTok(err.Error())}
	}
	defer conn.Close()
	cl := pb.NewNodehostAPIClient(conn)
	ctx, cancel := context.WithTimeout(context.Background(), 20*time.Second)
	defer cancel()
	werr := func(err error) string {
		return fmt.Sprintf("err %s %s %s", vfCode(err), vfIsStatus(err), vfMsg(err))
	}
	// session for the hosted shard
	s, err := cl.GetSession(ctx, &pb.SessionRequest{ShardId: shard}, grpc.WaitForReady(true))
	if err != nil {
		out = append(out, "get "+werr(err))
		return out
	}
	kind := "tracked"
	if ToNodeHostSession(s).IsNoOPSession() {
		kind = "noop"
	}
	out = append(out, "get "+kind)
	for i := 0; i < 3; i++ {
		cmd := []byte(fmt.Sprintf("wire-%d", i))
		resp, err := cl.Propose(ctx, &pb.RaftProposal{Session: s, Data: cmd})
		if err != nil {
			out = append(out, "propose "+werr(err))
			continue
		}
		nhs := ToNodeHostSession(s)
		if !nhs.IsNoOPSession() {
			nhs.ProposalCompleted()
		}
		s = ToPBSession(nhs)
		exp := h.shadow[shard].apply(cmd)
		out = append(out, fmt.Sprintf("propose ok %d %d", resp.Result, exp.Value))
		q := []byte(fmt.Sprintf("q%d", i))
		rr, err := cl.Read(ctx, &pb.RaftReadIndex{ShardId: shard, Data: q})
		if err != nil {
			out = append(out, "read "+werr(err))
			continue
		}
		lv, lerr := nh.SyncRead(ctx, shard, q)
		ld := []byte{}
		if lerr == nil {
			ld = lv.([]byte)
		}
		out = append(out, fmt.Sprintf("read ok %s %s", vfHex(rr.Data), vfHex(ld)))
	}
	cr, err := cl.CloseSession(ctx, s)
	if err != nil {
		out = append(out, "close "+werr(err))
	} else {
		out = append(out, fmt.Sprintf("close ok %v", cr.Completed))
	}
	// errors as a peer sees them
	_, err = cl.GetSession(ctx, &pb.SessionRequest{ShardId: shard + 77})
	if err != nil {
		out = append(out, "get-unknown "+werr(err))
	} else {
		out = append(out, "get-unknown ok")
	}
	_, err = cl.Read(ctx, &pb.RaftReadIndex{ShardId: shard + 77, Data: []byte("q")})
	if err != nil {
		out = append(out, "read-unknown "+werr(err))
	} else {
		out = append(out, "read-unknown ok")
	}
	if typ != 3 {
		// (on an on-disk shard dragonboat panics on any session that is not a no-op session, locally as well as
		// inside the gRPC handler, where nothing recovers it: not attempted here)
		_, err = cl.Propose(ctx, &pb.RaftProposal{Session: &pb.Session{ShardID: shard, ClientID: 0, SeriesID: 7}, Data: []byte("x")})
		if err != nil {
			out = append(out, "propose-invalid "+werr(err))
		} else {
			out = append(out, "propose-invalid ok")
		}
	}
	return out
}

// ------------------------------------------------------------------ entry point

func TestVerifFacade(t *testing.T) {
	in, outp := os.Getenv("VERIF_IN"), os.Getenv("VERIF_OUT")
	if in == "" || outp == "" {
		t.Skip("VERIF_IN/VERIF_OUT not set")
	}
	for _, n := range []string{"raft", "rsm", "transport", "grpc", "dragonboat", "logdb", "raftpb", "config",
		"settings", "drummer", "tan", "registry", "utils", "server", "id", "raftio", "pebblekv", "LogDB", "gossip",
		"raft-mt", "tools"} {
		logger.GetLogger(n).SetLevel(logger.CRITICAL)
	}
	f, err := os.Open(in)
	if err != nil {
		t.Fatal(err)
	}
	defer f.Close()
	var blocks []*vfBlock
	var cur *vfBlock
	var single []vfLine
	sc := bufio.NewScanner(f)
	sc.Buffer(make([]byte, 1<<20), 1<<26)
	no := 0
	for sc.Scan() {
		no++
		line := strings.TrimSpace(sc.Text())
		if line == "" || strings.HasPrefix(line, "#") {
			continue
		}
		tok := strings.Fields(line)
		l := vfLine{no: no, tok: tok}
		switch {
		case tok[0] == "NH":
			cur = &vfBlock{}
			blocks = append(blocks, cur)
			cur.lines = append(cur.lines, l)
		case tok[0] == "END":
			if cur != nil {
				cur.lines = append(cur.lines, l)
			}
			cur = nil
		case cur != nil:
			cur.lines = append(cur.lines, l)
		default:
			single = append(single, l)
		}
	}
	workers := runtime.NumCPU()
	if w, err := strconv.Atoi(os.Getenv("VERIF_WORKERS")); err == nil && w > 0 {
		workers = w
	}
	if workers > 12 {
		workers = 12
	}
	var wg sync.WaitGroup
	ch := make(chan *vfBlock)
	for i := 0; i < workers; i++ {
		wg.Add(1)
		go func() {
			defer wg.Done()
			for b := range ch {
				vfRunBlock(b)
			}
		}()
	}
	for _, b := range blocks {
		ch <- b
	}
	close(ch)
	wg.Wait()
	w, err := os.Create(outp)
	if err != nil {
		t.Fatal(err)
	}
	bw := bufio.NewWriter(w)
	defer func() { bw.Flush(); w.Close() }()
	for _, b := range blocks {
		for _, o := range b.out {
			fmt.Fprintln(bw, o)
		}
	}
	for _, l := range single {
		switch l.tok[0] {
		case "T":
			vals := []uint64{}
			for _, s := range l.tok[1:] {
				v, _ := strconv.ParseUint(s, 10, 64)
				vals = append(vals, v)
			}
			fmt.Fprintf(bw, "%d T %s\n", l.no, vfSessionCase(vals))
		case "ERRS":
			fmt.Fprintf(bw, "%d ERRS nil %v %v\n", l.no, grpcError(nil) == nil, GRPCError(nil) == nil)
			for round := 0; round < 2; round++ {
				for _, ne := range append(vfErrTable(), vfErrAlphabet()...) {
					var e1, e2 error
					pan := vfGuard(func() { e1 = grpcError(ne.err); e2 = GRPCError(ne.err) })
					if pan != "" {
						fmt.Fprintf(bw, "%d ERR %s panic %s %s\n", l.no, ne.name, pan, vfTypeName(ne.err))
						continue
					}
					if e1 == nil || e2 == nil {
						fmt.Fprintf(bw, "%d ERR %s nilresult\n", l.no, ne.name)
						continue
					}
					sameMsg := 0
					if st, ok := status.FromError(e1); ok && st.Message() == ne.err.Error() {
						sameMsg = 1
					}
					fmt.Fprintf(bw, "%d ERR %s %d %d %s %s %d %s\n", l.no, ne.name, status.Code(e1), status.Code(e2),
						vfIsStatus(e1), vfIsStatus(e2), sameMsg, vfTypeName(ne.err))
				}
			}
			fmt.Fprintf(bw, "%d CODES OK=%d Canceled=%d Unknown=%d InvalidArgument=%d DeadlineExceeded=%d NotFound=%d Unavailable=%d\n",
				l.no, codes.OK, codes.Canceled, codes.Unknown, codes.InvalidArgument, codes.DeadlineExceeded, codes.NotFound, codes.Unavailable)
		case "WIRE":
			sh, _ := strconv.ParseUint(l.tok[1], 10, 64)
			typ, _ := strconv.Atoi(l.tok[2])
			var res []string
			pan := vfGuard(func() { res = vfWire(sh, typ) })
			if pan != "" {
				res = append(res, "panic "+pan)
			}
			for _, r := range res {
				fmt.Fprintf(bw, "%d WIRE %s\n", l.no, r)
			}
		}
	}
}
