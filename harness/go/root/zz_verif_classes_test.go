package drummer

// Executor of the "classes" part of C05 (see /verif/DESIGN.md C05).
// Each input line carries a SCHEDULER_CONTEXT answer (JSON, exactly the bytes the real
// DB produced for the scheduler, or a hand-built boundary context).  It is decoded the
// way server.getSchedulerContext does (json.Unmarshal into schedulerContext) and the
// REAL classification code is evaluated on it:
//   shard.getOkReplicas / getFailedReplicas / getReplicasToStart / quorum / available,
//   multiShard.getShardForRepair (the scheduler's shardRepair lists, quorum, available),
//   multiShard.getUnavailableShards, nodeHostSpec.available, liveFilter(tick, nodeHostTTL).
// Unexported identifiers used: schedulerContext, multiShard, shard, replica, shardRepair
// (fields shardID okReplicas failedReplicas replicasToStart), multiNodeHost, nodeHostSpec,
// newLiveFilter, nodeHostTTL, EntityFailed.
// Reads VERIF_IN, writes VERIF_OUT, asserts nothing.
//
// input line:  C <json>
// output line: <lineno> ok <tick> <nshards> { sid quorum avail  nok id..  nfailed id..  nstart id..
//                                            inrepair [ rquorum ravail nok id.. nfailed id.. nstart id.. ] }
//                          <nunavail> sid..  <nhosts> { addr avail live }
//              | <lineno> panic | <lineno> bad
// strings: address n <-> "a<n>".

import (
	"bufio"
	"encoding/json"
	"fmt"
	"os"
	"sort"
	"strconv"
	"strings"
	"testing"
)

func vclsAddr(s string) uint64 {
	if s == "" {
		return 0
	}
	if strings.HasPrefix(s, "a") {
		if v, err := strconv.ParseUint(s[1:], 10, 64); err == nil {
			return v
		}
	}
	return 888888
}

func vclsB(b bool) int {
	if b {
		return 1
	}
	return 0
}

func vclsIDs(sb *strings.Builder, l []replica) {
	ids := make([]uint64, 0, len(l))
	for _, n := range l {
		ids = append(ids, n.ReplicaID)
	}
	sort.Slice(ids, func(i, j int) bool { return ids[i] < ids[j] })
	fmt.Fprintf(sb, " %d", len(ids))
	for _, x := range ids {
		fmt.Fprintf(sb, " %d", x)
	}
}

func TestVerifClasses(t *testing.T) {
	in, err := os.Open(os.Getenv("VERIF_IN"))
	if err != nil {
		t.Skip("no VERIF_IN")
	}
	defer in.Close()
	outf, err := os.Create(os.Getenv("VERIF_OUT"))
	if err != nil {
		t.Fatal(err)
	}
	defer outf.Close()
	w := bufio.NewWriterSize(outf, 1<<20)
	defer w.Flush()
	fmt.Fprintf(w, "PARAMS %d %d %d\n", nodeHostTTL, tickIntervalSecond, launchDeadlineTick)
	sc := bufio.NewScanner(in)
	sc.Buffer(make([]byte, 1<<20), 1<<26)
	lineno := 0
	for sc.Scan() {
		lineno++
		parts := strings.SplitN(sc.Text(), " ", 2)
		if len(parts) != 2 || parts[0] != "C" {
			fmt.Fprintf(w, "%d bad\n", lineno)
			continue
		}
		func() {
			defer func() {
				if r := recover(); r != nil {
					fmt.Fprintf(w, "%d panic\n", lineno)
				}
			}()
			var ctx schedulerContext
			if err := json.Unmarshal([]byte(parts[1]), &ctx); err != nil {
				fmt.Fprintf(w, "%d bad\n", lineno)
				return
			}
			tick := ctx.Tick
			mc := ctx.ShardImage
			if mc == nil {
				mc = &multiShard{Shards: make(map[uint64]*shard)}
			}
			var sb strings.Builder
			keys := make([]uint64, 0)
			for k := range mc.Shards {
				keys = append(keys, k)
			}
			sort.Slice(keys, func(i, j int) bool { return keys[i] < keys[j] })
			repairs := make(map[uint64]shardRepair)
			for _, cr := range mc.getShardForRepair(tick) {
				repairs[cr.shardID] = cr
			}
			fmt.Fprintf(&sb, "%d %d", tick, len(keys))
			for _, k := range keys {
				c := mc.Shards[k]
				fmt.Fprintf(&sb, " %d %d %d", k, c.quorum(), vclsB(c.available(tick)))
				vclsIDs(&sb, c.getOkReplicas(tick))
				vclsIDs(&sb, c.getFailedReplicas(tick))
				vclsIDs(&sb, c.getReplicasToStart(tick))
				if cr, ok := repairs[c.ShardID]; ok {
					fmt.Fprintf(&sb, " 1 %d %d", cr.quorum(), vclsB(cr.available()))
					vclsIDs(&sb, cr.okReplicas)
					vclsIDs(&sb, cr.failedReplicas)
					vclsIDs(&sb, cr.replicasToStart)
				} else {
					fmt.Fprintf(&sb, " 0")
				}
			}
			un := make([]uint64, 0)
			for _, c := range mc.getUnavailableShards(tick) {
				un = append(un, c.ShardID)
			}
			sort.Slice(un, func(i, j int) bool { return un[i] < un[j] })
			fmt.Fprintf(&sb, " %d", len(un))
			for _, x := range un {
				fmt.Fprintf(&sb, " %d", x)
			}
			mnh := ctx.NodeHostImage
			if mnh == nil {
				mnh = newMultiNodeHost()
			}
			live := make(map[string]bool)
			for _, h := range newLiveFilter(tick, nodeHostTTL).filter(mnh.toArray()) {
				live[h.Address] = true
			}
			hk := make([]string, 0)
			for k := range mnh.Nodehosts {
				hk = append(hk, k)
			}
			sort.Slice(hk, func(i, j int) bool { return vclsAddr(hk[i]) < vclsAddr(hk[j]) })
			fmt.Fprintf(&sb, " %d", len(hk))
			for _, k := range hk {
				h := mnh.Nodehosts[k]
				fmt.Fprintf(&sb, " %d %d %d", vclsAddr(k), vclsB(h.available(tick)), vclsB(live[h.Address]))
			}
			fmt.Fprintf(w, "%d ok %s\n", lineno, sb.String())
		}()
	}
}
