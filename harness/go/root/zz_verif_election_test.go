package drummer

// Executor for the C14 correspondence (see /verif/DESIGN.md, engine "election").
// Reads VERIF_IN, writes VERIF_OUT; asserts nothing itself.
//
// Real electionManager objects (built as literals, without their ticker) for
// 2..5 servers share ONE real single-replica dragonboat NodeHost whose shard 0
// runs the real drummer DB (NewDB).  The executor plays workerMain's role: it
// calls leaderMain / followerMain (chosen by isLeader(), exactly like the
// ticker function in workerMain) turn by turn following the schedule.
//
// Unexported identifiers this file depends on (a rename = harness does not
// build = broken correspondence, reported as such):
//   electionManager{state, drummerServer, randSrc, instanceID, currentLeader,
//   sessionUser}, leaderInfo{instanceID,tick,staticRound}, stateFollower,
//   sessionUser{nh, session}, newDrummerServer, (*server).getElectionInfo,
//   leaderMain, followerMain, isLeader, deadLeaderMinRound, leadershipRenewalSecond,
//   DBKVUpdated, DBKVFinalized, DBKVRejected, defaultShardID,
//   electionKey; function NAMES lookupDB, proposeDrummerUpdate, getSession,
//   resetSession (used to classify the DB operation a context is created for).
//
// Fault injection: every DB operation of a turn derives its own context from
// the turn's context with context.WithTimeout.  The turn's context is a custom
// context.Context (vctx) that looks at the call stack whenever a child context
// is derived from it, logs the operation kind (r = lookup, s = get session,
// p = proposal, c = close session) and hands that one operation
//   mode 1 "cancelled": Done() closed, Err()=Canceled, no own deadline.  A
//          proposal made with such a context IS submitted and applied by
//          dragonboat, but SyncPropose reports ErrCanceled (applied, reported
//          failed); a lookup / session request fails.
//   mode 2 "expired": deadline in the past.  dragonboat refuses the request
//          before submitting it (ErrInvalidDeadline; failed, not applied).
//   mode 3 "timed out": Done() closed, Err()=DeadlineExceeded, no own deadline
//          (the operation's own WithTimeout deadline is valid when the request
//          is issued, but the wait for the result ends at once the way an
//          exhausted deadline ends it).  dragonboat reports ErrTimeout - the
//          class dragonboat.IsTempError calls temporary (ErrTimeout,
//          ErrSystemBusy, ErrShardNotReady, ErrShardClosed, ErrAborted ...).
//          No wall clock involved.  A proposal IS submitted and applied (the
//          client gave up, the proposal committed); a lookup / session
//          request fails.
//   mode 4 "too small": the deadline is 1 ms ahead when the operation derives
//          its context: less than one RTT tick.  dragonboat refuses the request
//          before submitting it (ErrTimeoutTooSmall, or ErrInvalidDeadline if
//          the millisecond has passed; failed, not applied).
//   (ErrDeadlineNotSet cannot be provoked: every DB operation of the code under
//   test derives its own WithTimeout context.)
// Spec "REAL" uses a genuine context.WithCancel context cancelled before the
// turn (what e.stop() produces); no operation log is available then.
//
// Interference (operation-granularity interleaving): wp=<id>:<tick> makes the
// executor itself write the record (instance id, tick) - a CAS naming whoever
// holds the record at that moment, i.e. what a competing server's successful
// campaign / renewal does - at the moment the turn derives the context of its
// proposal, i.e. between the turn's lookup and its CAS; wr=<id>:<tick> does the
// same at the moment the context of the turn's SECOND lookup (campaign's
// read-back) is derived, i.e. between the turn's CAS and its read-back.
//
// Input grammar (one token line each):
//   CASE <name> <nservers> <id0> ... <idn-1>
//   INIT <id> <tick>                 (optional) write the record directly first
//   T <server> <tick> <faults>       faults: "-" | "REAL" | k=v,... with k in r1 r2 s p c, v in 1 2 3 4,
//                                    or k in wp wr, v = <id>:<tick>
//   END
// Output:
//   P <constant name> <n>            (deadLeaderMinRound, leadershipRenewalSecond, DBKV* result codes)
//   CASE <name>
//   O <leaders bitstring> <recid> <rectick> <role> <cur: id tick static | -> <sess 0/1> <ops|?> <panic 0/1>
//   ENDCASE ok | ENDCASE infra <msg>

import (
	"bufio"
	"context"
	"errors"
	"fmt"
	"net"
	"os"
	"runtime"
	"strconv"
	"strings"
	"sync"
	"sync/atomic"
	"testing"
	"time"

	"github.com/lni/dragonboat/v4"
	"github.com/lni/dragonboat/v4/config"
	"github.com/lni/goutils/random"
	"github.com/lni/vfs"
	"google.golang.org/protobuf/proto"

	pb "github.com/lni/drummer/v3/drummerpb"
)

// ---------------------------------------------------------------- context

var vClosed = func() chan struct{} { c := make(chan struct{}); close(c); return c }()

type vctx struct {
	mu     sync.Mutex
	plan   map[string]int
	wplan  map[string][2]uint64
	nh     *dragonboat.NodeHost
	srv    *server
	reads  int
	cur    int
	ops    []string
	ierr   error
	inside bool
	dl     time.Time
}

// interfere performs the foreign write planned for this point of the turn.
func (c *vctx) interfere(key string) {
	w, ok := c.wplan[key]
	if !ok || c.nh == nil {
		return
	}
	delete(c.wplan, key)
	var kv *pb.KV
	err := vRetry(func(ctx context.Context) error {
		var err error
		kv, err = c.srv.getElectionInfo(ctx)
		return err
	})
	if err == nil {
		err = vWriteRecord(c.nh, w[0], kv.InstanceId, w[1])
	}
	if err != nil {
		c.ierr = err
	}
}

func (c *vctx) classify() (kind string, derive bool) {
	pcs := make([]uintptr, 24)
	n := runtime.Callers(2, pcs)
	frames := runtime.CallersFrames(pcs[:n])
	for {
		f, more := frames.Next()
		fn := f.Function
		switch {
		case strings.HasPrefix(fn, "context.With"):
			derive = true
		case strings.HasSuffix(fn, ".lookupDB"):
			return "r", derive
		case strings.HasSuffix(fn, ".proposeDrummerUpdate"):
			return "p", derive
		case strings.HasSuffix(fn, "(*sessionUser).getSession"):
			return "s", derive
		case strings.HasSuffix(fn, "(*sessionUser).resetSession"):
			return "c", derive
		}
		if !more {
			break
		}
	}
	return "u", derive
}

func (c *vctx) Deadline() (time.Time, bool) {
	c.mu.Lock()
	if c.inside {
		// called from the interfering write itself: behave like Background
		c.mu.Unlock()
		return time.Time{}, false
	}
	c.mu.Unlock()
	kind, derive := c.classify()
	c.mu.Lock()
	defer c.mu.Unlock()
	if derive {
		key := kind
		if kind == "r" {
			c.reads++
			key = fmt.Sprintf("r%d", c.reads)
		}
		c.ops = append(c.ops, kind)
		c.cur = c.plan[key]
		c.dl = time.Now().Add(time.Millisecond)
		ikey := ""
		if kind == "p" {
			ikey = "wp"
		} else if key == "r2" {
			ikey = "wr"
		}
		if ikey != "" {
			c.inside = true
			c.mu.Unlock()
			c.interfere(ikey)
			c.mu.Lock()
			c.inside = false
		}
	}
	if c.cur == 2 {
		return time.Now().Add(-time.Hour), true
	}
	if c.cur == 4 {
		return c.dl, true
	}
	return time.Time{}, false
}

func (c *vctx) Done() <-chan struct{} {
	c.mu.Lock()
	defer c.mu.Unlock()
	if c.cur != 0 && c.cur != 4 {
		return vClosed
	}
	return nil
}

func (c *vctx) Err() error {
	c.mu.Lock()
	defer c.mu.Unlock()
	switch c.cur {
	case 1:
		return context.Canceled
	case 2, 3:
		return context.DeadlineExceeded
	}
	return nil
}

func (c *vctx) Value(key interface{}) interface{} { return nil }

// ---------------------------------------------------------------- node host

var vNHSeq uint64

func vFreePort() (int, error) {
	l, err := net.Listen("tcp", "127.0.0.1:0")
	if err != nil {
		return 0, err
	}
	p := l.Addr().(*net.TCPAddr).Port
	_ = l.Close()
	return p, nil
}

func vInfra(err error) bool {
	return errors.Is(err, dragonboat.ErrTimeout) || errors.Is(err, dragonboat.ErrSystemBusy) ||
		errors.Is(err, dragonboat.ErrShardNotReady) || errors.Is(err, dragonboat.ErrShardNotFound)
}

func vNewNodeHost() (nh *dragonboat.NodeHost, err error) {
	defer func() {
		if r := recover(); r != nil {
			err = fmt.Errorf("panic creating nodehost: %v", r)
		}
	}()
	for attempt := 0; attempt < 5; attempt++ {
		var port int
		port, err = vFreePort()
		if err != nil {
			continue
		}
		addr := fmt.Sprintf("localhost:%d", port)
		nhc := config.NodeHostConfig{
			NodeHostDir:    fmt.Sprintf("/verif-election-%d", atomic.AddUint64(&vNHSeq, 1)),
			RTTMillisecond: 2,
			RaftAddress:    addr,
			Expert: config.ExpertConfig{
				FS:    vfs.NewMem(),
				LogDB: config.GetTinyMemLogDBConfig(),
			},
		}
		nh, err = dragonboat.NewNodeHost(nhc)
		if err != nil {
			continue
		}
		rc := config.Config{
			ReplicaID:    1,
			ShardID:      defaultShardID,
			ElectionRTT:  10,
			HeartbeatRTT: 1,
			CheckQuorum:  false,
		}
		if err = nh.StartReplica(map[uint64]string{1: addr}, false, NewDB, rc); err != nil {
			nh.Close()
			continue
		}
		return nh, nil
	}
	return nil, err
}

// vRetry runs f with a fresh 10 s context until it succeeds or fails with a
// non-infrastructure error (bounded).
func vRetry(f func(ctx context.Context) error) error {
	var err error
	for i := 0; i < 400; i++ {
		ctx, cancel := context.WithTimeout(context.Background(), 10*time.Second)
		err = f(ctx)
		cancel()
		if err == nil || !vInfra(err) {
			return err
		}
		time.Sleep(5 * time.Millisecond)
	}
	return err
}

// vBarrier proposes a harmless KV update for another key through a no-op
// session: proposals are applied in submission order, so when it returns every
// proposal submitted by an earlier (possibly cancelled) turn has been applied.
func vBarrier(nh *dragonboat.NodeHost) error {
	u := pb.Update{Type: pb.Update_KV, KvUpdate: &pb.KV{Key: []byte("zz-verif-barrier"), Value: []byte("x")}}
	data, err := proto.Marshal(&u)
	if err != nil {
		return err
	}
	return vRetry(func(ctx context.Context) error {
		_, err := nh.SyncPropose(ctx, nh.GetNoOPSession(defaultShardID), data)
		return err
	})
}

func vWriteRecord(nh *dragonboat.NodeHost, id, oldid, tick uint64) error {
	u := pb.Update{Type: pb.Update_KV, KvUpdate: &pb.KV{Key: []byte(electionKey), Value: []byte(electionKey),
		InstanceId: id, OldInstanceId: oldid, Tick: tick}}
	data, err := proto.Marshal(&u)
	if err != nil {
		return err
	}
	return vRetry(func(ctx context.Context) error {
		_, err := nh.SyncPropose(ctx, nh.GetNoOPSession(defaultShardID), data)
		return err
	})
}

// ---------------------------------------------------------------- cases

type vTurn struct {
	srv    int
	tick   uint64
	faults string
}

type vCase struct {
	name     string
	ids      []uint64
	hasInit  bool
	initID   uint64
	initTick uint64
	turns    []vTurn
}

func vParse(path string) ([]*vCase, error) {
	f, err := os.Open(path)
	if err != nil {
		return nil, err
	}
	defer f.Close()
	var cases []*vCase
	var cur *vCase
	sc := bufio.NewScanner(f)
	sc.Buffer(make([]byte, 1<<20), 1<<26)
	for sc.Scan() {
		fs := strings.Fields(sc.Text())
		if len(fs) == 0 {
			continue
		}
		switch fs[0] {
		case "CASE":
			cur = &vCase{name: fs[1]}
			n, _ := strconv.Atoi(fs[2])
			for i := 0; i < n; i++ {
				v, _ := strconv.ParseUint(fs[3+i], 10, 64)
				cur.ids = append(cur.ids, v)
			}
		case "INIT":
			cur.hasInit = true
			cur.initID, _ = strconv.ParseUint(fs[1], 10, 64)
			cur.initTick, _ = strconv.ParseUint(fs[2], 10, 64)
		case "T":
			s, _ := strconv.Atoi(fs[1])
			tk, _ := strconv.ParseUint(fs[2], 10, 64)
			cur.turns = append(cur.turns, vTurn{srv: s, tick: tk, faults: fs[3]})
		case "END":
			cases = append(cases, cur)
			cur = nil
		}
	}
	return cases, sc.Err()
}

func vPlan(spec string) (map[string]int, map[string][2]uint64) {
	m := map[string]int{}
	w := map[string][2]uint64{}
	if spec == "-" || spec == "REAL" {
		return m, w
	}
	for _, kv := range strings.Split(spec, ",") {
		p := strings.SplitN(kv, "=", 2)
		if len(p) != 2 {
			continue
		}
		if p[0] == "wp" || p[0] == "wr" {
			q := strings.SplitN(p[1], ":", 2)
			if len(q) == 2 {
				id, _ := strconv.ParseUint(q[0], 10, 64)
				tk, _ := strconv.ParseUint(q[1], 10, 64)
				w[p[0]] = [2]uint64{id, tk}
			}
			continue
		}
		v, _ := strconv.Atoi(p[1])
		m[p[0]] = v
	}
	return m, w
}

func vTurnRun(e *electionManager, ctx context.Context, tick uint64) (panicked bool) {
	done := make(chan bool, 1)
	go func() {
		defer func() {
			if r := recover(); r != nil {
				done <- true
				return
			}
			done <- false
		}()
		if e.isLeader() {
			e.leaderMain(ctx, tick)
		} else {
			e.followerMain(ctx, tick)
		}
	}()
	return <-done
}

func vRunCase(c *vCase) (lines []string) {
	lines = append(lines, "CASE "+c.name)
	fail := func(msg string) []string {
		return append(lines, "ENDCASE infra "+strings.ReplaceAll(msg, "\n", " "))
	}
	defer func() {
		if r := recover(); r != nil {
			lines = append(lines, fmt.Sprintf("ENDCASE infra panic-in-executor %v", r))
		}
	}()
	nh, err := vNewNodeHost()
	if err != nil {
		return fail(err.Error())
	}
	defer nh.Close()
	srv := newDrummerServer(nh, random.NewLockedRand())
	// wait until the shard answers
	if err := vRetry(func(ctx context.Context) error {
		_, err := srv.getElectionInfo(ctx)
		return err
	}); err != nil {
		return fail("shard not ready: " + err.Error())
	}
	if c.hasInit {
		if err := vWriteRecord(nh, c.initID, 0, c.initTick); err != nil {
			return fail("init write: " + err.Error())
		}
	}
	ems := make([]*electionManager, len(c.ids))
	for i, id := range c.ids {
		ems[i] = &electionManager{
			state:         stateFollower,
			drummerServer: newDrummerServer(nh, random.NewLockedRand()),
			randSrc:       random.NewLockedRand(),
			instanceID:    id,
			sessionUser:   &sessionUser{nh: nh},
		}
	}
	for _, t := range c.turns {
		e := ems[t.srv]
		var panicked bool
		ops := "?"
		if t.faults == "REAL" {
			ctx, cancel := context.WithCancel(context.Background())
			cancel()
			panicked = vTurnRun(e, ctx, t.tick)
		} else {
			pl, wpl := vPlan(t.faults)
			vc := &vctx{plan: pl, wplan: wpl, nh: nh, srv: srv}
			panicked = vTurnRun(e, vc, t.tick)
			vc.mu.Lock()
			ops = strings.Join(vc.ops, "")
			ierr := vc.ierr
			vc.mu.Unlock()
			if ierr != nil {
				return fail("interfering write: " + ierr.Error())
			}
			if ops == "" {
				ops = "."
			}
		}
		if err := vBarrier(nh); err != nil {
			return fail("barrier: " + err.Error())
		}
		var kv *pb.KV
		if err := vRetry(func(ctx context.Context) error {
			var err error
			kv, err = srv.getElectionInfo(ctx)
			return err
		}); err != nil {
			return fail("record lookup: " + err.Error())
		}
		var lb strings.Builder
		for _, x := range ems {
			if x.isLeader() {
				lb.WriteByte('1')
			} else {
				lb.WriteByte('0')
			}
		}
		role := "F"
		if e.isLeader() {
			role = "L"
		}
		cur := "-"
		if e.currentLeader != nil {
			cur = fmt.Sprintf("%d %d %d", e.currentLeader.instanceID, e.currentLeader.tick, e.currentLeader.staticRound)
		}
		sess := 0
		if e.sessionUser.session != nil {
			sess = 1
		}
		pn := 0
		if panicked {
			pn = 1
		}
		lines = append(lines, fmt.Sprintf("O %s %d %d %s %s %d %s %d", lb.String(), kv.InstanceId, kv.Tick, role, cur, sess, ops, pn))
	}
	lines = append(lines, "ENDCASE ok")
	return lines
}

func TestVerifElection(t *testing.T) {
	in, out := os.Getenv("VERIF_IN"), os.Getenv("VERIF_OUT")
	if in == "" || out == "" {
		t.Skip("VERIF_IN / VERIF_OUT not set")
	}
	cases, err := vParse(in)
	if err != nil {
		t.Fatalf("cannot read input: %v", err)
	}
	workers := 6
	if v, err := strconv.Atoi(os.Getenv("VERIF_WORKERS")); err == nil && v > 0 {
		workers = v
	}
	results := make([][]string, len(cases))
	var next int64 = -1
	var wg sync.WaitGroup
	for w := 0; w < workers; w++ {
		wg.Add(1)
		go func() {
			defer wg.Done()
			for {
				i := int(atomic.AddInt64(&next, 1))
				if i >= len(cases) {
					return
				}
				results[i] = vRunCase(cases[i])
			}
		}()
	}
	wg.Wait()
	f, err := os.Create(out)
	if err != nil {
		t.Fatalf("cannot write output: %v", err)
	}
	w := bufio.NewWriter(f)
	fmt.Fprintf(w, "P deadLeaderMinRound %d\n", uint64(deadLeaderMinRound))
	fmt.Fprintf(w, "P leadershipRenewalSecond %d\n", uint64(leadershipRenewalSecond))
	fmt.Fprintf(w, "P DBKVUpdated %d\n", uint64(DBKVUpdated))
	fmt.Fprintf(w, "P DBKVFinalized %d\n", uint64(DBKVFinalized))
	fmt.Fprintf(w, "P DBKVRejected %d\n", uint64(DBKVRejected))
	for _, r := range results {
		for _, l := range r {
			fmt.Fprintln(w, l)
		}
	}
	w.Flush()
	f.Close()
}
