package porcupine

// Stress search for the C06 correspondence (engine "wgl"): generates many small, HIGHLY concurrent histories over a
// tiny value set (so that register states repeat and the checker's (linearized set, state) cache is hit all the time),
// runs the real CheckEvents(GetEtcdModel(), ...) on each and compares the verdict with a subset dynamic-programming
// search written here.  It only FINDS candidates: every history on which the two disagree is written to VERIF_OUT in
// the line format of zz_verif_wgl_test.go and then goes through the normal path of the check (python oracle, monitors,
// the verified Gallina model).  Asserts nothing itself.
//
// env: VERIF_OUT, VERIF_STRESS_N (number of histories), VERIF_SEED, VERIF_STRESS_MINOPS/MAXOPS, VERIF_STRESS_PIN (tenths).

import (
	"bufio"
	"fmt"
	"math/rand"
	"os"
	"runtime"
	"strconv"
	"strings"
	"sync"
	"testing"
)

type vsOp struct {
	tok     string
	in      etcdInput
	out     etcdOutput
	call    int // position of the call event
	ret     int // position of the return event
}

const vsNil = -1000000

var vsMinOps, vsMaxOps = 4, 11

// share (in tenths) of histories whose first operation stays open until almost everything else was invoked
var vsPinShare = 3

func vsStep(st int, in etcdInput, out etcdOutput) (bool, int) {
	switch in.op {
	case 0:
		ok := (!out.exists && st == vsNil) || (out.exists && st == out.value) || out.unknown
		return ok, st
	case 1:
		return true, in.arg1
	default:
		ok := (in.arg1 == st && out.ok) || (in.arg1 != st && !out.ok) || out.unknown
		if in.arg1 == st {
			return ok, in.arg2
		}
		return ok, st
	}
}

// subset DP: reachable (set of linearized ops, register state); states are indexed (nil + the few values of the history)
func vsOracle(ops []vsOp) bool {
	n := len(ops)
	if n == 0 {
		return true
	}
	pred := make([]uint32, n)
	for i := range ops {
		for j := range ops {
			if i != j && ops[j].ret < ops[i].call {
				pred[i] |= 1 << uint(j)
			}
		}
	}
	// value universe
	vals := []int{vsNil}
	add := func(v int) {
		for _, x := range vals {
			if x == v {
				return
			}
		}
		vals = append(vals, v)
	}
	for _, o := range ops {
		if o.in.op == 1 {
			add(o.in.arg1)
		} else if o.in.op == 2 {
			add(o.in.arg2)
		}
	}
	idx := func(v int) int {
		for i, x := range vals {
			if x == v {
				return i
			}
		}
		return -1
	}
	nv := len(vals)
	full := uint32(1)<<uint(n) - 1
	seen := make([]bool, (int(full)+1)*nv)
	type key struct {
		m  uint32
		st int
	}
	seen[0] = true
	front := []key{{0, 0}}
	for len(front) > 0 {
		k := front[len(front)-1]
		front = front[:len(front)-1]
		if k.m == full {
			return true
		}
		for i := 0; i < n; i++ {
			b := uint32(1) << uint(i)
			if k.m&b != 0 || pred[i]&^k.m != 0 {
				continue
			}
			ok, st2 := vsStep(vals[k.st], ops[i].in, ops[i].out)
			if !ok {
				continue
			}
			si := idx(st2)
			p := int(k.m|b)*nv + si
			if !seen[p] {
				seen[p] = true
				front = append(front, key{k.m | b, si})
			}
		}
	}
	return false
}

func vsGen(r *rand.Rand) ([]vsOp, []int) {
	n := vsMinOps + r.Intn(vsMaxOps-vsMinOps+1)
	vals := [][]int{{1}, {1, 2}, {1, 2}, {1, 2}, {0, 1}, {1, 2, 3}}[r.Intn(6)]
	maxFlight := 2 + r.Intn(5)
	// per-history profile: share of writes / reads (the rest is cas), and how returns are picked (uniform, or newest first so that
	// the operations invoked first stay open for long)
	prof := [][2]int{{50, 85}, {30, 45}, {25, 35}, {60, 70}, {15, 30}}[r.Intn(5)]
	lifo := r.Intn(2) == 0
	// the operation invoked first often stays open until (almost) everything else was invoked: it can then be linearized at any
	// depth of the search, last in particular (its id is the lowest bit of the checker's linearized set)
	pin0 := r.Intn(10) < vsPinShare
	ops := make([]vsOp, 0, n)
	var seq []int // event sequence of op indexes: first occurrence call, second return
	open := []int{}
	next := 0
	pos := 0
	for next < n || len(open) > 0 {
		canCall := next < n && len(open) < maxFlight
		if canCall && (len(open) == 0 || r.Intn(100) < 62) {
			v := vals[r.Intn(len(vals))]
			var op vsOp
			x := r.Intn(100)
			switch {
			case x < prof[0]:
				unk := r.Intn(8) == 0
				op.in = etcdInput{op: 1, arg1: v}
				op.out = etcdOutput{unknown: unk}
				op.tok = "W" + strconv.Itoa(v)
				if unk {
					op.tok += "u"
				}
			case x < prof[1]:
				y := r.Intn(100)
				switch {
				case y < 8:
					op.in, op.out, op.tok = etcdInput{op: 0}, etcdOutput{unknown: true}, "Ru"
				case y < 16:
					op.in, op.out, op.tok = etcdInput{op: 0}, etcdOutput{}, "Rn"
				default:
					op.in, op.out, op.tok = etcdInput{op: 0}, etcdOutput{exists: true, value: v}, "R"+strconv.Itoa(v)
				}
			default:
				w := vals[r.Intn(len(vals))]
				res := []string{"t", "f", "u"}[r.Intn(3)]
				op.in = etcdInput{op: 2, arg1: v, arg2: w}
				op.out = etcdOutput{ok: res == "t", unknown: res == "u"}
				op.tok = "K" + strconv.Itoa(v) + ":" + strconv.Itoa(w) + res
			}
			op.call = pos
			ops = append(ops, op)
			open = append(open, next)
			seq = append(seq, next)
			next++
		} else {
			i := r.Intn(len(open))
			if lifo && r.Intn(4) != 0 {
				i = len(open) - 1 - r.Intn((len(open)+1)/2)
			}
			if pin0 && open[i] == 0 && next < n-1 && len(open) > 1 {
				i = 1 + r.Intn(len(open)-1)
			}
			id := open[i]
			open = append(open[:i], open[i+1:]...)
			ops[id].ret = pos
			seq = append(seq, id)
		}
		pos++
	}
	if r.Intn(4) == 0 {
		vsSimulate(r, ops, pin0)
	}
	return ops, seq
}

// vsSimulate replaces the random outcomes by those of a hidden atomic register: every operation takes effect at a random point
// between its call and its return (the pinned first operation: in the later half), a few outcomes are then blanked to "unknown".
// The history is linearizable by construction and, the outcomes being definite, usually in few ways only - the shape on which a
// wrongly pruned branch of the search turns into a wrong verdict.
func vsSimulate(r *rand.Rand, ops []vsOp, pin0 bool) {
	n := len(ops)
	pt := make([]float64, n)
	ord := make([]int, n)
	for i := range ops {
		f := r.Float64()
		if i == 0 && pin0 {
			f = 0.5 + f/2
		}
		pt[i] = float64(ops[i].call) + f*float64(ops[i].ret-ops[i].call)
		ord[i] = i
	}
	for i := 1; i < n; i++ {
		for j := i; j > 0 && pt[ord[j]] < pt[ord[j-1]]; j-- {
			ord[j], ord[j-1] = ord[j-1], ord[j]
		}
	}
	st := vsNil
	for _, i := range ord {
		o := &ops[i]
		unk := r.Intn(10) == 0
		switch o.in.op {
		case 0:
			switch {
			case unk:
				o.out, o.tok = etcdOutput{unknown: true}, "Ru"
			case st == vsNil:
				o.out, o.tok = etcdOutput{}, "Rn"
			default:
				o.out, o.tok = etcdOutput{exists: true, value: st}, "R"+strconv.Itoa(st)
			}
		case 1:
			o.out, o.tok = etcdOutput{unknown: unk}, "W"+strconv.Itoa(o.in.arg1)
			if unk {
				o.tok += "u"
			}
			st = o.in.arg1
		default:
			hit := st == o.in.arg1
			res := "f"
			if hit {
				res = "t"
			}
			if unk {
				res = "u"
			}
			o.out = etcdOutput{ok: hit && !unk, unknown: unk}
			o.tok = "K" + strconv.Itoa(o.in.arg1) + ":" + strconv.Itoa(o.in.arg2) + res
			if hit {
				st = o.in.arg2
			}
		}
	}
}

func vsLine(ops []vsOp, seq []int, perm []int) string {
	toks := make([]string, len(ops))
	for i, o := range ops {
		toks[i] = o.tok
	}
	ids := make([]string, len(seq))
	for i, s := range seq {
		ids[i] = strconv.Itoa(perm[s])
	}
	return strings.Join(toks, ",") + " " + strings.Join(ids, " ")
}

func TestVerifWGLStress(t *testing.T) {
	fout := os.Getenv("VERIF_OUT")
	if fout == "" {
		t.Skip("VERIF_OUT not set")
	}
	n, _ := strconv.Atoi(os.Getenv("VERIF_STRESS_N"))
	if n <= 0 {
		n = 100000
	}
	seed, _ := strconv.ParseInt(os.Getenv("VERIF_SEED"), 10, 64)
	if v, err := strconv.Atoi(os.Getenv("VERIF_STRESS_MINOPS")); err == nil && v > 0 {
		vsMinOps = v
	}
	if v, err := strconv.Atoi(os.Getenv("VERIF_STRESS_MAXOPS")); err == nil && v >= vsMinOps {
		vsMaxOps = v
	}
	if v, err := strconv.Atoi(os.Getenv("VERIF_STRESS_PIN")); err == nil && v >= 0 {
		vsPinShare = v
	}
	workers := runtime.NumCPU()
	var mu sync.Mutex
	var cand []string
	var wg sync.WaitGroup
	per := (n + workers - 1) / workers
	total := 0
	for w := 0; w < workers; w++ {
		wg.Add(1)
		go func(w int) {
			defer wg.Done()
			r := rand.New(rand.NewSource(seed*1000 + int64(w)))
			local := 0
			for k := 0; k < per; k++ {
				ops, seq := vsGen(r)
				perm := make([]int, len(ops))
				for i := range perm {
					perm[i] = i
				}
				if r.Intn(3) == 0 { // sparse / permuted ids
					r.Shuffle(len(perm), func(i, j int) { perm[i], perm[j] = perm[j], perm[i] })
					for i := range perm {
						perm[i] = perm[i]*3 + 1
					}
				}
				var events []Event
				seen := map[int]bool{}
				for _, s := range seq {
					if !seen[s] {
						seen[s] = true
						events = append(events, Event{CallEvent, ops[s].in, uint(perm[s])})
					} else {
						events = append(events, Event{ReturnEvent, ops[s].out, uint(perm[s])})
					}
				}
				want := vsOracle(ops)
				got := func() (res bool) {
					defer func() {
						if recover() != nil {
							res = !want
						}
					}()
					if k%16 == 0 {
						return CheckEvents(GetEtcdModel(), events) // the public entry point, every 16th history
					}
					// the same search without the goroutine / channel of CheckEvents (single partition)
					var kill int32
					return checkSingle(fillDefault(GetEtcdModel()), makeLinkedEntries(convertEntries(renumber(events))), &kill)
				}()
				local++
				if got != want {
					mu.Lock()
					if len(cand) < 200 {
						cand = append(cand, vsLine(ops, seq, perm))
					}
					mu.Unlock()
				}
			}
			mu.Lock()
			total += local
			mu.Unlock()
		}(w)
	}
	wg.Wait()
	f, err := os.Create(fout)
	if err != nil {
		t.Fatal(err)
	}
	wr := bufio.NewWriter(f)
	fmt.Fprintf(wr, "STRESS %d\n", total)
	for _, c := range cand {
		fmt.Fprintln(wr, c)
	}
	wr.Flush()
	f.Close()
}
