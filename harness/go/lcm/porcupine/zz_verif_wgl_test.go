package porcupine

// Executor for the C06 correspondence (see /verif/DESIGN.md, engine "wgl").
// Reads histories from VERIF_IN (one per line), runs
// CheckEvents(GetEtcdModel(), events) on each, three times under different
// GOMAXPROCS settings, and writes one line per history to VERIF_OUT.
// Asserts nothing itself.
//
// Identifiers used: CheckEvents, GetEtcdModel, Event, CallEvent, ReturnEvent and
// the unexported etcdInput{op,arg1,arg2}, etcdOutput{ok,exists,value,unknown}.
//
// Line format:  <op>,<op>,...  <id> <id> ...
//   ops are listed in the order of their call events; the id sequence is the
//   event sequence: the first occurrence of an id is the call of the next op in
//   the list, the second occurrence is its return.
//   op tokens:  Rn (read -> nil)  R<v> (read -> v)  Ru (read, outcome unknown)
//               W<v> (write v)    W<v>u (write, outcome unknown)
//               K<a>:<b>t | K<a>:<b>f | K<a>:<b>u   (cas a->b ok / failed / unknown)
// Output line:  three characters, one per run: T | F | P (panic recovered);
//   "H" = no verdict within VERIF_HANG_MS (the process then exits with code 3).
// A panic inside the checker's own goroutine cannot be recovered and kills the
// process; output is flushed per block (or per line with VERIF_FLUSH=1) so that
// the driver can locate the history.

import (
	"bufio"
	"fmt"
	"os"
	"runtime"
	"strconv"
	"strings"
	"testing"
	"time"
)

func vwParseOp(tok string) (etcdInput, etcdOutput) {
	switch tok[0] {
	case 'R':
		a := tok[1:]
		if a == "n" {
			return etcdInput{op: 0}, etcdOutput{}
		}
		if a == "u" {
			return etcdInput{op: 0}, etcdOutput{unknown: true}
		}
		v, err := strconv.Atoi(a)
		if err != nil {
			panic("bad token " + tok)
		}
		return etcdInput{op: 0}, etcdOutput{exists: true, value: v}
	case 'W':
		a := tok[1:]
		unk := false
		if strings.HasSuffix(a, "u") {
			unk = true
			a = a[:len(a)-1]
		}
		v, err := strconv.Atoi(a)
		if err != nil {
			panic("bad token " + tok)
		}
		return etcdInput{op: 1, arg1: v}, etcdOutput{unknown: unk}
	case 'K':
		a := tok[1 : len(tok)-1]
		p := strings.SplitN(a, ":", 2)
		x, err1 := strconv.Atoi(p[0])
		y, err2 := strconv.Atoi(p[1])
		if err1 != nil || err2 != nil {
			panic("bad token " + tok)
		}
		out := etcdOutput{}
		switch tok[len(tok)-1] {
		case 't':
			out.ok = true
		case 'f':
		case 'u':
			out.unknown = true
		default:
			panic("bad token " + tok)
		}
		return etcdInput{op: 2, arg1: x, arg2: y}, out
	}
	panic("bad token " + tok)
}

func vwParseLine(line string) []Event {
	f := strings.Fields(line)
	if len(f) == 0 || f[0] == "-" {
		return nil
	}
	ops := strings.Split(f[0], ",")
	var events []Event
	next := 0
	outs := make(map[uint]etcdOutput)
	for _, s := range f[1:] {
		n, err := strconv.ParseUint(s, 10, 64)
		if err != nil {
			panic("bad id " + s)
		}
		id := uint(n)
		if out, ok := outs[id]; ok {
			events = append(events, Event{ReturnEvent, out, id})
			delete(outs, id)
		} else {
			in, out := vwParseOp(ops[next])
			next++
			outs[id] = out
			events = append(events, Event{CallEvent, in, id})
		}
	}
	return events
}

func vwCheck(events []Event, hang time.Duration) (res byte) {
	done := make(chan byte, 1)
	go func() {
		defer func() {
			if r := recover(); r != nil {
				done <- 'P'
			}
		}()
		if CheckEvents(GetEtcdModel(), events) {
			done <- 'T'
		} else {
			done <- 'F'
		}
	}()
	timer := time.NewTimer(hang)
	defer timer.Stop()
	select {
	case r := <-done:
		return r
	case <-timer.C:
		return 'H'
	}
}

func TestVerifWGL(t *testing.T) {
	fin, fout := os.Getenv("VERIF_IN"), os.Getenv("VERIF_OUT")
	if fin == "" || fout == "" {
		t.Skip("VERIF_IN/VERIF_OUT not set")
	}
	hang := 10 * time.Second
	if s := os.Getenv("VERIF_HANG_MS"); s != "" {
		if n, err := strconv.Atoi(s); err == nil {
			hang = time.Duration(n) * time.Millisecond
		}
	}
	flushEach := os.Getenv("VERIF_FLUSH") == "1"
	in, err := os.Open(fin)
	if err != nil {
		t.Fatal(err)
	}
	defer in.Close()
	outf, err := os.Create(fout)
	if err != nil {
		t.Fatal(err)
	}
	w := bufio.NewWriter(outf)
	defer func() { w.Flush(); outf.Close() }()
	old := runtime.GOMAXPROCS(0)
	defer runtime.GOMAXPROCS(old)
	ncpu := runtime.NumCPU()
	procs := []int{1, 2, ncpu}
	if ncpu < 2 {
		procs = []int{1, 2, 3}
	}
	sc := bufio.NewScanner(in)
	sc.Buffer(make([]byte, 1<<20), 1<<26)
	block := 2048
	if flushEach {
		block = 1
	}
	var hs [][]Event
	emit := func() {
		res := make([][3]byte, len(hs))
		for i := range res {
			res[i] = [3]byte{'-', '-', '-'}
		}
		for pi, p := range procs {
			runtime.GOMAXPROCS(p)
			for i, ev := range hs {
				r := vwCheck(ev, hang)
				res[i][pi] = r
				if r == 'H' {
					for j := 0; j < i; j++ {
						fmt.Fprintf(w, "%c%c%c\n", res[j][0], res[j][1], res[j][2])
					}
					fmt.Fprintf(w, "H\n")
					w.Flush()
					outf.Close()
					os.Exit(3)
				}
			}
		}
		for i := range hs {
			fmt.Fprintf(w, "%c%c%c\n", res[i][0], res[i][1], res[i][2])
		}
		w.Flush()
		hs = hs[:0]
	}
	for sc.Scan() {
		hs = append(hs, vwParseLine(sc.Text()))
		if len(hs) >= block {
			emit()
		}
	}
	emit()
}
