//go:build dragonboat_monkeytest
// +build dragonboat_monkeytest

package lcm

// Executor for the C07 correspondence (see /verif/DESIGN.md, engine "recorder").
// Reads VERIF_IN, writes VERIF_OUT; asserts nothing itself.
//
// (a) TestVerifRecorderFormat: event lists -> real Coordinator.SaveAsJepsenLog -> real
//     porcupine.ParseJepsenLog (-> real porcupine.CheckEvents when asked); dumps file text and events.
// (b) TestVerifRecorderProto: real Coordinator / process objects against in-process gRPC stubs of
//     the Drummer and NodehostAPI services.  scheduleProcesses is called directly; every data rpc is
//     held in the stub until the script releases it (ok / error / client side timeout / late effect);
//     every record* call of a process goroutine is held at a gate (process.recorder is wrapped);
//     a client interceptor logs rpc start/return per process.  Every log entry carries len(c.events).
//     The STAGE at which an operation fails is varied: connection stage (the Drummer stub hands out
//     the address of a replica that is down: "refused" = a reserved port nobody listens on,
//     "silent" = a peer that accepts the TCP connection and never speaks; rounds SD / SM with a short
//     deadline), session stage (GetSession fails with a status code / hangs until the client's
//     deadline), data rpc (error before / after the effect, client side timeout).
// (c) TestVerifRecorderText: hand-written log TEXTS (no trailing newline, CRLF, blank lines, long
//     lines, ...) -> real porcupine.ParseJepsenLog (-> real CheckEvents when asked).
//
// Unexported identifiers used: Coordinator.{events,mu,processes,scheduleProcesses,record*},
// process.{id,recorder,pool,isIdle,isStopped}, event{eventType,eventResult,id,value},
// historyRecorder, eventInvoked/eventCompleted/eventFailed, eventTypeRead/eventTypeWrite, timeout.

import (
	"bufio"
	"context"
	"encoding/hex"
	"fmt"
	"math/rand"
	"net"
	"os"
	"path/filepath"
	"strconv"
	"strings"
	"sync"
	"sync/atomic"
	"syscall"
	"testing"
	"time"

	pb "github.com/lni/drummer/v3/drummerpb"
	"github.com/lni/drummer/v3/kv"
	"github.com/lni/drummer/v3/lcm/porcupine"
	mr "github.com/lni/drummer/v3/multiraftpb"
	"google.golang.org/grpc"
	"google.golang.org/grpc/codes"
	"google.golang.org/grpc/metadata"
	"google.golang.org/grpc/status"
)

// ---------------------------------------------------------------- shared helpers

func vParseEvents(s string) []event {
	out := make([]event, 0)
	if s == "-" || s == "" {
		return out
	}
	for _, f := range strings.Split(s, ",") {
		p := strings.Split(f, ":")
		e := event{}
		if p[0] == "w" {
			e.eventType = eventTypeWrite
		} else {
			e.eventType = eventTypeRead
		}
		switch p[1] {
		case "i":
			e.eventResult = eventInvoked
		case "c":
			e.eventResult = eventCompleted
		default:
			e.eventResult = eventFailed
		}
		e.id, _ = strconv.ParseUint(p[2], 10, 64)
		e.value, _ = strconv.ParseUint(p[3], 10, 64)
		out = append(out, e)
	}
	return out
}

func vEventString(e event) string {
	t, r := "r", "i"
	if e.eventType == eventTypeWrite {
		t = "w"
	} else if e.eventType != eventTypeRead {
		t = "?"
	}
	if e.eventResult == eventCompleted {
		r = "c"
	} else if e.eventResult == eventFailed {
		r = "f"
	} else if e.eventResult != eventInvoked {
		r = "?"
	}
	return fmt.Sprintf("%s:%s:%d:%d", t, r, e.id, e.value)
}

func vPorcupineString(evs []porcupine.Event) string {
	if len(evs) == 0 {
		return "-"
	}
	parts := make([]string, 0, len(evs))
	for _, ev := range evs {
		k := "C"
		if ev.Kind == porcupine.ReturnEvent {
			k = "R"
		}
		v := strings.ReplaceAll(fmt.Sprintf("%+v", ev.Value), " ", ",")
		parts = append(parts, fmt.Sprintf("%s|%d|%s", k, ev.Id, v))
	}
	return strings.Join(parts, ";")
}

// every Return has an earlier Call with its id, ids used once per kind, every call returns:
// the precondition under which handing the history to the checker is meaningful (and safe)
func vComplete(evs []porcupine.Event) bool {
	calls := map[uint]bool{}
	rets := map[uint]bool{}
	for _, ev := range evs {
		if ev.Kind == porcupine.CallEvent {
			if calls[ev.Id] {
				return false
			}
			calls[ev.Id] = true
		} else {
			if !calls[ev.Id] || rets[ev.Id] {
				return false
			}
			rets[ev.Id] = true
		}
	}
	return len(calls) == len(rets)
}

// save + parse (+ check) through the real code; returns "status text parsed chk"
func vRoundTrip(c *Coordinator, dir string, check bool) (res string) {
	defer func() {
		if r := recover(); r != nil {
			res = "panic " + strings.ReplaceAll(fmt.Sprint(r), " ", "_") + " - chk=-"
		}
	}()
	fn := filepath.Join(dir, "h.jepsen")
	c.SaveAsJepsenLog(fn)
	text, err := os.ReadFile(fn)
	if err != nil {
		panic(err)
	}
	evs := porcupine.ParseJepsenLog(fn)
	chk := "-"
	if check {
		if !vComplete(evs) {
			chk = "skip"
		} else {
			t0 := time.Now()
			ok := porcupine.CheckEventsTimeout(porcupine.GetEtcdModel(), evs, 5*time.Second)
			if time.Since(t0) > 4900*time.Millisecond {
				chk = "timeout"
			} else if ok {
				chk = "1"
			} else {
				chk = "0"
			}
		}
	}
	th := hex.EncodeToString(text)
	if th == "" {
		th = "-"
	}
	return fmt.Sprintf("ok %s %s chk=%s", th, vPorcupineString(evs), chk)
}

func vOpenIO(t *testing.T) (*bufio.Scanner, *bufio.Writer, func()) {
	in, err := os.Open(os.Getenv("VERIF_IN"))
	if err != nil {
		t.Skip("VERIF_IN not set")
	}
	out, err := os.Create(os.Getenv("VERIF_OUT"))
	if err != nil {
		t.Fatal(err)
	}
	sc := bufio.NewScanner(in)
	sc.Buffer(make([]byte, 1<<20), 1<<26)
	w := bufio.NewWriter(out)
	return sc, w, func() { w.Flush(); out.Close(); in.Close() }
}

// ---------------------------------------------------------------- (a) format / parse

func TestVerifRecorderFormat(t *testing.T) {
	sc, w, done := vOpenIO(t)
	defer done()
	dir := t.TempDir()
	for sc.Scan() {
		f := strings.Fields(sc.Text())
		if len(f) < 3 || f[0] != "F" {
			continue
		}
		c := NewCoordinator(context.Background(), 0, 1, nil)
		c.events = vParseEvents(f[2])
		fmt.Fprintf(w, "F %s\n", vRoundTrip(c, dir, f[1] == "1"))
		c.cancel()
	}
}

// ---------------------------------------------------------------- (c) log texts

// parse (+ check) a given text through the real code; same result line as vRoundTrip
func vParseText(text []byte, dir string, check bool) (res string) {
	defer func() {
		if r := recover(); r != nil {
			res = "panic " + strings.ReplaceAll(fmt.Sprint(r), " ", "_") + " - chk=-"
		}
	}()
	fn := filepath.Join(dir, "t.jepsen")
	if err := os.WriteFile(fn, text, 0600); err != nil {
		panic(err)
	}
	evs := porcupine.ParseJepsenLog(fn)
	chk := "-"
	if check {
		if !vComplete(evs) {
			chk = "skip"
		} else {
			t0 := time.Now()
			ok := porcupine.CheckEventsTimeout(porcupine.GetEtcdModel(), evs, 5*time.Second)
			if time.Since(t0) > 4900*time.Millisecond {
				chk = "timeout"
			} else if ok {
				chk = "1"
			} else {
				chk = "0"
			}
		}
	}
	return fmt.Sprintf("ok - %s chk=%s", vPorcupineString(evs), chk)
}

func TestVerifRecorderText(t *testing.T) {
	sc, w, done := vOpenIO(t)
	defer done()
	dir := t.TempDir()
	for sc.Scan() {
		f := strings.Fields(sc.Text())
		if len(f) < 3 || f[0] != "T" {
			continue
		}
		text := []byte{}
		if f[2] != "-" {
			var err error
			if text, err = hex.DecodeString(f[2]); err != nil {
				fmt.Fprintf(w, "F badhex - - chk=-\n")
				continue
			}
		}
		fmt.Fprintf(w, "F %s\n", vParseText(text, dir, f[1] == "1"))
	}
}

// ---------------------------------------------------------------- (b) protocol

type vIns struct {
	effect bool
	ok     bool
	late   bool // error reply now, the write stays pending and is applied when the script says so (L:j)
	code   codes.Code // status code of an injected failure
}

// the gRPC status codes a failure is injected with (everything grpcError of the real NodehostAPI
// can produce and a few more)
var vCodes = map[string]codes.Code{
	"NotFound": codes.NotFound, "Unavailable": codes.Unavailable, "DeadlineExceeded": codes.DeadlineExceeded,
	"Canceled": codes.Canceled, "InvalidArgument": codes.InvalidArgument, "Unknown": codes.Unknown,
	"Internal": codes.Internal, "ResourceExhausted": codes.ResourceExhausted, "Aborted": codes.Aborted,
}

func vCode(name string) codes.Code {
	if c, ok := vCodes[name]; ok {
		return c
	}
	return codes.Unavailable
}

// client session as kept by the register: dragonboat's at-most-once bookkeeping for a regular
// state machine (internal/rsm session): a proposal whose series id already has a recorded response
// is answered from that record and NOT applied again
type vSession struct {
	responses     map[uint64]uint64
	respondedUpTo uint64
}

type vSrvOp struct {
	pid     uint64
	write   bool
	value   uint64
	short   bool // started in a short-timeout round
	release chan vIns
}

// a proposal the service answered with an error status although it had accepted it
type vLate struct {
	pid     uint64
	value   uint64
	session *mr.Session
}

type vGate struct {
	pid uint64
	ch  chan struct{}
}

type vH struct {
	mu          sync.Mutex
	c           *Coordinator
	log         []string
	srv         []*vSrvOp
	gates       []*vGate
	reg         uint64
	has         bool
	failSession int32 // 0: no; 1+c: fail the next GetSession with status code c
	late        []*vLate // writes answered with an error that may still be applied
	hangSession int32 // 1: the next GetSession does not answer before its client has given up
	drummer     *vDrummer
	sessions    map[uint64]*vSession
	nextClient  uint64
	shortRound  int32
	handlers    int32 // server handlers currently blocked or running
	stuck       int32 // waits that timed out in this case
}

var vCur atomic.Value // *vH

func (h *vH) nEvents() int {
	if h.c.mu.TryLock() {
		n := len(h.c.events)
		h.c.mu.Unlock()
		return n
	}
	return len(h.c.events) // somebody (a recorder or the harness) holds the mutex
}

func (h *vH) logf(format string, a ...interface{}) {
	h.mu.Lock()
	h.log = append(h.log, fmt.Sprintf("%d ", h.nEvents())+fmt.Sprintf(format, a...))
	h.mu.Unlock()
}

func vb(b bool) int {
	if b {
		return 1
	}
	return 0
}

// --- recorder wrapper (gate in front of every record* call made by a process goroutine)
type vRec struct {
	h *vH
	p *process
}

func (r *vRec) gate(t string, res string, value uint64) {
	g := &vGate{pid: r.p.id, ch: make(chan struct{})}
	r.h.mu.Lock()
	r.h.log = append(r.h.log, fmt.Sprintf("%d gate %d %s %s %d %d %d", r.h.nEvents(), r.p.id, t, res, value,
		vb(r.p.isIdle()), vb(r.p.isStopped())))
	r.h.gates = append(r.h.gates, g)
	r.h.mu.Unlock()
	<-g.ch
}
func (r *vRec) recordWriteInvoked(id uint64, value uint64) { r.h.c.recordWriteInvoked(id, value) }
func (r *vRec) recordReadInvoked(id uint64)                { r.h.c.recordReadInvoked(id) }
func (r *vRec) recordWriteFailed(id uint64) {
	r.gate("w", "f", 0)
	r.h.c.recordWriteFailed(id)
}
func (r *vRec) recordWriteCompleted(id uint64, value uint64) {
	r.gate("w", "c", value)
	r.h.c.recordWriteCompleted(id, value)
}
func (r *vRec) recordReadFailed(id uint64) {
	r.gate("r", "f", 0)
	r.h.c.recordReadFailed(id)
}
func (r *vRec) recordReadCompleted(id uint64, value uint64) {
	r.gate("r", "c", value)
	r.h.c.recordReadCompleted(id, value)
}

// --- gRPC stubs
type vDrummer struct {
	pb.UnimplementedDrummerServer
	addr string
	mu   sync.Mutex
	mode string            // "": the live replica; "D:<kind>": one replica, down; "M:<kind>": two replicas, one of them down
	dead map[string]string // kind -> address of a replica that is down
}

func (d *vDrummer) setMode(m string) {
	d.mu.Lock()
	d.mode = m
	d.mu.Unlock()
}

func (d *vDrummer) GetShardStates(ctx context.Context, req *pb.ShardStateRequest) (*pb.ShardStates, error) {
	d.mu.Lock()
	mode := d.mode
	d.mu.Unlock()
	addrs := map[uint64]string{1: d.addr}
	if len(mode) > 2 {
		if da, ok := d.dead[mode[2:]]; ok {
			if mode[0] == 'D' {
				addrs = map[uint64]string{1: da}
			} else {
				addrs = map[uint64]string{1: d.addr, 2: da}
			}
		}
	}
	return &pb.ShardStates{Collection: []*pb.ShardState{{ShardId: 1, RPCAddresses: addrs}}}, nil
}

// addresses of replicas that are down; the ports stay reserved for the whole test so that no other
// process on this machine can start listening there.
//   refused: a bound TCP socket that never listens: every connect is answered with RST
//   silent:  a listener that accepts and then says nothing: the HTTP/2 handshake of the blocking
//            dial never completes
func vDeadAddresses(t *testing.T) (map[string]string, func()) {
	out := map[string]string{}
	closers := make([]func(), 0)
	fd, err := syscall.Socket(syscall.AF_INET, syscall.SOCK_STREAM, 0)
	if err == nil {
		err = syscall.Bind(fd, &syscall.SockaddrInet4{Port: 0, Addr: [4]byte{127, 0, 0, 1}})
		if err == nil {
			if sa, e2 := syscall.Getsockname(fd); e2 == nil {
				if s4, ok := sa.(*syscall.SockaddrInet4); ok {
					out["refused"] = fmt.Sprintf("127.0.0.1:%d", s4.Port)
				}
			}
		}
		closers = append(closers, func() { syscall.Close(fd) })
	}
	if lis, err := net.Listen("tcp", "127.0.0.1:0"); err == nil {
		out["silent"] = lis.Addr().String()
		go func() {
			for {
				c, err := lis.Accept()
				if err != nil {
					return
				}
				// swallow whatever the peer sends, never answer; the connection goes away when the peer gives up
				go func(c net.Conn) {
					buf := make([]byte, 512)
					for {
						if _, err := c.Read(buf); err != nil {
							break
						}
					}
					c.Close()
				}(c)
			}
		}()
		closers = append(closers, func() { lis.Close() })
	}
	if len(out) != 2 {
		t.Fatalf("cannot reserve addresses of dead replicas: %v", out)
	}
	return out, func() {
		for _, f := range closers {
			f()
		}
	}
}

type vNodehost struct {
	mr.UnimplementedNodehostAPIServer
}

func vPid(ctx context.Context) uint64 {
	md, _ := metadata.FromIncomingContext(ctx)
	v := md.Get("vpid")
	if len(v) == 0 {
		return 1 << 62
	}
	p, _ := strconv.ParseUint(v[0], 10, 64)
	return p
}

func (s *vNodehost) GetSession(ctx context.Context, req *mr.SessionRequest) (*mr.Session, error) {
	h := vCur.Load().(*vH)
	pid := vPid(ctx)
	h.logf("recv %d GetSession", pid)
	if c := atomic.SwapInt32(&h.failSession, 0); c != 0 {
		h.logf("reply %d GetSession err %s", pid, codes.Code(c-1))
		return nil, status.Error(codes.Code(c-1), "injected session failure")
	}
	if atomic.SwapInt32(&h.hangSession, 0) == 1 {
		<-ctx.Done()
		h.logf("reply %d GetSession err %s", pid, codes.DeadlineExceeded)
		return nil, status.Error(codes.DeadlineExceeded, "session request not answered in time")
	}
	// SyncGetSession: a fresh client id, registered with the state machine, ready for its first proposal
	h.mu.Lock()
	h.nextClient++
	cid := 1000000 + h.nextClient
	h.sessions[cid] = &vSession{responses: map[uint64]uint64{}}
	h.mu.Unlock()
	return &mr.Session{ShardID: req.ShardId, ClientID: cid, SeriesID: 1, RespondedTo: 0}, nil
}

func (s *vNodehost) CloseSession(ctx context.Context, cs *mr.Session) (*mr.SessionResponse, error) {
	h := vCur.Load().(*vH)
	if cs.SeriesID != 0 {
		h.mu.Lock()
		delete(h.sessions, cs.ClientID)
		h.mu.Unlock()
	}
	return &mr.SessionResponse{Completed: true}, nil
}

// apply a proposal the way a dragonboat regular state machine does; caller holds h.mu.
// returns (result, applied, accepted)
func (h *vH) applyWrite(cs *mr.Session, value uint64) (uint64, bool, bool) {
	if cs == nil || cs.SeriesID == 0 { // no-op session: always applied
		h.reg, h.has = value, true
		return 1, true, true
	}
	ss, ok := h.sessions[cs.ClientID]
	if !ok {
		return 0, false, false // unknown client: rejected
	}
	for k := range ss.responses { // clearTo(RespondedTo)
		if k <= cs.RespondedTo {
			delete(ss.responses, k)
		}
	}
	if cs.RespondedTo > ss.respondedUpTo {
		ss.respondedUpTo = cs.RespondedTo
	}
	if cs.SeriesID <= ss.respondedUpTo {
		return 0, false, false // already responded to and forgotten: ignored
	}
	if r, ok := ss.responses[cs.SeriesID]; ok {
		return r, false, true // at-most-once: answered from the recorded response, not applied
	}
	h.reg, h.has = value, true
	ss.responses[cs.SeriesID] = 1
	return 1, true, true
}

// every request the service receives is logged ("recv"), so is every error status it answers with
// ("reply ... err"): what the service saw is compared with what the history says
func (h *vH) hold(pid uint64, write bool, value uint64) vIns {
	op := &vSrvOp{pid: pid, write: write, value: value, short: atomic.LoadInt32(&h.shortRound) == 1, release: make(chan vIns, 1)}
	atomic.AddInt32(&h.handlers, 1)
	h.mu.Lock()
	if write {
		h.log = append(h.log, fmt.Sprintf("%d recv %d Propose %d", h.nEvents(), pid, value))
	} else {
		h.log = append(h.log, fmt.Sprintf("%d recv %d Read", h.nEvents(), pid))
	}
	h.srv = append(h.srv, op)
	h.mu.Unlock()
	return <-op.release
}

func (s *vNodehost) Propose(ctx context.Context, req *mr.RaftProposal) (*mr.RaftResponse, error) {
	h := vCur.Load().(*vH)
	pid := vPid(ctx)
	var rec kv.KV
	if err := rec.UnmarshalBinary(req.Data); err != nil {
		return nil, status.Error(codes.InvalidArgument, "bad kv")
	}
	value, _ := strconv.ParseUint(rec.Val, 10, 64)
	ins := h.hold(pid, true, value)
	defer atomic.AddInt32(&h.handlers, -1)
	result := uint64(1)
	if ins.effect {
		h.mu.Lock()
		r, applied, accepted := h.applyWrite(req.Session, value)
		cid, sid := uint64(0), uint64(0)
		if req.Session != nil {
			cid, sid = req.Session.ClientID, req.Session.SeriesID
		}
		if applied {
			h.log = append(h.log, fmt.Sprintf("%d effect %d w %d", h.nEvents(), pid, value))
		} else if accepted {
			h.log = append(h.log, fmt.Sprintf("%d dedup %d w %d client=%d series=%d", h.nEvents(), pid, value, cid, sid))
		} else {
			h.log = append(h.log, fmt.Sprintf("%d rejected %d w %d client=%d series=%d", h.nEvents(), pid, value, cid, sid))
		}
		h.mu.Unlock()
		result = r
		if !accepted {
			h.logf("reply %d Propose err %s", pid, codes.InvalidArgument)
			return nil, status.Error(codes.InvalidArgument, "session rejected")
		}
	}
	if ins.ok {
		return &mr.RaftResponse{Result: result}, nil
	}
	if ins.late {
		var cs *mr.Session
		if req.Session != nil {
			c := *req.Session
			cs = &c
		}
		h.mu.Lock()
		h.late = append(h.late, &vLate{pid: pid, value: value, session: cs})
		h.mu.Unlock()
	}
	h.logf("reply %d Propose err %s", pid, ins.code)
	return nil, status.Error(ins.code, "injected failure")
}

func (s *vNodehost) Read(ctx context.Context, req *mr.RaftReadIndex) (*mr.RaftResponse, error) {
	h := vCur.Load().(*vH)
	pid := vPid(ctx)
	ins := h.hold(pid, false, 0)
	defer atomic.AddInt32(&h.handlers, -1)
	var data []byte
	if ins.effect {
		h.mu.Lock()
		v := "nil"
		if h.has {
			data = []byte(strconv.FormatUint(h.reg, 10))
			v = string(data)
		}
		h.log = append(h.log, fmt.Sprintf("%d effect %d r %s", h.nEvents(), pid, v))
		h.mu.Unlock()
	}
	if ins.ok {
		return &mr.RaftResponse{Data: data}, nil
	}
	h.logf("reply %d Read err %s", pid, ins.code)
	return nil, status.Error(ins.code, "injected failure")
}

// --- client side interceptor, one per process
func vInterceptor(h *vH, pid uint64) grpc.UnaryClientInterceptor {
	return func(ctx context.Context, method string, req, reply interface{}, cc *grpc.ClientConn,
		invoker grpc.UnaryInvoker, opts ...grpc.CallOption) error {
		m := method[strings.LastIndex(method, "/")+1:]
		h.logf("start %d %s", pid, m)
		ctx = metadata.AppendToOutgoingContext(ctx, "vpid", strconv.FormatUint(pid, 10))
		err := invoker(ctx, method, req, reply, cc, opts...)
		r := "ok"
		if err != nil {
			r = "err"
		}
		h.logf("ret %d %s %s", pid, m, r)
		return err
	}
}

// number of waits that timed out, in this case / in the whole run.  On the unchanged tree no wait
// ever times out; once the implementation under test does not follow the protocol the executor
// stops being patient (and gives up on the remaining cases after vGiveUp timeouts), so that a
// check of a broken tree ends in minutes, not hours.
var vStuckTotal int32

const vGiveUp = 6

func vWait(d time.Duration, cond func() bool) bool {
	if h, ok := vCur.Load().(*vH); ok && h != nil && atomic.LoadInt32(&h.stuck) > 0 && d > 150*time.Millisecond {
		d = 150 * time.Millisecond
	}
	end := time.Now().Add(d)
	for !cond() {
		if time.Now().After(end) {
			if h, ok := vCur.Load().(*vH); ok && h != nil {
				atomic.AddInt32(&h.stuck, 1)
			}
			atomic.AddInt32(&vStuckTotal, 1)
			return false
		}
		time.Sleep(50 * time.Microsecond)
	}
	return true
}

func (h *vH) atGate(pid uint64) bool {
	h.mu.Lock()
	defer h.mu.Unlock()
	for _, g := range h.gates {
		if g.pid == pid {
			return true
		}
	}
	return false
}

func (h *vH) atServer(pid uint64) bool {
	h.mu.Lock()
	defer h.mu.Unlock()
	for _, o := range h.srv {
		if o.pid == pid {
			return true
		}
	}
	return false
}

const vLong = 120 * time.Second
const vShort = 150 * time.Millisecond
const vDial = 60 * time.Millisecond

// S: plain round; SH: with the history mutex held for a while; ST: operations started in this round
// have a short deadline; SD:<kind>: short deadline and the Drummer hands out a replica that is down
// (every operation of the round fails at the connection stage unless its process already holds a
// connection - it never does: the address was never alive); SM:<kind>: short deadline, two replicas,
// one of them down (the coordinator picks the write and the read target at random).
func (h *vH) schedule(mode string, kind string) {
	c := h.c
	c.mu.Lock()
	n0 := len(c.events)
	c.mu.Unlock()
	short := mode == "ST" || mode == "SD" || mode == "SM"
	if short {
		atomic.StoreInt32(&h.shortRound, 1)
		timeout = vShort
		if mode == "SD" {
			timeout = vDial
		}
	}
	if mode == "SD" {
		h.drummer.setMode("D:" + kind)
	} else if mode == "SM" {
		h.drummer.setMode("M:" + kind)
	}
	h.logf("sched-begin %s", mode)
	if mode == "SH" {
		// hold the history mutex for a while: no client operation may start before its
		// invocation is in the history
		done := make(chan struct{})
		c.mu.Lock()
		go func() {
			c.scheduleProcesses()
			close(done)
		}()
		time.Sleep(15 * time.Millisecond)
		c.mu.Unlock()
		<-done
	} else {
		c.scheduleProcesses()
	}
	h.logf("sched-end")
	c.mu.Lock()
	started := make([]uint64, 0)
	for _, e := range c.events[n0:] {
		if e.eventResult == eventInvoked {
			started = append(started, e.id)
		}
	}
	c.mu.Unlock()
	for _, pid := range started {
		p := pid
		if !vWait(15*time.Second, func() bool { return h.atServer(p) || h.atGate(p) }) {
			h.logf("stuck %d", p)
		}
	}
	if short {
		timeout = vLong
		atomic.StoreInt32(&h.shortRound, 0)
		atomic.StoreInt32(&h.hangSession, 0)
		h.drummer.setMode("")
	}
}

func (h *vH) takeSrv(i int) *vSrvOp {
	h.mu.Lock()
	defer h.mu.Unlock()
	if len(h.srv) == 0 {
		return nil
	}
	i = i % len(h.srv)
	op := h.srv[i]
	h.srv = append(h.srv[:i:i], h.srv[i+1:]...)
	return op
}

func (h *vH) takeGate(i int) *vGate {
	h.mu.Lock()
	defer h.mu.Unlock()
	if len(h.gates) == 0 {
		return nil
	}
	i = i % len(h.gates)
	g := h.gates[i]
	h.gates = append(h.gates[:i:i], h.gates[i+1:]...)
	return g
}

func (h *vH) procOf(pid uint64) *process {
	if pid < uint64(len(h.c.processes)) {
		return h.c.processes[pid]
	}
	return nil
}

func (h *vH) releaseGate(i int) {
	g := h.takeGate(i)
	if g == nil {
		return
	}
	p := h.procOf(g.pid)
	h.logf("open %d", g.pid)
	close(g.ch)
	if p != nil {
		if !vWait(15*time.Second, func() bool { return p.isIdle() }) {
			h.logf("stuck-busy %d", g.pid)
		}
		h.logf("flags %d %d %d", g.pid, vb(p.isIdle()), vb(p.isStopped()))
	}
}

// client of this op still waiting for the reply?
func (h *vH) clientWaiting(op *vSrvOp) bool {
	p := h.procOf(op.pid)
	return p != nil && !p.isIdle() && !h.atGate(op.pid)
}

func (h *vH) run(cmds []string) {
	for _, cmd := range cmds {
		f := strings.Split(cmd, ":")
		switch f[0] {
		case "S", "SH", "ST", "SD", "SM":
			kind := "refused"
			if len(f) > 1 {
				kind = f[1]
			}
			h.schedule(f[0], kind)
		case "FH": // the next GetSession hangs until its client gives up (cleared at the end of the next short round)
			atomic.StoreInt32(&h.hangSession, 1)
		case "FS":
			code := codes.Unavailable
			if len(f) > 1 {
				code = vCode(f[1])
			}
			atomic.StoreInt32(&h.failSession, int32(code)+1)
		case "R": // R:i:mode[:code]   mode = ok | err | erreff (error reply after the effect); code = gRPC status of the error
			i, _ := strconv.Atoi(f[1])
			op := h.takeSrv(i)
			if op == nil {
				continue
			}
			waiting := h.clientWaiting(op)
			ins := vIns{effect: f[2] == "ok" || f[2] == "erreff", ok: f[2] == "ok", late: f[2] == "errlate", code: codes.Unavailable}
			if len(f) > 3 {
				ins.code = vCode(f[3])
			}
			h.logf("release %d %s", op.pid, f[2])
			op.release <- ins
			if waiting {
				pid := op.pid
				// the client records its completion / failure next; a client that sends the request again instead
				// shows up at the service once more
				if !vWait(15*time.Second, func() bool { return h.atGate(pid) || h.atServer(pid) }) {
					h.logf("stuck-nogate %d", pid)
				} else if !h.atGate(pid) {
					h.logf("again %d", pid)
				}
			}
		case "L": // L:j  the j-th write that was answered with an error although accepted (errlate) is applied now
			j, _ := strconv.Atoi(f[1])
			h.mu.Lock()
			if len(h.late) > 0 {
				j = j % len(h.late)
				lw := h.late[j]
				h.late = append(h.late[:j:j], h.late[j+1:]...)
				_, applied, accepted := h.applyWrite(lw.session, lw.value)
				if applied {
					h.log = append(h.log, fmt.Sprintf("%d effect %d w %d", h.nEvents(), lw.pid, lw.value))
				} else if accepted {
					h.log = append(h.log, fmt.Sprintf("%d dedup %d w %d late", h.nEvents(), lw.pid, lw.value))
				} else {
					h.log = append(h.log, fmt.Sprintf("%d rejected %d w %d late", h.nEvents(), lw.pid, lw.value))
				}
			}
			h.mu.Unlock()
		case "T": // T:i  let the client of the i-th short-deadline op run into its deadline; the handler stays blocked
			i, _ := strconv.Atoi(f[1])
			var op *vSrvOp
			h.mu.Lock()
			cands := make([]*vSrvOp, 0)
			for _, o := range h.srv {
				if o.short {
					cands = append(cands, o)
				}
			}
			h.mu.Unlock()
			for len(cands) > 0 && op == nil {
				k := i % len(cands)
				if h.clientWaiting(cands[k]) {
					op = cands[k]
				} else {
					cands = append(cands[:k:k], cands[k+1:]...)
				}
			}
			if op == nil {
				continue
			}
			pid := op.pid
			h.logf("await-timeout %d", pid)
			if !vWait(15*time.Second, func() bool { return !h.clientWaiting(op) }) {
				h.logf("stuck-notimeout %d", pid)
			}
		case "G": // G:j
			j, _ := strconv.Atoi(f[1])
			h.releaseGate(j)
		}
	}
	// drain: answer everything that is still held, open every gate
	end := time.Now().Add(20 * time.Second)
	if atomic.LoadInt32(&h.stuck) > 0 {
		end = time.Now().Add(2 * time.Second)
	}
	h.logf("drain")
	for time.Now().Before(end) {
		if op := h.takeSrv(0); op != nil {
			waiting := h.clientWaiting(op)
			h.logf("release %d %s", op.pid, map[bool]string{true: "ok", false: "drop"}[waiting])
			op.release <- vIns{effect: waiting, ok: waiting, code: codes.Unavailable}
			if waiting {
				pid := op.pid
				vWait(15*time.Second, func() bool { return h.atGate(pid) })
			}
			continue
		}
		h.mu.Lock()
		ng := len(h.gates)
		h.mu.Unlock()
		if ng > 0 {
			h.releaseGate(0)
			continue
		}
		busy := false
		for _, p := range h.c.processes {
			if !p.isIdle() {
				busy = true
				break
			}
		}
		if !busy && atomic.LoadInt32(&h.handlers) == 0 {
			break
		}
		time.Sleep(200 * time.Microsecond)
	}
	h.logf("quiescent")
}

func TestVerifRecorderProto(t *testing.T) {
	sc, w, done := vOpenIO(t)
	defer done()
	dir := t.TempDir()
	lis, err := net.Listen("tcp", "127.0.0.1:0")
	if err != nil {
		t.Fatal(err)
	}
	addr := lis.Addr().String()
	srv := grpc.NewServer()
	deadAddrs, closeDead := vDeadAddresses(t)
	defer closeDead()
	drummer := &vDrummer{addr: addr, dead: deadAddrs}
	pb.RegisterDrummerServer(srv, drummer)
	mr.RegisterNodehostAPIServer(srv, &vNodehost{})
	go srv.Serve(lis)
	defer srv.Stop()
	saved := timeout
	defer func() { timeout = saved }()
	timeout = vLong
	fmt.Fprintf(w, "CONST timeout_ns=%d initialWait=%d maxWait=%d\n", int64(saved), initialWait, maxWait)
	caseNo := 0
	for sc.Scan() {
		f := strings.Fields(sc.Text())
		if len(f) < 3 || f[0] != "P" {
			continue
		}
		seed, _ := strconv.ParseInt(f[1], 10, 64)
		np, _ := strconv.ParseUint(f[2], 10, 64)
		if atomic.LoadInt32(&vStuckTotal) >= vGiveUp {
			fmt.Fprintf(w, "P begin %d\nP end skipped\n", caseNo)
			caseNo++
			continue
		}
		func() {
			fmt.Fprintf(w, "P begin %d\n", caseNo)
			status := "ok"
			var h *vH
			defer func() {
				if r := recover(); r != nil {
					status = "panic_" + strings.ReplaceAll(fmt.Sprint(r), " ", "_")
				}
				if h != nil {
					h.mu.Lock()
					for _, l := range h.log {
						fmt.Fprintf(w, "L %s\n", l)
					}
					h.mu.Unlock()
					h.c.mu.Lock()
					evs := make([]string, 0)
					for _, e := range h.c.events {
						evs = append(evs, vEventString(e))
					}
					h.c.mu.Unlock()
					if len(evs) == 0 {
						evs = append(evs, "-")
					}
					fmt.Fprintf(w, "E %s\n", strings.Join(evs, ","))
					fmt.Fprintf(w, "X %s\n", vRoundTrip(h.c, dir, true))
					h.c.Stop()
				}
				fmt.Fprintf(w, "P end %s\n", status)
				w.Flush()
			}()
			rand.Seed(seed)
			c := NewCoordinator(context.Background(), np, 1, []string{addr})
			drummer.setMode("")
			h = &vH{c: c, sessions: map[uint64]*vSession{}, drummer: drummer}
			vCur.Store(h)
			for _, p := range c.processes {
				pid := p.id
				p.recorder = &vRec{h: h, p: p}
				p.pool.SetAddDialOptionsFunc(func(opts []grpc.DialOption) []grpc.DialOption {
					// chained, i.e. INSIDE whatever interceptor the pool itself installs (WithUnaryInterceptor would replace it)
					return append(opts, grpc.WithChainUnaryInterceptor(vInterceptor(h, pid)))
				})
			}
			h.run(f[3:])
		}()
		caseNo++
	}
}
