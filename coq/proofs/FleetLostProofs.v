(** FleetLostProofs: a LOST member - a current member whose NodeHost is up but holds no data of it: it never runs, never
    reports again, and cannot be restored.  The first stages of "single failure -> healed": detection and the
    scheduling of the replacement.

    Part 1: the class machinery of FleetMendBProofs.v for [MendL L Bx] - FleetMendBProofs.MendP with ONE clause
    weakened: a member that has reported has its data on its NodeHost OR is one of the lost members [L].  The
    closure lemmas (one request, a queue, report(s), exec(s), catch-up, tick(s): ml_exec_req ... lostb_reports,
    lostx_execs, lostx_learns, lostx_ticks) are those of FleetMendBProofs.v, re-proved for the weakened clause; the
    execution-level lemmas (bexec_one ...) are reused as they are.  [lostb_report] additionally exports the report
    times and the persisted-log list Drummer records.
    Part 2: the class [Lost] (= [LostK] + [inert]) and what a report phase does to it ([lost_reports_facts]: a member
    that runs is stamped with the time of the round, a member that does not keeps its time; the persisted-log list
    recorded for a NodeHost lists only what the NodeHost has).
    Part 3: the leader's decision for a view entry of a Lost fleet ([lost_entry]): nothing to restore; no failed
    member: no action; the lost member failed: ADD.
    Part 4: [lost_pre] (the state in which the leader schedules), [lost_round] (a healthy round from Lost, every allowed
    outcome but OCrash: KILLs and the ADDs for the lost members whose failure is detected, each a live change request
    of FleetMendBProofs; the state is in [LostB]), [lost_round_wait], [lost_detected(_within)].
    Part 5: the hypotheses are satisfiable: [lose] (remove replica data from a MendB state), [lost_restb_sound],
    [lost_hypsb_sound].
    Not covered: the rounds after the ADD has been scheduled (see props/C01.v). *)
From stdpp Require Import gmap list numbers sorting.
From Coq Require Import ZifyN ZifyNat ZifyBool Lia.
From Drummer.Model Require Import DB Sched Fleet FleetRun MailboxSpec FleetRounds.
From Drummer.Proofs Require Import DBProofs DBViewProofs DBTimeProofs SchedProofs SchedTotal SchedEligibleProofs MailboxProofs FleetProofs FleetLiveProofs FleetHealProofs FleetMendProofs FleetMendAProofs FleetMendBProofs.
Local Open Scope N_scope.
Notation hist_of := Fleet.hist_of.

Section WithLost.
(* the lost members: (shard, replica id) *)
Variable L : N → N → Prop.

Record MendL (Bx : N → request → Prop) (st : fstate) : Prop := mkMendL {
  ml_timeok : time_ok (f_db st);
  ml_time : 0 < d_tick (f_db st);
  ml_defined : ∀ s sd, d_shards (f_db st) !! s = Some sd → is_Some (f_hist st !! s) ∧ sd_members sd ≠ [] ∧ sd_app sd ≠ 0;
  ml_viewdef : ∀ s, is_Some (d_view (f_db st) !! s) → is_Some (d_shards (f_db st) !! s) ∧ is_Some (f_hist st !! s);
  ml_hosts : ∀ a fh, f_hosts st !! a = Some fh → fh_up fh = true ∧ fh_out fh = None;
  ml_kill : ∀ k, k ∈ d_kill (f_db st) → k_shard k ≠ 0 ∧ k_replica k ≠ 0 ∧ k_addr k ≠ 0;
  ml_boxes : ∀ a q, Bx a q → bq Bx (vready (f_db st)) (f_hosts st) (f_hist st) a q;
  ml_members : ∀ s h, f_hist st !! s = Some h →
    ∃ c, d_view (f_db st) !! s = Some c ∧ (s_cci c = cur_version h ∨ ∃ v M M' x rest, behind h c v M M' x rest) ∧
         ∀ rid a, cur_members h !! rid = Some a →
           rid ≠ 0 ∧ a ≠ 0 ∧ ∃ fh, f_hosts st !! a = Some fh ∧ (stamped (f_db st) s rid → is_Some (fh_reps fh !! (s, rid)) ∨ L s rid);
  ml_behind : ∀ s h c v M M' x rest, f_hist st !! s = Some h → d_view (f_db st) !! s = Some c → behind h c v M M' x rest →
    (∀ rid n, s_reps c !! rid = Some n → r_tick n ≠ 0) ∧
    (M !! x = None → ∀ a fh lr, f_hosts st !! a = Some fh → fh_reps fh !! (s, x) = Some lr → lr_running lr = false) ∧
    (∃ a fh rid lr, f_hosts st !! a = Some fh ∧ fh_reps fh !! (s, rid) = Some lr ∧ lr_running lr = true ∧ lr_ver lr = v + 1);
  ml_waiting : ∀ s c rid n, d_view (f_db st) !! s = Some c → s_reps c !! rid = Some n → r_tick n = 0 → r_first n ≠ 0;
  ml_onejoin : ∀ s c r1 r2 n1 n2, d_view (f_db st) !! s = Some c → s_reps c !! r1 = Some n1 → s_reps c !! r2 = Some n2 →
    r_tick n1 = 0 → r_tick n2 = 0 → r1 = r2;
  ml_home : ∀ a fh s rid lr h a', f_hosts st !! a = Some fh → fh_reps fh !! (s, rid) = Some lr →
    f_hist st !! s = Some h → cur_members h !! rid = Some a' → a' = a;
  ml_nostray : ∀ a fh s rid lr, f_hosts st !! a = Some fh → fh_reps fh !! (s, rid) = Some lr → lr_running lr = true →
    (∃ h, f_hist st !! s = Some h ∧ is_Some (cur_members h !! rid)) ∨ stray_ok (f_hist st) a s rid lr }.


Lemma ml_xb Bx d hosts hist seen extra :
  LI d hosts hist seen extra → MendL Bx (mkF d hosts hist seen) → XB Bx (vready d) (hosts, hist).
Proof.
  intros HI HP. split; cbn [fst snd].
  - split.
    + apply (ml_hosts _ _ HP).
    + intros s h rid a Hh Hm. destruct (ml_members _ _ HP s h Hh) as (c & _ & _ & Hmem). destruct (Hmem rid a Hm) as (_ & _ & fh & Hfh & _). by eexists.
    + apply (ml_home _ _ HP).
    + apply (ml_nostray _ _ HP).
    + intros a fh s rid lr h. apply (old_rep (mkF d hosts hist seen)). unfold LoopInv. cbn. eapply LI_shrink; [|exact HI]. intros q Hq. by apply elem_of_nil in Hq.
  - intros s h rid a Hh Hm. destruct (ml_members _ _ HP s h Hh) as (c & _ & _ & Hmem). destruct (Hmem rid a Hm) as (? & ? & _). done.
  - apply (ml_boxes _ _ HP).
Qed.

(** * one request, at the level of the class *)
Lemma ml_exec_req (Bx : N → request → Prop) d seen hosts hist h q qs x' :
  LI d hosts hist seen (q :: qs) → MendL Bx (mkF d hosts hist seen) → nocreate Bx (mkF d hosts hist seen) →
  Bx h q → is_Some (hosts !! h) → exec_req h true (hosts, hist) q = Some x' →
  MendL Bx (mkF d x'.1 x'.2 seen) ∧ nocreate Bx (mkF d x'.1 x'.2 seen).
Proof.
  intros HI HP Hnc HB Hh E.
  pose proof (exec_req_inv _ _ _ _ _ _ _ _ _ HI E) as HI'.
  pose proof (ml_xb Bx d hosts hist seen _ HI HP) as HX.
  destruct (bexec_one d seen Bx (vready d) h q qs (hosts, hist) x' HI HX HB Hh E) as (HX' & Hdm & Hrel). cbn [fst snd] in Hdm, Hrel.
  destruct (exec_req_keys h true (hosts, hist) q x' E) as [Hdom Hkeys]. cbn [fst snd] in Hdom, Hkeys.
  pose proof (xb_hm _ _ _ HX') as HH'. pose proof (xb_nz _ _ _ HX') as Hnz'.
  (* the shards: unchanged, or the shard of q with one entry appended *)
  assert (Hsh : ∀ s h', x'.2 !! s = Some h' →
     hist !! s = Some h' ∨
     (s = q_shard q ∧ ∃ (hs : list hentry) (e : hentry), hist !! s = Some hs ∧ hs ≠ [] ∧ h' = e :: hs ∧ x'.2 = <[s := e :: hs]> hist ∧ e.1 = cur_version hs + 1 ∧
        q_ccid q = cur_version hs ∧ lchange Bx hosts hist h q ∧ vready d q ∧
        ((is_add q = true ∧ ∃ xx t, q_members q = [xx] ∧ e.2 = <[xx := t]> (cur_members hs) ∧ cur_members hs !! xx = None) ∨
         (∃ y, e.2 = delete y (cur_members hs) ∧ is_Some (cur_members hs !! y))) ∧
        ∃ fh' rid lr, x'.1 !! h = Some fh' ∧ fh_reps fh' !! (s, rid) = Some lr ∧ lr_running lr = true ∧ lr_ver lr = e.1 ∧ is_Some (e.2 !! rid))).
  { intros s h' Hh'. destruct Hrel as [Heq|(hs & e & Hs & Hne & Heq & He & Hfq & Hl & HR & Hkind & Hknow)]; [left; by rewrite <- Heq|].
    destruct (decide (s = q_shard q)) as [->|Hns].
    - right. split; [done|]. exists hs, e. rewrite Heq, lookup_insert in Hh'. injection Hh' as <-. done.
    - left. rewrite Heq, lookup_insert_ne in Hh' by done. done. }
  assert (Hsh2 : ∀ s h0, hist !! s = Some h0 → is_Some (x'.2 !! s)).
  { intros s h0 Hh0. destruct Hrel as [->|(hs & e & Hs & Hne & -> & _)]; [by eexists|].
    destruct (decide (s = q_shard q)) as [->|Hns]; [rewrite lookup_insert; by eexists|rewrite lookup_insert_ne by done; by eexists]. }
  (* a live request that has been applied was behind nothing *)
  assert (Hcur : ∀ hs c, hist !! q_shard q = Some hs → q_ccid q = cur_version hs → vready d q → d_view d !! q_shard q = Some c →
            s_cci c = cur_version hs ∧ ∀ rid n, s_reps c !! rid = Some n → r_tick n ≠ 0).
  { intros hs c Hs Hfq (c0 & Hc0 & Hcc & Hst) Hc. assert (c0 = c) as -> by congruence. split; [congruence|done]. }
  split; [split; cbn [f_db f_hosts f_hist f_seen]|].
  - apply (ml_timeok _ _ HP).
  - apply (ml_time _ _ HP).
  - intros s sd Hsd. destruct (ml_defined _ _ HP s sd Hsd) as ([h0 Hh0] & ? & ?). split; [by apply (Hsh2 s h0)|done].
  - intros s Hv. destruct (ml_viewdef _ _ HP s Hv) as (? & [h0 Hh0]). split; [done|by apply (Hsh2 s h0)].
  - apply (hm_up _ _ HH').
  - apply (ml_kill _ _ HP).
  - apply (xb_b _ _ _ HX').
  - (* members *)
    intros s h' Hh'. destruct (Hsh s h' Hh') as [Hold|(-> & hs & e & Hs & Hne & -> & Hx2 & He & Hfq & Hl & HR & Hkind & Hknow)].
    + destruct (ml_members _ _ HP s h' Hold) as (c & Hc & Hcase & Hmem). cbn [f_db f_hosts f_hist] in Hc, Hcase, Hmem.
      exists c. split; [done|]. split; [done|]. intros rid a Hm. destruct (Hmem rid a Hm) as (Hr0 & Ha0 & fh & Hfh & Hdata).
      split; [done|]. split; [done|]. destruct (proj2 (Hdom a) ltac:(by eexists)) as [fh' Hfh']. exists fh'. split; [done|].
      intros Hst. destruct (Hdata Hst) as [Hd|Hlost]; [|by right]. left.
      destruct (Hdm a fh (s, rid) Hfh Hd) as (fh2 & Hfh2 & Hk2); [exists h'; cbn; split; [done|by eexists]|]. congruence.
    + destruct (ml_members _ _ HP (q_shard q) hs Hs) as (c & Hc & _ & Hmem). cbn [f_db f_hosts f_hist] in Hc, Hmem.
      destruct (Hcur hs c Hs Hfq HR Hc) as [Hcc Hstamped].
      exists c. split; [done|]. split.
      { right. destruct hs as [|[v M] rest]; [done|]. destruct e as [ev eM]. cbn [fst snd cur_version cur_members] in *.
        destruct Hkind as [(_ & xx & t & _ & -> & Hnx)|(y & -> & Hy)].
        - exists v, M, (<[xx := t]> M), xx, rest. split; [by rewrite He|]. split; [done|]. left. split; [done|]. by exists t.
        - exists v, M, (delete y M), y, rest. split; [by rewrite He|]. split; [done|]. by right. }
      intros rid a Hm. destruct (Hnz' (q_shard q) (e :: hs) rid a Hh' Hm) as [Hr0 Ha0]. split; [done|]. split; [done|].
      destruct (hm_hosts _ _ HH' (q_shard q) (e :: hs) rid a Hh' Hm) as [fh' Hfh']. exists fh'. split; [done|].
      intros Hst.
      (* a stamped member is a member of the membership the view shows: the old one *)
      assert (Hview : r_addr <$> s_reps c = cur_members hs).
      { destruct (li_view _ _ _ _ _ HI (q_shard q) c Hc) as (_ & HHv & _). unfold Hf in HHv.
        assert (Hho : Fleet.hist_of hist (q_shard q) = hs) by (unfold Fleet.hist_of; by rewrite Hs). rewrite Hho in HHv.
        rewrite Hcc in HHv. destruct hs as [|[v M] rest]; [done|]. cbn in HHv |- *. rewrite N.eqb_refl in HHv. by injection HHv as <-. }
      destruct Hst as (n & Hrec & Hnzt). pose proof Hrec as Hrec0. apply rec_of_Some in Hrec as (c0 & Hc0 & Hn). cbn [f_db] in Hc0. assert (c0 = c) as -> by congruence.
      assert (Hold : cur_members hs !! rid = Some (r_addr n)) by (rewrite <- Hview, lookup_fmap, Hn; done).
      cbn [cur_members snd] in Hm.
      assert (Ha : a = r_addr n).
      { destruct Hkind as [(_ & xx & t & _ & Hee & Hnx)|(y & Hee & Hy)]; rewrite Hee in Hm.
        - assert (rid ≠ xx) by (intros ->; congruence). rewrite lookup_insert_ne in Hm by done. congruence.
        - apply lookup_delete_Some in Hm as [_ Hm]. congruence. }
      subst a. destruct (Hmem rid (r_addr n) Hold) as (_ & _ & fh & Hfh & Hdata).
      destruct (Hdata ltac:(exists n; done)) as [Hd|Hlost]; [|by right]. left.
      destruct (Hdm (r_addr n) fh (q_shard q, rid) Hfh Hd) as (fh2 & Hfh2 & Hk2).
      { exists (e :: hs). cbn. split; [done|]. by eexists. }
      congruence.
  - (* behind *)
    intros s h' c v M M' x rest Hh' Hc Hb. cbn [f_db] in Hc.
    destruct (Hsh s h' Hh') as [Hold|(-> & hs & e & Hs & Hne & -> & Hx2 & He & Hfq & Hl & HR & Hkind & Hknow)].
    + destruct (ml_behind _ _ HP s h' c v M M' x rest Hold Hc Hb) as (Hst & Hxrun & a0 & fh0 & rid0 & lr0 & Hfh0 & Hk0 & Hrun0 & Hver0).
      cbn [f_db f_hosts f_hist] in Hst, Hxrun, Hfh0.
      assert (Hnoc : is_create q = true → q_shard q ≠ s) by (intros Hcq; by apply (proj2 (Hnc s h' c v M M' x rest Hold Hc Hb) h q HB Hcq)).
      assert (Hsame : x'.2 !! s = hist !! s) by congruence.
      split; [done|]. split.
      * intros HMx a fh' lr' Hfh' Hk' . destruct (lr_running lr') eqn:Er; [|done]. exfalso.
        destruct (exec_req_started h true (hosts, hist) q x' a fh' (s, x) lr' E Hfh' Hk' Er) as [(fh & lr & Hfh & Hk & Hr)|[Hcq Heq]].
        -- cbn [fst] in Hfh. rewrite (Hxrun HMx a fh lr Hfh Hk) in Hr. done.
        -- injection Heq as Heq _. by apply (Hnoc Hcq).
      * (* the replica that knows the new version is a member, nothing touches it *)
        assert (Hmem0 : ∃ b, M' !! rid0 = Some b).
        { destruct (ml_nostray _ _ HP a0 fh0 s rid0 lr0 Hfh0 Hk0 Hrun0) as [(h1 & Hh1 & [b Hb1])|(h1 & Hh1 & _ & Hlt & _)];
            cbn [f_hist] in Hh1; assert (h1 = h') as -> by congruence; destruct Hb as (-> & _); cbn in *; [by exists b|lia]. }
        destruct (exec_req_keep h (hosts, hist) q x' a0 fh0 (s, rid0) lr0 E Hfh0 Hk0 Hrun0 Hsame) as (fh1 & Hfh1 & Hk1).
        { intros Hkq y ms Hy Heq. injection Heq as Hsq <-.
          destruct (ml_boxes _ _ HP h q HB) as [[[[Hg|[(Hch & _)|(_ & y' & Hy' & Hd)]]|[(Hcr & _)|(Hres & _)]] _]|[(Hch & _) _]].
          - destruct Hg as (Hres & _). unfold is_restore, is_create in Hres. unfold is_kill in Hkq. by destruct (q_type q).
          - unfold is_change, is_add, is_delete in Hch. unfold is_kill in Hkq. by destruct (q_type q).
          - cbn [f_hist] in Hd. rewrite Hsq in Hd. specialize (Hd h' Hold). assert (y' = y) as -> by congruence.
            destruct Hmem0 as [b Hb0]. destruct Hb as (-> & _). cbn in Hd. apply is_member_false in Hd. congruence.
          - unfold is_create in Hcr. unfold is_kill in Hkq. by destruct (q_type q).
          - unfold is_restore, is_create in Hres. unfold is_kill in Hkq. by destruct (q_type q).
          - unfold is_change, is_add, is_delete in Hch. unfold is_kill in Hkq. by destruct (q_type q). }
        exists a0, fh1, rid0, lr0. done.
    + (* the shard whose history has just grown *)
      destruct (ml_members _ _ HP (q_shard q) hs Hs) as (c0 & Hc0 & _). cbn [f_db] in Hc0. assert (c0 = c) as -> by congruence.
      destruct (Hcur hs c Hs Hfq HR Hc) as [Hcc Hstamped].
      destruct Hb as (Hhh & Hv & Hkb). destruct hs as [|[v0 M0] rest0]; [done|]. destruct e as [ev eM]. injection Hhh as -> -> -> -> ->.
      cbn [cur_version cur_members fst snd] in *.
      split; [done|]. split.
      * intros HMx a fh' lr' Hfh' Hk'. exfalso.
        destruct Hkind as [(Hia & xx & t & Hmm & Hee & Hnx)|(y & Hee & Hy)].
        -- (* x is the added id: it has no data *)
           assert (x = xx) as ->.
           { destruct Hkb as [[_ [t' HM']]|[[? HMx'] _]]; [|congruence]. rewrite Hee in HM'.
             destruct (decide (x = xx)) as [?|Hne']; [done|]. exfalso.
             assert (Hl1 : <[xx := t]> M !! x = None) by (by rewrite lookup_insert_ne).
             rewrite HM', lookup_insert in Hl1. done. }
           destruct Hl as (_ & _ & _ & _ & Hadd & _). destruct (Hadd Hia) as (x0 & t0 & Hm0 & _ & _ & _ & _ & _ & _ & Hnodata).
           assert (x0 = xx) as -> by congruence.
           destruct (Hkeys a fh' (q_shard q, xx) Hfh' ltac:(by eexists)) as [(fh0 & Hfh0 & [lr0 Hk0])|[Hcq _]].
           ++ by rewrite (Hnodata a fh0 Hfh0) in Hk0.
           ++ unfold is_add in Hia. unfold is_create in Hcq. by destruct (q_type q).
        -- destruct Hkb as [[HMn [t' HM']]|[[? HMx'] _]]; [|congruence]. rewrite Hee in HM'.
           assert (Hl1 : delete y M !! x = Some t') by (rewrite HM'; by rewrite lookup_insert).
           apply lookup_delete_Some in Hl1 as [_ Hl1]. congruence.
      * destruct Hknow as (fh' & rid & lr & Hfh' & Hk' & Hr' & Hv' & _). exists h, fh', rid, lr. split; [done|]. split; [done|]. split; [done|]. lia.
  - apply (ml_waiting _ _ HP).
  - apply (ml_onejoin _ _ HP).
  - apply (hm_home _ _ HH').
  - apply (hm_nostray _ _ HH').
  - (* nocreate *)
    intros s h' c v M M' x rest Hh' Hc Hb. cbn [f_hist f_db] in Hh', Hc.
    destruct (Hsh s h' Hh') as [Hold|(-> & hs & e & Hs & Hne & -> & Hx2 & He & Hfq & Hl & HR & Hkind & Hknow)].
    + by apply (Hnc s h' c v M M' x rest Hold Hc Hb).
    + destruct Hl as (_ & _ & [_ Hsnz] & HBc & _). split; [done|]. intros a0 q0. by apply (HBc a0 q0).
Qed.


(** * a NodeHost executes its queue *)
Lemma ml_exec_all (Bx : N → request → Prop) d seen h qs : ∀ hosts hist x',
  LI d hosts hist seen qs → MendL Bx (mkF d hosts hist seen) → nocreate Bx (mkF d hosts hist seen) →
  (∀ q, q ∈ qs → Bx h q) → is_Some (hosts !! h) → exec_all h true (hosts, hist) qs = Some x' →
  LI d x'.1 x'.2 seen [] ∧ MendL Bx (mkF d x'.1 x'.2 seen) ∧ nocreate Bx (mkF d x'.1 x'.2 seen).
Proof.
  induction qs as [|q qs IH]; intros hosts hist x' HI HP Hnc HB Hh E; cbn [exec_all] in E.
  - by injection E as <-.
  - destruct (exec_req h true (hosts, hist) q) as [[hosts1 hist1]|] eqn:E1; [|done].
    destruct (ml_exec_req Bx d seen hosts hist h q qs _ HI HP Hnc (HB q ltac:(left)) Hh E1) as [HP1 Hnc1]. cbn [fst snd] in HP1, Hnc1.
    apply (IH hosts1 hist1 x'); [|done|done| | |done].
    + apply (exec_req_inv _ _ _ _ _ _ _ _ _ HI E1).
    + intros q0 Hq0. apply HB. by right.
    + destruct (exec_req_keys h true (hosts, hist) q _ E1) as [Hdom _]. by apply Hdom.
Qed.

(* weakening: fewer pending requests; NodeHost records that differ in the queue only *)

Lemma ml_shrink (B B' : N → request → Prop) st : (∀ a q, B' a q → B a q) → MendL B st → MendL B' st.
Proof.
  intros Hsub HP. destruct HP. split; try done.
  intros a q HB'. destruct (ml_boxes0 a q (Hsub a q HB')) as [?|[Hl HR]]; [by left|right]. split; [|done]. by apply (lchange_shrink B).
Qed.


Lemma ml_same_reps (B : N → request → Prop) d hosts hosts' hist seen :
  (∀ b, match hosts !! b with
        | Some fh => ∃ fh', hosts' !! b = Some fh' ∧ fh_reps fh' = fh_reps fh ∧ fh_up fh' = true ∧ fh_out fh' = None
        | None => hosts' !! b = None end) →
  MendL B (mkF d hosts hist seen) → MendL B (mkF d hosts' hist seen).
Proof.
  intros Hs HP.
  assert (Hto : ∀ b fh, hosts !! b = Some fh → ∃ fh', hosts' !! b = Some fh' ∧ fh_reps fh' = fh_reps fh).
  { intros b fh Hb. specialize (Hs b). rewrite Hb in Hs. destruct Hs as (fh' & ? & ? & _). by exists fh'. }
  assert (Hfrom : ∀ b fh', hosts' !! b = Some fh' → ∃ fh, hosts !! b = Some fh ∧ fh_reps fh' = fh_reps fh ∧ fh_up fh' = true ∧ fh_out fh' = None).
  { intros b fh' Hb. specialize (Hs b). destruct (hosts !! b) as [fh|]; [|congruence]. destruct Hs as (fh2 & H2 & ? & ? & ?).
    assert (fh2 = fh') as -> by congruence. by exists fh. }
  destruct HP. split; cbn [f_db f_hosts f_hist f_seen] in *; try done.
  - intros b fh' Hb. destruct (Hfrom b fh' Hb) as (_ & _ & _ & ? & ?). done.
  - intros a q HB. destruct (ml_boxes0 a q HB) as [?|[Hl HR]]; [by left|right]. split; [|done].
    apply (lchange_frame B hosts hosts' hist hist); [done| | |done].
    + intros a0 [fh0 H0]. destruct (Hto a0 fh0 H0) as (fh' & -> & _). by eexists.
    + intros a0 fh' k H0 Hk _. destruct (Hfrom a0 fh' H0) as (fh & Hfh & Hr & _). exists fh. by rewrite <- Hr.
  - intros s h Hh. destruct (ml_members0 s h Hh) as (c & Hc & Hcase & Hmem). exists c. split; [done|]. split; [done|].
    intros rid a Hm. destruct (Hmem rid a Hm) as (? & ? & fh & Hfh & Hdata). split; [done|]. split; [done|].
    destruct (Hto a fh Hfh) as (fh' & Hfh' & Hr). exists fh'. split; [done|]. by rewrite Hr.
  - intros s h c v M M' x rest Hh Hc Hb. destruct (ml_behind0 s h c v M M' x rest Hh Hc Hb) as (H1 & H2 & a0 & fh0 & rid & lr & H3 & H4 & H5).
    split; [done|]. split.
    + intros HMx a fh' lr' Ha Hk. destruct (Hfrom a fh' Ha) as (fh & Hfh & Hr & _). rewrite Hr in Hk. by apply (H2 HMx a fh lr').
    + destruct (Hto a0 fh0 H3) as (fh' & Hfh' & Hr). exists a0, fh', rid, lr. rewrite Hr. done.
  - intros a fh' s rid lr h a' Ha Hk. destruct (Hfrom a fh' Ha) as (fh & Hfh & Hr & _). rewrite Hr in Hk. by apply (ml_home0 a fh s rid lr h a').
  - intros a fh' s rid lr Ha Hk. destruct (Hfrom a fh' Ha) as (fh & Hfh & Hr & _). rewrite Hr in Hk. by apply (ml_nostray0 a fh s rid lr).
Qed.


Definition LostB (st : fstate) : Prop := LoopInv st ∧ MendL (nonout st) st ∧ out_hosts st.
Definition LostX (st : fstate) : Prop := LostB st ∧ nocreate (nonout st) st.

Section LostS.
Variable P : params.

Lemma lostx_exec st a st' :
  LostX st → fstep P st (EExec a true) = FOk st' →
  LostX st' ∧ f_db st' = f_db st ∧
  (∀ b, match f_hosts st !! b with
        | Some fh => ∃ fh', f_hosts st' !! b = Some fh' ∧ fh_queue fh' = (if decide (b = a) then [] else fh_queue fh)
        | None => f_hosts st' !! b = None end).
Proof.
  destruct st as [d hosts hist seen]. intros [(HI & HP & Hoh) Hnc]. cbn [fstep f_db f_hosts f_hist f_seen].
  destruct (hosts !! a) as [fh|] eqn:Ha; [|done]. destruct (ml_hosts _ _ HP a fh Ha) as [Hup Hout]. cbn [f_hosts] in Hup. rewrite Hup.
  set (hosts0 := <[a := mkFHost true (fh_region fh) (fh_reps fh) [] (fh_out fh)]> hosts).
  destruct (exec_all a true (hosts0, hist) (fh_queue fh)) as [x|] eqn:Ex; [|done]. intros [= <-].
  set (st := mkF d hosts hist seen) in *.
  pose proof (exec_start st a fh HI Ha) as HI0. cbn [f_db f_hosts f_hist f_seen st] in HI0. fold hosts0 in HI0.
  assert (HP0 : MendL (nonout st) (mkF d hosts0 hist seen)).
  { apply (ml_same_reps _ d hosts hosts0 hist seen); [|exact HP]. intros b. unfold hosts0. destruct (decide (b = a)) as [->|Hne].
    - rewrite Ha, lookup_insert. eexists. split; [done|]. cbn. done.
    - rewrite lookup_insert_ne by done. destruct (hosts !! b) as [fhb|] eqn:Hb; [|done]. exists fhb. split; [done|]. split; [done|].
      apply (ml_hosts _ _ HP b fhb Hb). }
  destruct (ml_exec_all (nonout st) d seen a (fh_queue fh) hosts0 hist x HI0 HP0 Hnc) as (HI' & HP' & Hnc'); [| |done|].
  { intros q Hq. right. exists fh. done. }
  { unfold hosts0. rewrite lookup_insert. by eexists. }
  pose proof (exec_all_frame a true (fh_queue fh) (hosts0, hist) x Ex) as Hfr. cbn [fst] in Hfr.
  assert (Hq : ∀ b, match hosts !! b with
        | Some fhb => ∃ fh', x.1 !! b = Some fh' ∧ fh_queue fh' = (if decide (b = a) then [] else fh_queue fhb)
        | None => x.1 !! b = None end).
  { intros b. specialize (Hfr b). unfold hosts0 in Hfr. destruct (decide (b = a)) as [->|Hne].
    - rewrite lookup_insert in Hfr. rewrite Ha. destruct Hfr as (fh2 & Hfh2 & Hq2 & _). by exists fh2.
    - rewrite lookup_insert_ne in Hfr by done. destruct (hosts !! b) as [fhb|]; [|done]. destruct Hfr as (fh2 & Hfh2 & Hq2 & _). by exists fh2. }
  assert (Hsub : ∀ b q, nonout (mkF d x.1 x.2 seen) b q → nonout st b q).
  { intros b q [Hq0|(fh' & Hb & Hin)]; [by left|]. cbn [f_hosts] in Hb. specialize (Hq b).
    destruct (hosts !! b) as [fhb|] eqn:Hbb; [|congruence]. destruct Hq as (fh2 & Hfh2 & Hq2). assert (fh2 = fh') as -> by congruence.
    rewrite Hq2 in Hin. destruct (decide (b = a)); [by apply elem_of_nil in Hin|]. right. by exists fhb. }
  split; [|split; [done|exact Hq]]. split; [split; [|split]|].
  - exact HI'.
  - by apply (ml_shrink (nonout st)).
  - intros b Hb. specialize (Hq b). cbn [f_hosts]. destruct (Hoh b Hb) as [fhb Hfhb]. cbn [st f_hosts] in Hfhb. rewrite Hfhb in Hq.
    destruct Hq as (fh2 & -> & _). by eexists.
  - by apply (nocreate_shrink (nonout st)).
Qed.

Lemma lostx_tick st st' :
  LostX st → fstep P st ETick = FOk st' →
  LostX st' ∧ f_db st' = set_tick (f_db st) (d_tick (f_db st) + p_step P) ∧ f_hosts st' = f_hosts st ∧ f_hist st' = f_hist st.
Proof.
  intros [(HI & HP & Hoh) Hnc] E. pose proof (step_tick P st st' HI E) as HI'. pose proof (fstep_time_ok P st ETick st' E (ml_timeok _ _ HP)) as Hto.
  cbn [fstep] in E. unfold db_step in E. rewrite (li_failed _ _ _ _ _ HI) in E. unfold apply_tick in E.
  cbn [d_deadline set_tick] in E. rewrite (li_deadline _ _ _ _ _ HI) in E. cbn [N.ltb andb] in E. injection E as <-.
  split; [|done]. split; [split; [exact HI'|split]|].
  - destruct HP. split; cbn [set_db f_db f_hosts f_hist f_seen] in *; try done. cbn. lia.
  - exact Hoh.
  - exact Hnc.
Qed.

Lemma lostx_learn st a s r v st' :
  LostX st → is_Some (cur_members (hist_of (f_hist st) s) !! r) → fstep P st (ELearn a s r v) = FOk st' →
  LostX st' ∧ f_db st' = f_db st ∧ f_hist st' = f_hist st ∧
  (∀ b, match f_hosts st !! b with
        | Some fhb => ∃ fh', f_hosts st' !! b = Some fh' ∧ fh_queue fh' = fh_queue fhb
        | None => f_hosts st' !! b = None end).
Proof.
  intros [(HI & HP & Hoh) Hnc] Hmem E. pose proof (step_inv P st (ELearn a s r v) st' HI I E) as HI'.
  destruct st as [d hosts hist seen]. cbn [fstep f_db f_hosts f_hist f_seen] in *.
  destruct (hosts !! a) as [fh|] eqn:Ha; [|done]. destruct (fh_reps fh !! (s, r)) as [lr|] eqn:Ek; [|done].
  destruct (fh_up fh && lr_running lr && (lr_ver lr <? v) && _) eqn:Econd; [|done]. injection E as <-.
  apply andb_true_iff in Econd as [Econd Hent]. apply andb_true_iff in Econd as [Econd Hlt]. apply andb_true_iff in Econd as [Hup Hrun].
  apply bool_decide_eq_true in Hent. apply N.ltb_lt in Hlt.
  unfold hist_of in Hmem, Hent. destruct (hist !! s) as [h|] eqn:Hh; [|by destruct Hmem]. cbn [default from_option id] in Hmem, Hent.
  pose proof (li_hist _ _ _ _ _ HI s h Hh) as Hw. cbn in Hw.
  assert (Hrem : removed_at (hist_of hist s) r v = false).
  { unfold hist_of. rewrite Hh. cbn [default from_option id]. by apply (member_not_removed_wf _ h r v Hw). }
  assert (Hvle : v ≤ cur_version h).
  { destruct Hent as [Mv Hent]. apply entry_at_Some in Hent. apply (hist_wf_le _ _ Hw _ Hent). }
  unfold set_host in *. cbn [f_db f_hosts f_hist f_seen] in *. rewrite Hrem in *. cbn [negb] in *.
  set (reps' := <[(s, r) := mkLRep true v]> (fh_reps fh)) in *.
  set (fh' := mkFHost true (fh_region fh) reps' (fh_queue fh) (fh_out fh)) in *.
  set (st := mkF d hosts hist seen). set (st' := mkF d (<[a := fh']> hosts) hist seen).
  assert (Hl' : ∀ b fhb', <[a := fh']> hosts !! b = Some fhb' → (b = a ∧ fhb' = fh') ∨ (b ≠ a ∧ hosts !! b = Some fhb')).
  { intros b fhb'. destruct (decide (b = a)) as [->|Hne]; [rewrite lookup_insert; intros [= <-]; by left|rewrite lookup_insert_ne by done; by right]. }
  assert (Hkeys : ∀ k, is_Some (reps' !! k) ↔ is_Some (fh_reps fh !! k)).
  { intros k. unfold reps'. destruct (decide (k = (s, r))) as [->|Hne]; [rewrite lookup_insert, Ek; split; intros _; by eexists|by rewrite lookup_insert_ne]. }
  assert (Hsub : ∀ b q, nonout st' b q → nonout st b q).
  { intros b q [Hq|(fhb' & Hb & Hin)]; [by left|]. right. cbn [st' f_hosts] in Hb.
    destruct (Hl' b fhb' Hb) as [[-> ->]|[Hne Hb0]]; [exists fh; done|by exists fhb']. }
  split; [|split; [done|split; [done|]]].
  2:{ intros b. cbn [f_hosts]. destruct (decide (b = a)) as [->|Hne]; [rewrite Ha, lookup_insert; by eexists|].
      rewrite lookup_insert_ne by done. destruct (hosts !! b) as [fhb|]; [by exists fhb|done]. }
  split; [split; [exact HI'|split]|by apply (nocreate_shrink (nonout st))].
  2:{ intros b Hb. destruct (Hoh b Hb) as [fhb Hfhb]. cbn [st' f_hosts f_db] in *.
      destruct (decide (b = a)) as [->|Hne]; [rewrite lookup_insert; by eexists|rewrite lookup_insert_ne by done; by eexists]. }
  apply (ml_shrink (nonout st)); [exact Hsub|].
  destruct (ml_hosts _ _ HP a fh Ha) as [_ Hout]. cbn [f_hosts] in Hout.
  destruct HP. split; cbn [st' f_db f_hosts f_hist f_seen] in *; try done.
  - intros b fhb' Hb. destruct (Hl' b fhb' Hb) as [[-> ->]|[Hne Hb0]]; [done|by apply (ml_hosts0 b)].
  - intros b q HB. destruct (ml_boxes0 b q HB) as [?|[Hl HR]]; [by left|right]. split; [|done].
    apply (lchange_frame _ hosts _ hist hist); [done| | |done].
    + intros a0 [fh0 H0]. destruct (decide (a0 = a)) as [->|Hne]; [rewrite lookup_insert; by eexists|rewrite lookup_insert_ne by done; by eexists].
    + intros a0 fhb' k H0 Hk _. destruct (Hl' a0 fhb' H0) as [[-> ->]|[Hne Hb0]]; [exists fh; split; [done|]; by apply Hkeys|by exists fhb'].
  - intros s0 h0 Hh0. destruct (ml_members0 s0 h0 Hh0) as (c & Hc & Hcase & Hm0). exists c. split; [done|]. split; [done|].
    intros rid b Hm. destruct (Hm0 rid b Hm) as (? & ? & fhb & Hfhb & Hdata). split; [done|]. split; [done|].
    destruct (decide (b = a)) as [->|Hne].
    + rewrite lookup_insert. exists fh'. split; [done|]. intros Hst. assert (fhb = fh) as -> by congruence. destruct (Hdata Hst) as [Hd|?]; [left; by apply Hkeys|by right].
    + rewrite lookup_insert_ne by done. by exists fhb.
  - intros s0 h0 c v0 M M' x rest Hh0 Hc Hb. destruct (ml_behind0 s0 h0 c v0 M M' x rest Hh0 Hc Hb) as (H1 & H2 & a0 & fh0 & rid & lr0 & H3 & H4 & H5 & H6).
    split; [done|]. split.
    + intros HMx b fhb' lr' Hb' Hk'. destruct (Hl' b fhb' Hb') as [[-> ->]|[Hne Hb0]]; [|by apply (H2 HMx b fhb' lr')].
      cbn [fh' fh_reps] in Hk'. unfold reps' in Hk'. destruct (decide ((s0, x) = (s, r))) as [Heq|Hne].
      * injection Heq as -> ->. rewrite (H2 HMx a fh lr Ha Ek) in Hrun. done.
      * rewrite lookup_insert_ne in Hk' by done. by apply (H2 HMx a fh lr').
    + destruct (decide (a0 = a ∧ (s0, rid) = (s, r))) as [[-> Heq]|Hne].
      * exfalso. injection Heq as -> ->. assert (fh0 = fh) as -> by congruence. assert (lr0 = lr) as -> by congruence.
        assert (h0 = h) as -> by congruence. destruct Hb as (-> & _). cbn in Hvle. lia.
      * destruct (decide (a0 = a)) as [->|Hna].
        -- assert (fh0 = fh) as -> by congruence. exists a, fh', rid, lr0. rewrite lookup_insert. split; [done|]. cbn [fh' fh_reps]. unfold reps'.
           rewrite lookup_insert_ne; [done|]. intros Heq. apply Hne. done.
        -- exists a0, fh0, rid, lr0. rewrite lookup_insert_ne by done. done.
  - intros b fhb' s0 rid lr0 h0 a' Hb' Hk'. destruct (Hl' b fhb' Hb') as [[-> ->]|[Hne Hb0]]; [|by apply (ml_home0 b fhb' s0 rid lr0 h0 a')].
    cbn [fh' fh_reps] in Hk'. assert (is_Some (fh_reps fh !! (s0, rid))) as [lr1 Hk1] by (apply Hkeys; by eexists).
    by apply (ml_home0 a fh s0 rid lr1 h0 a').
  - intros b fhb' s0 rid lr0 Hb' Hk' Hr'. destruct (Hl' b fhb' Hb') as [[-> ->]|[Hne Hb0]]; [|by apply (ml_nostray0 b fhb' s0 rid lr0)].
    cbn [fh' fh_reps] in Hk'. unfold reps' in Hk'. destruct (decide ((s0, rid) = (s, r))) as [Heq|Hne].
    + injection Heq as -> ->. left. by exists h.
    + rewrite lookup_insert_ne in Hk' by done. by apply (ml_nostray0 a fh s0 rid lr0).
Qed.
(* at most one replica of a shard runs on a NodeHost *)
Lemma lostb_one_running st a fh s r1 r2 l1 l2 :
  LoopInv st → MendL (nonout st) st → f_hosts st !! a = Some fh → fh_reps fh !! (s, r1) = Some l1 → fh_reps fh !! (s, r2) = Some l2 →
  lr_running l1 = true → lr_running l2 = true →
  (∀ h, f_hist st !! s = Some h → cur_version h ≤ lr_ver l1 ∧ cur_version h ≤ lr_ver l2) → r1 = r2.
Proof.
  intros HI HA Ha H1 H2 R1 R2 Hvers.
  destruct (ml_nostray _ _ HA a fh s r1 l1 Ha H1 R1) as [(h & Hh & [a1 Hm1])|(h & Hh & _ & Hlt & _)]; [|destruct (Hvers h Hh); lia].
  destruct (ml_nostray _ _ HA a fh s r2 l2 Ha H2 R2) as [(h' & Hh' & [a2 Hm2])|(h' & Hh' & _ & Hlt & _)]; [|destruct (Hvers h' Hh'); lia].
  assert (h' = h) as -> by congruence.
  pose proof (ml_home _ _ HA a fh s r1 l1 h a1 Ha H1 Hh Hm1) as ->. pose proof (ml_home _ _ HA a fh s r2 l2 h a2 Ha H2 Hh Hm2) as ->.
  destruct (cur_entry_at _ _ _ HI Hh) as [_ Hcurin].
  destruct (hist_wf_mem_ok _ _ (li_hist _ _ _ _ _ HI _ _ Hh) _ Hcurin) as [_ Hinj]. cbn [snd] in Hinj. eauto.
Qed.


(* the entries of a report: which are complete *)
Lemma lostb_info_complete st a fh plog ci :
  LoopInv st → MendL (nonout st) st → f_hosts st !! a = Some fh → ci ∈ rp_infos (host_report (f_db st) (f_hist st) a fh plog) → complete ci = true →
  ∃ rid lr h c v M M' x rest, fh_reps fh !! (si_shard ci, rid) = Some lr ∧ lr_running lr = true ∧ si_replica ci = rid ∧
    f_hist st !! si_shard ci = Some h ∧ d_view (f_db st) !! si_shard ci = Some c ∧ behind h c v M M' x rest ∧
    lr_ver lr = v + 1 ∧ si_cci ci = v + 1.
Proof.
  intros HI HA Ha Hci Hcomp. unfold host_report in Hci. cbn [rp_infos] in Hci.
  apply elem_of_list_fmap in Hci as ([[s rid] lr] & -> & Hin). apply elem_of_list_filter in Hin as [Hrun Hin].
  apply sorted_reps_elem in Hin. cbn in Hrun, Hin.
  assert (∃ h, f_hist st !! s = Some h) as [h Hh].
  { destruct (ml_nostray _ _ HA _ _ _ _ _ Ha Hin Hrun) as [(h & Hh & _)|(h & Hh & _)]; by exists h. }
  destruct (ml_members _ _ HA _ _ Hh) as (c & Hc & Hcase & _).
  pose proof (rep_ver_le st a fh s rid lr h HI Ha Hin Hh) as Hle.
  unfold rep_info, complete in Hcomp |- *. cbn [fst snd] in Hcomp |- *. destruct (lr_ver lr =? 0) eqn:Ez; [done|].
  cbn [si_shard si_replica si_cci]. unfold view_vers in Hcomp. rewrite lookup_fmap, Hc in Hcomp. cbn in Hcomp.
  destruct (lr_ver lr <=? s_cci c) eqn:Ele; [done|]. apply N.leb_gt in Ele.
  destruct Hcase as [Hcc|(v & M & M' & x & rest & Hb)]; [lia|].
  exists rid, lr, h, c, v, M, M', x, rest. pose proof Hb as (Hhh & Hv & _). rewrite Hhh in Hle. cbn in Hle.
  repeat (split; [done|]). split; lia.
Qed.

Lemma lostb_n_complete st a fh plog s :
  LoopInv st → MendL (nonout st) st → f_hosts st !! a = Some fh → (n_complete s (rp_infos (host_report (f_db st) (f_hist st) a fh plog)) ≤ 1)%nat.
Proof.
  intros HI HA Ha. unfold n_complete.
  set (l := filter (λ ci, complete_for s ci = true) (rp_infos (host_report (f_db st) (f_hist st) a fh plog))).
  destruct l as [|c1 [|c2 l']] eqn:El; cbn [length]; [lia|lia|]. exfalso.
  assert (Hnd : NoDup l).
  { unfold l. apply NoDup_filter. unfold host_report. cbn [rp_infos]. apply NoDup_fmap_2_strong.
    - intros [k1 l1] [k2 l2] H1 H2 Heq. apply elem_of_list_filter in H1 as [_ H1]. apply elem_of_list_filter in H2 as [_ H2].
      apply sorted_reps_elem in H1, H2. cbn in H1, H2.
      assert (k1 = k2) as ->.
      { destruct k1 as [s1 r1], k2 as [s2 r2]. unfold rep_info in Heq. cbn [fst snd] in Heq.
        destruct (lr_ver l1 =? 0), (lr_ver l2 =? 0); by injection Heq as -> ->. }
      congruence.
    - apply NoDup_filter. unfold sorted_reps. rewrite merge_sort_Permutation. apply NoDup_map_to_list. }
  assert (Hall : ∀ ci, ci ∈ l → ∃ rid lr, fh_reps fh !! (s, rid) = Some lr ∧ lr_running lr = true ∧
            ci = rep_info (view_vers (f_db st)) (f_hist st) (s, rid) lr ∧
            ∀ h, f_hist st !! s = Some h → cur_version h ≤ lr_ver lr).
  { intros ci Hci. unfold l in Hci. apply elem_of_list_filter in Hci as [Hcf Hci].
    unfold complete_for in Hcf. apply andb_true_iff in Hcf as [Hcf Hcomp]. apply andb_true_iff in Hcf as [Hs Hpend]. apply N.eqb_eq in Hs.
    assert (Hcomp' : complete ci = true) by (unfold complete; by rewrite Hpend, Hcomp).
    destruct (lostb_info_complete st a fh plog ci HI HA Ha Hci Hcomp') as (rid0 & lr0 & h0 & c0 & v0 & M0 & M0' & x0 & rest0 & Hk0 & Hr0 & Hrid0 & Hh0 & _ & Hb0 & Hv0 & _).
    unfold host_report in Hci. cbn [rp_infos] in Hci.
    apply elem_of_list_fmap in Hci as ([[s0 rid] lr] & -> & Hin). apply elem_of_list_filter in Hin as [Hrun Hin].
    apply sorted_reps_elem in Hin. cbn in Hrun, Hin.
    assert (s0 = s) as -> by (unfold rep_info in Hs; cbn [fst snd] in Hs; by destruct (lr_ver lr =? 0)).
    assert (Hsi : si_shard (rep_info (view_vers (f_db st)) (f_hist st) (s, rid) lr) = s) by (unfold rep_info; by destruct (lr_ver lr =? 0)).
    assert (Hri : si_replica (rep_info (view_vers (f_db st)) (f_hist st) (s, rid) lr) = rid) by (unfold rep_info; by destruct (lr_ver lr =? 0)).
    cbn [fst snd] in Hk0, Hrid0, Hh0. rewrite Hsi in Hk0, Hh0. rewrite Hri in Hrid0. subst rid0.
    assert (lr0 = lr) as -> by congruence.
    exists rid, lr. split; [done|]. split; [done|]. split; [done|]. intros h Hh. assert (h = h0) as -> by congruence.
    destruct Hb0 as (-> & _). cbn. lia. }
  destruct (Hall c1) as (r1 & l1 & K1 & R1 & E1 & V1); [rewrite El; left|].
  destruct (Hall c2) as (r2 & l2 & K2 & R2 & E2 & V2); [rewrite El; right; left|].
  assert (r1 = r2) as -> by (apply (lostb_one_running st a fh s r1 r2 l1 l2 HI HA Ha K1 K2 R1 R2); intros h Hh; split; [by apply V1|by apply V2]).
  assert (l2 = l1) as -> by congruence.
  rewrite El in Hnd. apply NoDup_cons in Hnd as [Hnotin _]. apply Hnotin. rewrite E1, E2. left.
Qed.

(** * one host reports *)
Lemma lostb_report st a fh plog :
  LoopInv st → MendL (nonout st) st → f_hosts st !! a = Some fh →
  ∃ st', steps P st [ESnap a plog; EDeliver a false] = Some st' ∧ (LoopInv st' ∧ MendL (nonout st') st') ∧
    (∀ a', a' ≠ a → d_outgoing (f_db st') !! a' = d_outgoing (f_db st) !! a') ∧
    d_outgoing (f_db st') !! a = d_requests (f_db st) !! a ∧
    (∀ b q, nonout st' b q → nonout st b q) ∧
    f_hist st' = f_hist st ∧ f_seen st' = f_seen st ∧
    d_tick (f_db st') = d_tick (f_db st) ∧ d_shards (f_db st') = d_shards (f_db st) ∧
    d_requests (f_db st') = delete a (d_requests (f_db st)) ∧
    f_hosts st' = <[a := mkFHost true (fh_region fh) (fh_reps fh) (fh_queue fh ++ default [] (d_requests (f_db st) !! a)) None]> (f_hosts st) ∧
    (∀ s h c, f_hist st !! s = Some h → d_view (f_db st) !! s = Some c →
       ∃ c', d_view (f_db st') !! s = Some c' ∧ (s_cci c' = s_cci c ∨ s_cci c' = cur_version h) ∧
             (s_cci c = cur_version h → s_cci c' = cur_version h) ∧
             ((∃ rid lr, fh_reps fh !! (s, rid) = Some lr ∧ lr_running lr = true ∧ lr_ver lr = cur_version h) → s_cci c' = cur_version h)) ∧
    (∀ s rid, stamped (f_db st') s rid → stamped (f_db st) s rid ∨ runs_on fh s rid = true) ∧
    (∃ h, d_hosts (f_db st') !! a = Some h ∧ h_tick h = d_tick (f_db st) ∧
          (plog = true → ∀ k, is_Some (fh_reps fh !! k) → k ∈ h_plog h)) ∧
    (∀ a' h, a' ≠ a → d_hosts (f_db st) !! a' = Some h →
       ∃ h', d_hosts (f_db st') !! a' = Some h' ∧ h_tick h' = h_tick h ∧ h_plog h' = h_plog h) ∧
    (∀ s rid n', rec_of (d_view (f_db st')) s rid = Some n' →
       (∃ n, rec_of (d_view (f_db st)) s rid = Some n ∧ r_first n' = r_first n ∧
             r_tick n' = if runs_on fh s rid then d_tick (f_db st) else r_tick n) ∨
       (rec_of (d_view (f_db st)) s rid = None ∧ r_first n' = d_tick (f_db st) ∧
        r_tick n' = if runs_on fh s rid then d_tick (f_db st) else 0)) ∧
    (plog = true → ∀ h, d_hosts (f_db st') !! a = Some h → ∀ k, k ∈ h_plog h → is_Some (fh_reps fh !! k)) ∧
    (∀ b, is_Some (d_hosts (f_db st') !! b) → b = a ∨ is_Some (d_hosts (f_db st) !! b)).
Proof.
  intros HI HC Ha. destruct (ml_hosts _ _ HC _ _ Ha) as (Hup & Hout).
  set (r := host_report (f_db st) (f_hist st) a fh plog).
  set (fh1 := mkFHost true (fh_region fh) (fh_reps fh) (fh_queue fh) (Some r)).
  set (st1 := set_host st a fh1).
  assert (E1 : fstep P st (ESnap a plog) = FOk st1) by (cbn [fstep]; by rewrite Ha, Hup).
  pose proof (step_inv P st (ESnap a plog) st1 HI I E1) as HI1.
  assert (Ha1 : f_hosts st1 !! a = Some fh1) by (unfold st1, set_host; cbn; by rewrite lookup_insert).
  pose proof (step_deliver_no_panic P st1 a false HI1) as Hnp.
  cbn [fstep] in Hnp. rewrite Ha1 in Hnp. cbn [fh_up fh1 fh_out] in Hnp.
  destruct (db_step P (f_db st1) (CReport r)) as [d' v0| |] eqn:Es; try done. clear Hnp.
  set (fh2 := mkFHost true (fh_region fh1) (fh_reps fh1) (fh_queue fh1 ++ lookup_requests d' a) None).
  set (st2 := mkF d' (<[a := fh2]> (f_hosts st1)) (f_hist st1) (f_seen st1)).
  assert (E2 : fstep P st1 (EDeliver a false) = FOk st2).
  { cbn [fstep]. rewrite Ha1. cbn [fh_up fh1 fh_out]. by rewrite Es. }
  pose proof (step_inv P st1 (EDeliver a false) st2 HI1 I E2) as HI2.
  change (f_db st1) with (f_db st) in Es.
  assert (Hn : next P (f_db st) (CReport r) = Some d') by (unfold next; by rewrite Es).
  pose proof Hn as Hn'. apply next_cases in Hn' as [[Hf' _]|[_ (view' & kill' & Hvu & Ed')]];
    [rewrite (li_failed _ _ _ _ _ HI) in Hf'; done|].
  pose proof (li_deadline _ _ _ _ _ HI) as Hdl.
  destruct (report_result_all (f_db st) (stamp (f_db st) r) view' kill' Hdl) as (F1 & F2 & F3 & F4 & F5 & F6 & F7 & F8).
  destruct (report_result_mail (f_db st) (stamp (f_db st) r) view' kill' Hdl) as [Hreply Hreqs].
  rewrite <- Ed' in F1, F2, F3, F4, F5, F6, F7, F8, Hreply, Hreqs.
  change (rp_addr (stamp (f_db st) r)) with a in Hreply, Hreqs.
  assert (Hout1 : ∀ a', a' ≠ a → d_outgoing d' !! a' = d_outgoing (f_db st) !! a').
  { intros a' Hne. rewrite Ed'. unfold report_result, on_updated_shard_info, pickup. cbn.
    change (rp_addr (stamp (f_db st) r)) with a.
    destruct (d_requests (f_db st) !! a) as [qs0|] eqn:Erq; cbn; rewrite Hdl; cbn.
    - rewrite lookup_insert_ne by done. by rewrite lookup_delete_ne.
    - by rewrite lookup_delete_ne. }
  assert (Hout2 : d_outgoing d' !! a = d_requests (f_db st) !! a).
  { rewrite Ed'. unfold report_result, on_updated_shard_info, pickup. cbn.
    change (rp_addr (stamp (f_db st) r)) with a.
    destruct (d_requests (f_db st) !! a) as [qs0|] eqn:Erq; cbn; rewrite Hdl; cbn.
    - by rewrite lookup_insert.
    - by rewrite lookup_delete. }
  assert (Htick : d_tick d' = d_tick (f_db st)).
  { rewrite Ed'. by destruct (DBTimeProofs.report_result_fields (f_db st) (stamp (f_db st) r) view' kill') as (Et & _). }
  assert (Hhosts2 : <[a := fh2]> (f_hosts st1) =
            <[a := mkFHost true (fh_region fh) (fh_reps fh) (fh_queue fh ++ default [] (d_requests (f_db st) !! a)) None]> (f_hosts st)).
  { unfold st1, set_host. cbn [f_hosts]. rewrite insert_insert. unfold fh2, fh1. cbn. by rewrite Hreply. }
  assert (Hst2 : st2 = mkF d' (<[a := mkFHost true (fh_region fh) (fh_reps fh) (fh_queue fh ++ default [] (d_requests (f_db st) !! a)) None]> (f_hosts st))
                        (f_hist st) (f_seen st)).
  { unfold st2. rewrite Hhosts2. done. }
  pose proof (step_ver_mono P (f_db st) _ d' Hn) as Hmono. apply ver_mono_view_le in Hmono as Hvle.
  assert (Hview2 : view_inv (Hf (f_hist st)) (d_view d')) by (apply (li_view _ _ _ _ _ HI2)).
  (* versions *)
  assert (Hvers : ∀ s h c, f_hist st !! s = Some h → d_view (f_db st) !! s = Some c →
            ∃ c', d_view d' !! s = Some c' ∧ s_cci c ≤ s_cci c' ∧ s_cci c' ≤ cur_version h ∧
                  entry_at h (s_cci c') = Some (r_addr <$> s_reps c')).
  { intros s h c Hh Hc. destruct (Hvle _ _ Hc) as (c' & Hc' & Hle). exists c'. split; [done|]. split; [done|].
    destruct (Hview2 s c' Hc') as (_ & HH & _). unfold Hf, hist_of in HH. rewrite Hh in HH. cbn in HH. split; [|done].
    apply (hist_wf_le _ _ (li_hist _ _ _ _ _ HI _ _ Hh) _ (entry_at_Some _ _ _ HH)). }
  assert (Hviewdom : ∀ s c', d_view d' !! s = Some c' → is_Some (d_view (f_db st) !! s)).
  { intros s c' Hc'. destruct (d_view (f_db st) !! s) as [c|] eqn:Ec; [by eexists|]. exfalso.
    (* a view appears only for a complete entry *)
    pose proof (view_update_grows _ _ _ _ _ _ s Hvu) as Hg. unfold ver in Hg. rewrite Ec in Hg. rewrite F4 in Hc'.
    rewrite Hc' in Hg. cbn in Hg. destruct Hg as [[?|Hin] _]; [done|].
    unfold entry_versions in Hin. apply elem_of_list_bind in Hin as (ci & Hin & Hci). cbn [stamp rp_infos] in Hci.
    destruct (decide _) as [[Hs Hcomp]|]; [|by apply elem_of_nil in Hin].
    destruct (lostb_info_complete st a fh plog ci HI HC Ha Hci Hcomp) as (_ & _ & _ & c0 & _ & _ & _ & _ & _ & _ & _ & _ & _ & Hc0 & _).
    rewrite Hs in Hc0. congruence. }
  (* times *)
  assert (Hticks : ∀ s rid n', rec_of (d_view d') s rid = Some n' →
            (∃ n, rec_of (d_view (f_db st)) s rid = Some n ∧ r_first n' = r_first n ∧
                  r_tick n' = if runs_on fh s rid then d_tick (f_db st) else r_tick n) ∨
            (rec_of (d_view (f_db st)) s rid = None ∧ r_first n' = d_tick (f_db st) ∧
             r_tick n' = if runs_on fh s rid then d_tick (f_db st) else 0)).
  { intros s rid n' Hrec.
    destruct (step_times P (f_db st) (CReport r) d' s rid n' Hn Hrec) as [(n0 & Hn0 & Hfi & Htk)|(r0 & Er0 & _ & Hor & Hfi & Htk)].
    - left. exists n0. split; [done|]. split; [done|]. rewrite (li_failed _ _ _ _ _ HI) in Htk. cbn [negb andb names_cmd] in Htk.
      unfold r in Htk. rewrite (report_names_runs st a fh plog s rid Ha) in Htk. done.
    - injection Er0 as <-. destruct Hor as [Hnone|Hmulti].
      + right. split; [done|]. split; [done|]. cbn [names_cmd] in Htk. unfold r in Htk.
        rewrite (report_names_runs st a fh plog s rid Ha) in Htk. done.
      + exfalso. unfold multi_entry in Hmulti. pose proof (lostb_n_complete st a fh plog s HI HC Ha). fold r in H. lia. }
  assert (Hstamped : ∀ s rid, stamped d' s rid → stamped (f_db st) s rid ∨ runs_on fh s rid = true).
  { intros s rid (n' & Hrec' & Hnz). destruct (Hticks s rid n' Hrec') as [(n & Hrec & _ & Htk)|(_ & _ & Htk)].
    - destruct (runs_on fh s rid); [by right|]. left. exists n. split; [done|]. congruence.
    - destruct (runs_on fh s rid); [by right|]. congruence. }
  (* the report is consistent with the history *)
  assert (Hrok : Forall (DBViewProofs.entry_ok (Hf (f_hist st))) (rp_infos (stamp (f_db st) r))).
  { cbn [stamp rp_infos]. eapply Forall_impl; [eapply (host_report_ok _ _ _ _ _ a fh plog HI Ha)|]. by intros ci [He _]. }
  (* the kill list: only replicas of removed members are added *)
  assert (Hkill' : ∀ k, k ∈ kill' → k_shard k ≠ 0 ∧ k_replica k ≠ 0 ∧ k_addr k ≠ 0).
  { unfold view_update in Hvu.
    destruct (update_entries (d_tick (f_db st)) (d_view (f_db st), []) (rp_infos (stamp (f_db st) r))) as [[view1 tokill]|] eqn:Eu; [|done].
    injection Hvu as _ <-. intros k Hk. apply elem_of_app in Hk as [Hk|Hk].
    { apply elem_of_list_filter in Hk as [_ Hk]. by apply (ml_kill _ _ HC). }
    apply elem_of_list_fmap in Hk as (ci & -> & Hci). cbn [k_shard k_replica k_addr stamp rp_addr].
    destruct (update_entries_tokill (Hf (f_hist st)) _ _ _ _ _ _ (li_view _ _ _ _ _ HI) Hrok Eu ci Hci)
      as [Hnil|(Hin & vm & ec & Hvi & Hvm & Hl & Hkr)]; [by apply elem_of_nil in Hnil|].
    cbn [stamp rp_infos] in Hin. unfold r, host_report in Hin. cbn [rp_infos] in Hin.
    apply elem_of_list_fmap in Hin as ([[s rid] lr] & -> & Hin). apply elem_of_list_filter in Hin as [Hrun Hin].
    apply sorted_reps_elem in Hin. cbn in Hrun, Hin. cbn [fst snd] in Hl, Hkr.
    assert (Hs : si_shard (rep_info (view_vers (f_db st)) (f_hist st) (s, rid) lr) = s) by (unfold rep_info; by destruct (lr_ver lr =? 0)).
    assert (Hr : si_replica (rep_info (view_vers (f_db st)) (f_hist st) (s, rid) lr) = rid) by (unfold rep_info; by destruct (lr_ver lr =? 0)).
    cbn [fst snd]. rewrite Hs, Hr.
    destruct (ml_nostray _ _ HC _ _ _ _ _ Ha Hin Hrun) as [(h & Hh & [am Hm])|(h & Hh & _ & _ & _ & ? & ? & ?)]; [exfalso|done].
    destruct (ml_members _ _ HC _ _ Hh) as (c & Hc & Hcase & _).
    rewrite Hs in Hl. destruct (Hvi _ _ Hl) as (_ & HH & _). unfold Hf, hist_of in HH. rewrite Hh in HH. cbn in HH.
    pose proof (li_hist _ _ _ _ _ HI _ _ Hh) as Hw.
    pose proof (hist_wf_le _ _ Hw _ (entry_at_Some _ _ _ HH)) as Hle. cbn [fst] in Hle.
    assert (Hge : s_cci c ≤ s_cci ec).
    { destruct (Hvm s (s_cci c)) as (v' & Hv' & Hvle'); [unfold ver; by rewrite Hc|].
      unfold ver in Hv'. rewrite Hl in Hv'. cbn in Hv'. injection Hv' as <-. lia. }
    (* rid is a member of the entry ec shows *)
    assert (Hmem : is_Some ((r_addr <$> s_reps ec) !! rid)).
    { destruct Hcase as [Hcc|(v & M & M' & x & rest & Hb)].
      - assert (Heq : s_cci ec = cur_version h) by lia. destruct (cur_entry_at _ _ _ HI Hh) as [Hcur _].
        rewrite Heq, Hcur in HH. injection HH as HH. rewrite <- HH. by eexists.
      - destruct (ml_behind _ _ HC s h c v M M' x rest Hh Hc Hb) as (_ & Hxrun & _).
        assert (Hnx : rid ≠ x).
        { intros ->. destruct Hb as (Hhh0 & _ & [[HMx _]|[_ HM']]).
          - rewrite (Hxrun HMx a fh lr Ha Hin) in Hrun; done.
          - rewrite Hhh0 in Hm. cbn in Hm. rewrite HM', lookup_delete in Hm. done. }
        pose proof (behind_other _ _ _ _ _ _ _ rid Hb Hnx) as Hsame. destruct Hb as (Hhh & Hv & _).
        rewrite Hhh in Hm, HH, Hle. cbn in Hm, HH, Hle.
        destruct (s_cci ec =? v + 1) eqn:Ev1.
        + destruct (v + 1 =? s_cci ec) eqn:Ev1'; [|apply N.eqb_eq in Ev1; apply N.eqb_neq in Ev1'; lia].
          injection HH as HH. rewrite <- HH. by eexists.
        + apply N.eqb_neq in Ev1. assert (s_cci ec = v) as Hev by lia.
          assert ((v + 1 =? s_cci ec) = false) as Ev2 by (apply N.eqb_neq; lia). rewrite Ev2 in HH.
          rewrite Hev, N.eqb_refl in HH. injection HH as HH. rewrite <- HH, <- Hsame. by eexists. }
    rewrite lookup_fmap in Hmem. apply fmap_is_Some in Hmem as [n0 Hn0].
    unfold kill_required in Hkr. rewrite Hr, Hn0 in Hkr. by destruct (s_cci ec <=? _). }
  exists st2. split.
  { cbn [steps]. rewrite E1, E2. done. }
  assert (Hrepsame : ∀ a0 fh0, f_hosts st2 !! a0 = Some fh0 → ∃ fh', f_hosts st !! a0 = Some fh' ∧ fh_reps fh0 = fh_reps fh' ∧ fh_up fh0 = true ∧ fh_out fh0 = None).
  { intros a0 fh0. rewrite Hst2. cbn [f_hosts]. destruct (decide (a0 = a)) as [->|Hne].
    - rewrite lookup_insert. intros [= <-]. exists fh. done.
    - rewrite lookup_insert_ne by done. intros H0. exists fh0. split; [done|]. split; [done|]. by apply (ml_hosts _ _ HC a0). }
  (* the versions after the report *)
  assert (Hcase' : ∀ s h c, f_hist st !! s = Some h → d_view (f_db st) !! s = Some c →
            ∃ c', d_view d' !! s = Some c' ∧ (s_cci c' = s_cci c ∨ s_cci c' = cur_version h) ∧
                  (s_cci c = cur_version h → s_cci c' = cur_version h) ∧
                  ((∃ rid lr, fh_reps fh !! (s, rid) = Some lr ∧ lr_running lr = true ∧ lr_ver lr = cur_version h) → s_cci c' = cur_version h)).
  { intros s h c Hh Hc. destruct (Hvers s h c Hh Hc) as (c' & Hc' & Hlo & Hhi & _). exists c'. split; [done|].
    destruct (ml_members _ _ HC s h Hh) as (c0 & Hc0 & Hcase & _). assert (c0 = c) as -> by congruence.
    destruct Hcase as [Hcc|(v & M & M' & x & rest & Hhh & Hv & Hkind)].
    - split; [left; lia|]. split; [intros _; lia|intros _; lia].
    - assert (Hcv : cur_version h = v + 1) by (rewrite Hhh; done).
      split; [lia|]. split; [lia|]. intros (rid & lr & Hk & Hrun & Hver).
      (* the complete entry of that replica *)
      pose proof (view_update_grows _ _ _ _ _ _ s Hvu) as Hg. unfold ver in Hg. rewrite F4 in Hc'. rewrite Hc, Hc' in Hg. cbn in Hg.
      destruct Hg as (_ & _ & Hmax). assert (Hin : v + 1 ∈ entry_versions s (rp_infos (stamp (f_db st) r))); [|specialize (Hmax _ Hin); lia].
      unfold entry_versions. apply elem_of_list_bind. exists (rep_info (view_vers (f_db st)) (f_hist st) (s, rid) lr). split.
      + unfold rep_info. cbn [fst snd]. assert ((lr_ver lr =? 0) = false) as -> by (apply N.eqb_neq; lia).
        unfold view_vers. rewrite lookup_fmap, Hc. cbn. assert ((lr_ver lr <=? s_cci c) = false) as -> by (apply N.leb_gt; lia).
        rewrite decide_True by done. cbn. rewrite Hver, Hcv. left.
      + cbn [stamp rp_infos]. unfold r, host_report. cbn [rp_infos]. apply elem_of_list_fmap. exists ((s, rid), lr). split; [done|].
        apply elem_of_list_filter. split; [done|]. unfold sorted_reps. rewrite merge_sort_Permutation. by apply elem_of_map_to_list. }
  assert (Hsub2 : ∀ b q, nonout st2 b q → nonout st b q).
  { intros b q Hq. rewrite Hst2 in Hq. unfold nonout in Hq |- *. cbn [f_db f_hosts] in Hq.
    destruct Hq as [(qs & Hl & Hin)|(fhb & Hb & Hin)].
    + left. exists qs. split; [by apply F7|done].
    + destruct (decide (b = a)) as [->|Hne].
      * rewrite lookup_insert in Hb. injection Hb as <-. cbn [fh_queue] in Hin. apply elem_of_app in Hin as [Hin|Hin].
        -- right. eauto.
        -- destruct (d_requests (f_db st) !! a) as [qs|] eqn:Eq; [|by apply elem_of_nil in Hin]. left. eauto.
      * rewrite lookup_insert_ne in Hb by done. right. eauto. }
  split.
  { split; [exact HI2|]. split.
    - eapply fstep_time_ok; [exact E2|]. eapply fstep_time_ok; [exact E1|]. apply (ml_timeok _ _ HC).
    - cbn [st2 f_db]. rewrite Htick. apply (ml_time _ _ HC).
    - cbn [st2 f_db f_hist]. rewrite F3. apply (ml_defined _ _ HC).
    - cbn [st2 f_db f_hist]. rewrite F3. intros s [c' Hc']. apply (ml_viewdef _ _ HC). by apply (Hviewdom s c').
    - intros a0 fh0 H0. destruct (Hrepsame a0 fh0 H0) as (_ & _ & _ & ? & ?). done.
    - cbn [st2 f_db]. rewrite F5. exact Hkill'.
    - intros b q Hq. destruct (ml_boxes _ _ HC b q (Hsub2 b q Hq)) as [?|[Hl HR]]; [by left|right]. split.
      + apply (lchange_shrink (nonout st)); [exact Hsub2|]. rewrite Hst2. cbn [f_hosts f_hist].
        apply (lchange_frame _ (f_hosts st) _ (f_hist st) (f_hist st)); [done| | |done].
        * intros a0 [fh0 H0]. destruct (decide (a0 = a)) as [->|Hne]; [rewrite lookup_insert; by eexists|rewrite lookup_insert_ne by done; by eexists].
        * intros a0 fh' k H0 Hk _. destruct (decide (a0 = a)) as [->|Hne].
          -- rewrite lookup_insert in H0. injection H0 as <-. by exists fh.
          -- rewrite lookup_insert_ne in H0 by done. by exists fh'.
      + (* the view of a shard with a live request stays current, its members stay stamped *)
        destruct HR as (c & Hc & Hcc & Hstq). destruct Hl as (_ & Hfq & _).
        destruct (ml_viewdef _ _ HC (q_shard q)) as [_ [h Hh]]; [by eexists|].
        assert (Hcur : s_cci c = cur_version h) by (rewrite Hcc, Hfq; unfold Fleet.hist_of; by rewrite Hh).
        destruct (Hcase' (q_shard q) h c Hh Hc) as (c' & Hc' & _ & Hkeep & _). specialize (Hkeep Hcur).
        exists c'. cbn [st2 f_db]. split; [done|]. split; [congruence|].
        intros rid n' Hn'. assert (Hrec' : rec_of (d_view d') (q_shard q) rid = Some n') by (apply rec_of_Some; eauto).
        destruct (Hticks (q_shard q) rid n' Hrec') as [(n & Hrec & _ & Htk)|(Hnone & _ & _)].
        * rewrite Htk. destruct (runs_on fh (q_shard q) rid); [pose proof (ml_time _ _ HC); lia|].
          apply rec_of_Some in Hrec as (c1 & Hc1 & Hn1). assert (c1 = c) as -> by congruence. by apply (Hstq rid n).
        * exfalso. destruct (Hview2 (q_shard q) c' Hc') as (_ & HH' & _). destruct (li_view _ _ _ _ _ HI (q_shard q) c Hc) as (_ & HH & _).
          rewrite Hkeep in HH'. rewrite Hcur in HH. rewrite HH in HH'. injection HH' as HH'.
          assert (is_Some ((r_addr <$> s_reps c) !! rid)) as Hs by (rewrite HH', lookup_fmap, Hn'; by eexists).
          rewrite lookup_fmap in Hs. apply fmap_is_Some in Hs as [n0 Hn0].
          assert (rec_of (d_view (f_db st)) (q_shard q) rid = Some n0) by (apply rec_of_Some; eauto). congruence.
    - (* members *)
      cbn [st2 f_db f_hist]. intros s h Hh. destruct (ml_members _ _ HC s h Hh) as (c & Hc & Hcase & Hmem).
      destruct (Hcase' s h c Hh Hc) as (c' & Hc' & Hor & Hkeep & _). exists c'. split; [done|]. split.
      { destruct Hor as [Heq|Hcur]; [|by left]. destruct Hcase as [Hcc|(v & M & M' & x & rest & Hhh & Hv & Hkind)]; [left; congruence|].
        right. exists v, M, M', x, rest. split; [done|]. split; [congruence|done]. }
      intros rid a0 Hm. destruct (Hmem rid a0 Hm) as (Hr0 & Ha0 & fh0 & Hfh0 & Hdata). split; [done|]. split; [done|].
      assert (Hdata' : stamped d' s rid → is_Some (fh_reps fh0 !! (s, rid)) ∨ L s rid).
      { intros Hst. destruct (Hstamped s rid Hst) as [Hold|Erun]; [by apply Hdata|]. left.
        unfold runs_on in Erun. destruct (fh_reps fh !! (s, rid)) as [lr|] eqn:Ek; [|done].
        assert (a0 = a) as -> by (by apply (ml_home _ _ HC a fh s rid lr h a0)). assert (fh0 = fh) as -> by congruence. by eexists. }
      rewrite Hst2. cbn [f_hosts]. destruct (decide (a0 = a)) as [->|Hne].
      + rewrite lookup_insert. assert (fh0 = fh) as -> by congruence. eexists. split; [done|]. exact Hdata'.
      + rewrite lookup_insert_ne by done. eauto.
    - (* still behind: nothing happened to the shard *)
      cbn [st2 f_db f_hist]. intros s h c' v M M' x rest Hh Hc' (Hhh & Hv & Hkind).
      destruct (Hviewdom s c' Hc') as [c Hc]. destruct (Hvers s h c Hh Hc) as (c2 & Hc2 & Hlo & _). assert (c2 = c') as -> by congruence.
      destruct (ml_members _ _ HC s h Hh) as (c0 & Hc0 & Hcase & _). assert (c0 = c) as -> by congruence.
      assert (Hbc : behind h c v M M' x rest).
      { destruct Hcase as [Hcc|(v1 & M1 & M1' & x1 & rest1 & Hhh1 & Hv1 & Hkind1)].
        - rewrite Hhh in Hcc. cbn in Hcc. lia.
        - rewrite Hhh in Hhh1. injection Hhh1 as Hv2 _ _ _. assert (v1 = v) as -> by lia. split; [done|]. split; [done|done]. }
      destruct (ml_behind _ _ HC s h c v M M' x rest Hh Hc Hbc) as (Hst & Hxrun & Hknow). split; [|split].
      + intros rid n' Hn'. assert (Hrec' : rec_of (d_view d') s rid = Some n') by (apply rec_of_Some; eauto).
        destruct (Hticks s rid n' Hrec') as [(n & Hrec & _ & Htk)|(Hnone & _ & _)].
        * rewrite Htk. destruct (runs_on fh s rid); [pose proof (ml_time _ _ HC); lia|].
          apply rec_of_Some in Hrec as (c1 & Hc1 & Hn1). assert (c1 = c) as -> by congruence. by apply (Hst rid n).
        * (* a record that was not there: the view would have moved *)
          exfalso. destruct (Hview2 s c' Hc') as (_ & HH' & _). destruct (li_view _ _ _ _ _ HI s c Hc) as (_ & HH & _).
          rewrite Hv in HH'. destruct Hbc as (_ & Hvc & _). rewrite Hvc in HH. rewrite HH in HH'. injection HH' as HH'.
          assert (is_Some ((r_addr <$> s_reps c) !! rid)) as Hs by (rewrite HH', lookup_fmap, Hn'; by eexists).
          rewrite lookup_fmap in Hs. apply fmap_is_Some in Hs as [n0 Hn0].
          assert (rec_of (d_view (f_db st)) s rid = Some n0) by (apply rec_of_Some; eauto). congruence.
      + intros HMx a0 fh0 lr H0 Hk. destruct (Hrepsame a0 fh0 H0) as (fh' & Hfh' & Hreps & _). rewrite Hreps in Hk. by apply (Hxrun HMx a0 fh').
      + destruct Hknow as (a0 & fh0 & rid & lr & H0 & Hk & Hrun & Hver). exists a0. rewrite Hst2. cbn [f_hosts].
        destruct (decide (a0 = a)) as [->|Hne].
        * rewrite lookup_insert. assert (fh0 = fh) as -> by congruence. eexists _, rid, lr. split; [done|]. done.
        * rewrite lookup_insert_ne by done. eauto 10.
    - (* waiting records have a first-observed time *)
      cbn [st2 f_db]. intros s c' rid n' Hc' Hn' Hz. assert (Hrec : rec_of (d_view d') s rid = Some n') by (apply rec_of_Some; eauto).
      destruct (Hticks s rid n' Hrec) as [(n0 & Hn0 & Hfi & Htk)|(_ & Hfi & _)].
      + rewrite Hfi. rewrite Htk in Hz. destruct (runs_on fh s rid); [pose proof (ml_time _ _ HC); lia|].
        apply rec_of_Some in Hn0 as (c0 & Hc0 & Hn0). by apply (ml_waiting _ _ HC s c0 rid n0).
      + rewrite Hfi. pose proof (ml_time _ _ HC). lia.
    - (* at most one waiting record per shard *)
      cbn [st2 f_db]. intros s c' r1 r2 n1 n2 Hc' H1 H2 Hz1 Hz2.
      assert (Hrec1 : rec_of (d_view d') s r1 = Some n1) by (apply rec_of_Some; eauto).
      assert (Hrec2 : rec_of (d_view d') s r2 = Some n2) by (apply rec_of_Some; eauto).
      pose proof (ml_time _ _ HC) as Hpos.
      destruct (Hviewdom s c' Hc') as [c Hc]. destruct (ml_viewdef _ _ HC s) as [_ [h Hh]]; [by eexists|].
      destruct (ml_members _ _ HC s h Hh) as (c0 & Hc0 & Hcase & _). assert (c0 = c) as -> by congruence.
      (* an old waiting record, or a new one *)
      assert (Hold : ∀ rid n', rec_of (d_view d') s rid = Some n' → r_tick n' = 0 →
                (∃ n, s_reps c !! rid = Some n ∧ r_tick n = 0) ∨ s_reps c !! rid = None).
      { intros rid n' Hrec' Hz'. destruct (Hticks s rid n' Hrec') as [(n & Hrec & _ & Htk)|(Hnone & _ & _)].
        - left. apply rec_of_Some in Hrec as (c1 & Hc1 & Hn1). assert (c1 = c) as -> by congruence. exists n. split; [done|].
          rewrite Htk in Hz'. destruct (runs_on fh s rid); lia.
        - right. destruct (s_reps c !! rid) as [n0|] eqn:E0; [|done]. assert (rec_of (d_view (f_db st)) s rid = Some n0) by (apply rec_of_Some; eauto). congruence. }
      destruct Hcase as [Hcc|(v & M & M' & x & rest & Hb)].
      + (* current before: no new record *)
        destruct (Hcase' s h c Hh Hc) as (c2 & Hc2 & _ & Hkeep & _). assert (c2 = c') as -> by congruence.
        specialize (Hkeep Hcc). destruct (Hview2 s c' Hc') as (_ & HH' & _). destruct (li_view _ _ _ _ _ HI s c Hc) as (_ & HH & _).
        rewrite Hkeep in HH'. rewrite Hcc in HH. rewrite HH in HH'. injection HH' as HH'.
        assert (Hin : ∀ rid n', s_reps c' !! rid = Some n' → is_Some (s_reps c !! rid)).
        { intros rid n' Hn'. rewrite <- (fmap_is_Some r_addr), <- lookup_fmap, HH', lookup_fmap, Hn'. by eexists. }
        destruct (Hold r1 n1 Hrec1 Hz1) as [(m1 & Hm1 & Hzm1)|Hn1]; [|destruct (Hin r1 n1 H1); congruence].
        destruct (Hold r2 n2 Hrec2 Hz2) as [(m2 & Hm2 & Hzm2)|Hn2]; [|destruct (Hin r2 n2 H2); congruence].
        by apply (ml_onejoin _ _ HC s c r1 r2 m1 m2).
      + (* behind before: every old record has reported; a waiting record is the new member x *)
        destruct (ml_behind _ _ HC s h c v M M' x rest Hh Hc Hb) as (Hst & _ & _).
        assert (Hisx : ∀ rid n', s_reps c' !! rid = Some n' → rec_of (d_view d') s rid = Some n' → r_tick n' = 0 → rid = x).
        { intros rid n' Hn' Hrec' Hz'. destruct (Hold rid n' Hrec' Hz') as [(n & Hnn & Hzn)|Hnone]; [by destruct (Hst rid n Hnn)|].
          destruct (decide (rid = x)) as [?|Hnx]; [done|]. exfalso.
          pose proof (behind_other _ _ _ _ _ _ _ rid Hb Hnx) as Hsame. destruct Hb as (Hhh & Hv & _).
          destruct (Hview2 s c' Hc') as (_ & HH' & _). destruct (li_view _ _ _ _ _ HI s c Hc) as (_ & HH & _).
          unfold Hf, hist_of in HH, HH'. rewrite Hh in HH, HH'. cbn in HH, HH'. rewrite Hhh in HH, HH'. rewrite Hv in HH. cbn in HH, HH'.
          assert ((v + 1 =? v) = false) as Hne by (apply N.eqb_neq; lia). rewrite Hne, N.eqb_refl in HH. injection HH as HH.
          assert (HMr : M !! rid = None) by (rewrite HH, lookup_fmap, Hnone; done).
          destruct (v + 1 =? s_cci c') eqn:Ev1.
          - injection HH' as HH'. assert (Hl : M' !! rid = Some (r_addr n')) by (rewrite HH', lookup_fmap, Hn'; done). congruence.
          - destruct (v =? s_cci c') eqn:Ev2.
            2:{ destruct (Hvers s h c Hh Hc) as (c3 & Hc3 & Hlo3 & Hhi3 & _). assert (c3 = c') as -> by congruence.
                rewrite Hhh in Hhi3. cbn in Hhi3. apply N.eqb_neq in Ev1, Ev2. lia. }
            injection HH' as HH'.
            assert (Hl : M !! rid = Some (r_addr n')) by (rewrite HH', lookup_fmap, Hn'; done). congruence. }
        rewrite (Hisx r1 n1 H1 Hrec1 Hz1), (Hisx r2 n2 H2 Hrec2 Hz2). done.
    - intros a0 fh0 s rid lr h a' H0 Hk. destruct (Hrepsame a0 fh0 H0) as (fh' & Hfh' & Hreps & _). rewrite Hreps in Hk.
      cbn [st2 f_hist]. by apply (ml_home _ _ HC a0 fh' s rid lr h a').
    - intros a0 fh0 s rid lr H0 Hk. destruct (Hrepsame a0 fh0 H0) as (fh' & Hfh' & Hreps & _). rewrite Hreps in Hk.
      cbn [st2 f_hist]. by apply (ml_nostray _ _ HC a0 fh' s rid lr). }
  split; [exact Hout1|]. split; [exact Hout2|]. split; [exact Hsub2|].
  split; [done|]. split; [done|]. split; [exact Htick|]. split; [exact F3|]. split; [exact Hreqs|].
  split; [by rewrite Hst2|]. split; [exact Hcase'|]. split; [exact Hstamped|].
  cbn [st2 f_db]. rewrite F6. unfold sync_shard_info. split; [|split; [|split; [exact Hticks|split]]].
  4:{ intros b. rewrite lookup_fmap. unfold host_update. cbn [rp_addr stamp r host_report]. destruct (decide (b = a)) as [->|Hne]; [by left|]. right.
      destruct (d_hosts (f_db st) !! a) as [h0|]; rewrite lookup_insert_ne in H by done; by apply fmap_is_Some in H. }
  3:{ intros -> h. rewrite lookup_fmap. unfold host_update. cbn [rp_addr stamp r host_report rp_region rp_plog_incl rp_plog].
      destruct (d_hosts (f_db st) !! a) as [h0|]; rewrite lookup_insert; cbn; intros [= <-]; cbn [h_plog]; intros k Hk;
        apply elem_of_list_fmap in Hk as ([k0 lr] & -> & Hin); apply sorted_reps_elem in Hin; cbn; by eexists. }
  - rewrite lookup_fmap. unfold host_update. cbn [rp_addr stamp r host_report rp_region rp_plog_incl rp_plog].
    destruct (d_hosts (f_db st) !! a) as [h0|]; rewrite lookup_insert; cbn; (eexists; split; [done|]); cbn [h_tick h_plog];
      (split; [done|]); intros -> k [lr Hk]; apply elem_of_list_fmap; exists (k, lr); (split; [done|]);
      unfold sorted_reps; rewrite merge_sort_Permutation; by apply elem_of_map_to_list.
  - intros a' h Hne Hh. rewrite lookup_fmap. unfold host_update. cbn [rp_addr stamp r host_report].
    destruct (d_hosts (f_db st) !! a) as [h0|]; rewrite lookup_insert_ne by done; rewrite Hh; cbn; (eexists; split; [done|]); done.
Qed.

(** * all hosts report *)
Lemma lostb_reports (plogs : N → bool) (l : list N) : ∀ st,
  LoopInv st → MendL (nonout st) st → NoDup l → (∀ a, a ∈ l → is_Some (f_hosts st !! a)) →
  ∃ st', steps P st (l ≫= λ a, [ESnap a (plogs a); EDeliver a false]) = Some st' ∧ (LoopInv st' ∧ MendL (nonout st') st') ∧
    (∀ a, a ∈ l → d_outgoing (f_db st') !! a = d_requests (f_db st) !! a) ∧
    (∀ a, a ∉ l → d_outgoing (f_db st') !! a = d_outgoing (f_db st) !! a) ∧
    (∀ b q, nonout st' b q → nonout st b q) ∧
    f_hist st' = f_hist st ∧ f_seen st' = f_seen st ∧
    d_tick (f_db st') = d_tick (f_db st) ∧ d_shards (f_db st') = d_shards (f_db st) ∧
    (∀ a fh, a ∈ l → f_hosts st !! a = Some fh → ∃ fh', f_hosts st' !! a = Some fh' ∧ fh_reps fh' = fh_reps fh) ∧
    (∀ a, a ∉ l → f_hosts st' !! a = f_hosts st !! a) ∧
    (∀ s h c, f_hist st !! s = Some h → d_view (f_db st) !! s = Some c →
       ∃ c', d_view (f_db st') !! s = Some c' ∧ (s_cci c' = s_cci c ∨ s_cci c' = cur_version h) ∧
             (s_cci c = cur_version h → s_cci c' = cur_version h) ∧
             ((∃ a fh rid lr, a ∈ l ∧ f_hosts st !! a = Some fh ∧ fh_reps fh !! (s, rid) = Some lr ∧ lr_running lr = true ∧
                              lr_ver lr = cur_version h) → s_cci c' = cur_version h)) ∧
    (∀ s rid, stamped (f_db st') s rid →
       stamped (f_db st) s rid ∨ ∃ a fh, a ∈ l ∧ f_hosts st !! a = Some fh ∧ runs_on fh s rid = true) ∧
    (∀ a fh, a ∈ l → f_hosts st !! a = Some fh →
       ∃ h, d_hosts (f_db st') !! a = Some h ∧ h_tick h = d_tick (f_db st) ∧
            (plogs a = true → ∀ k, is_Some (fh_reps fh !! k) → k ∈ h_plog h)) ∧
    (∀ a h, a ∉ l → d_hosts (f_db st) !! a = Some h →
       ∃ h', d_hosts (f_db st') !! a = Some h' ∧ h_tick h' = h_tick h ∧ h_plog h' = h_plog h).
Proof.
  induction l as [|a l IH]; intros st HI HC Hnd Hl.
  { exists st. cbn. split; [done|]. split; [done|]. split; [intros a Hin; by apply elem_of_nil in Hin|]. repeat (split; [done|]).
    split; [intros a fh Hin; by apply elem_of_nil in Hin|]. split; [done|].
    split. { intros s h c Hh Hc. exists c. split; [done|]. split; [by left|]. split; [done|].
             intros (a & fh & rid & lr & Hin & _). by apply elem_of_nil in Hin. }
    split; [intros s rid Hs; by left|].
    split; [intros a fh Hin; by apply elem_of_nil in Hin|]. intros a h _ Hh. by exists h. }
  apply NoDup_cons in Hnd as [Hnotin Hnd].
  destruct (Hl a) as [fh Ha]; [left|].
  destruct (lostb_report st a fh (plogs a) HI HC Ha) as (st1 & E1 & [HI1 HC1] & Ho1a & Ho1b & Hsub1 & Hhi1 & Hse1 & Ht1 & Hsh1 & Hrq1 & Hho1 & Hv1 & Hst1 & Hsp1 & Hot1 & _ & _ & _).
  destruct (IH st1 HI1 HC1 Hnd) as (st2 & E2 & HC2 & Ho2a & Ho2b & Hsub2 & Hhi2 & Hse2 & Ht2 & Hsh2 & Hh1 & Hh2 & Hv2 & Hst2 & Hsp2 & Hot2).
  { intros a' Hin. rewrite Hho1. destruct (decide (a' = a)) as [->|Hne]; [by rewrite lookup_insert|].
    rewrite lookup_insert_ne by done. apply Hl. by right. }
  assert (Hreps1 : ∀ a' fh', f_hosts st !! a' = Some fh' → ∃ fh1, f_hosts st1 !! a' = Some fh1 ∧ fh_reps fh1 = fh_reps fh').
  { intros a' fh' Hfh'. rewrite Hho1. destruct (decide (a' = a)) as [->|Hne].
    - rewrite lookup_insert. assert (fh' = fh) as -> by congruence. by eexists.
    - rewrite lookup_insert_ne by done. by exists fh'. }
  exists st2. split.
  { rewrite bind_cons, steps_app, E1. exact E2. }
  split; [done|].
  split.
  { intros a' Hin. apply elem_of_cons in Hin as [->|Hin].
    - rewrite (Ho2b a Hnotin). exact Ho1b.
    - rewrite (Ho2a a' Hin), Hrq1. apply lookup_delete_ne. intros ->. done. }
  split.
  { intros a' Hnin. apply not_elem_of_cons in Hnin as [Hne Hnin]. rewrite (Ho2b a' Hnin). by apply Ho1a. }
  split; [intros b q Hq; apply Hsub1; by apply Hsub2|].
  split; [congruence|]. split; [congruence|]. split; [congruence|]. split; [congruence|].
  split.
  { intros a' fh' Hin Hfh'. destruct (Hreps1 a' fh' Hfh') as (fh1 & Hfh1 & Hr1). apply elem_of_cons in Hin as [->|Hin].
    - rewrite Hh2 by done. exists fh1. done.
    - destruct (Hh1 a' fh1 Hin Hfh1) as (fh2 & Hfh2 & Hr2). exists fh2. split; [done|]. congruence. }
  split. { intros a' Hnin. apply not_elem_of_cons in Hnin as [Hne Hnin]. rewrite Hh2 by done. rewrite Hho1. by rewrite lookup_insert_ne. }
  split.
  { intros s h c Hh Hc. destruct (Hv1 s h c Hh Hc) as (c1 & Hc1 & Hor1 & Hk1 & Hkn1).
    destruct (Hv2 s h c1) as (c2 & Hc2 & Hor2 & Hk2 & Hkn2); [by rewrite Hhi1|done|].
    exists c2. split; [done|]. split; [|split].
    - destruct Hor2 as [Heq|Hcur]; [|by right]. rewrite Heq. exact Hor1.
    - intros Hcc. apply Hk2. by apply Hk1.
    - intros (a' & fh' & rid & lr & Hin & Hfh' & Hk & Hrun & Hver). apply elem_of_cons in Hin as [->|Hin].
      + assert (fh' = fh) as -> by congruence. apply Hk2. apply Hkn1. eauto.
      + destruct (Hreps1 a' fh' Hfh') as (fh1 & Hfh1 & Hr1). apply Hkn2. exists a', fh1, rid, lr. rewrite Hr1. done. }
  split.
  { intros s rid Hs2. destruct (Hst2 s rid Hs2) as [Hs1|(a' & fh1 & Hin & Hfh1 & Hrun)].
    - destruct (Hst1 s rid Hs1) as [?|Hrun]; [by left|]. right. exists a, fh. split; [left|done].
    - right. assert (a' ≠ a) as Hne by (intros ->; done). rewrite Hho1, lookup_insert_ne in Hfh1 by done.
      exists a', fh1. split; [by right|done]. }
  split.
  { intros a' fh' Hin Hfh'. apply elem_of_cons in Hin as [->|Hin].
    - assert (fh' = fh) as -> by congruence. destruct Hsp1 as (h1 & Hh1' & Htk & Hpl).
      destruct (Hot2 a h1 Hnotin Hh1') as (h2 & Hh2' & Htk' & Hpl'). exists h2. split; [done|]. split; [congruence|]. rewrite Hpl'. done.
    - destruct (Hreps1 a' fh' Hfh') as (fh1 & Hfh1 & Hr).
      destruct (Hsp2 a' fh1 Hin Hfh1) as (h2 & Hh2' & Htk' & Hpl'). exists h2. split; [done|]. split; [congruence|]. by rewrite <- Hr. }
  intros a' h Hnin Hh. apply not_elem_of_cons in Hnin as [Hne Hnin].
  destruct (Hot1 a' h Hne Hh) as (h1 & Hh1' & Htk & Hpl). destruct (Hot2 a' h1 Hnin Hh1') as (h2 & Hh2' & Htk' & Hpl').
  exists h2. split; [done|]. split; congruence.
Qed.



Lemma lostx_execs (l : list N) : ∀ st st',
  LostX st → steps P st ((λ a, EExec a true) <$> l) = Some st' →
  LostX st' ∧ f_db st' = f_db st ∧
  (∀ b, match f_hosts st !! b with
        | Some fh => ∃ fh', f_hosts st' !! b = Some fh' ∧ fh_queue fh' = (if decide (b ∈ l) then [] else fh_queue fh)
        | None => f_hosts st' !! b = None end).
Proof.
  induction l as [|a l IH]; intros st st' HX Hs.
  { cbn in Hs. injection Hs as <-. split; [done|]. split; [done|]. intros b. destruct (f_hosts st !! b) as [fh|]; [|done]. exists fh. split; [done|].
    rewrite decide_False; [done|]. intros Hin. by apply elem_of_nil in Hin. }
  rewrite fmap_cons in Hs. cbn [steps] in Hs. destruct (fstep P st (EExec a true)) as [st1| |] eqn:E1; [| |done].
  - destruct (lostx_exec st a st1 HX E1) as (HX1 & Hd1 & Hq1). destruct (IH st1 st' HX1 Hs) as (HX' & Hd' & Hq').
    split; [done|]. split; [congruence|]. intros b. specialize (Hq1 b). specialize (Hq' b).
    destruct (f_hosts st !! b) as [fh|].
    + destruct Hq1 as (fh1 & Hfh1 & Hqq1). rewrite Hfh1 in Hq'. destruct Hq' as (fh' & Hfh' & Hqq'). exists fh'. split; [done|].
      rewrite Hqq'. destruct (decide (b = a)) as [->|Hne].
      * rewrite (decide_True (P := a ∈ a :: l)) by left. by destruct (decide (a ∈ l)).
      * destruct (decide (b ∈ l)) as [Hin|Hnin]; [rewrite decide_True by (by right); done|].
        rewrite decide_False; [done|]. intros Hin. apply elem_of_cons in Hin as [?|?]; done.
    + by rewrite Hq1 in Hq'.
  - (* no such NodeHost *)
    destruct (IH st st' HX Hs) as (HX' & Hd' & Hq'). split; [done|]. split; [done|]. intros b. specialize (Hq' b).
    destruct (f_hosts st !! b) as [fh|] eqn:Hb; [|done]. destruct Hq' as (fh' & Hfh' & Hqq'). exists fh'. split; [done|]. rewrite Hqq'.
    assert (b ≠ a).
    { intros ->. cbn [fstep] in E1. rewrite Hb in E1. destruct HX as [(_ & HP & _) _]. destruct (ml_hosts _ _ HP a fh Hb) as [Hup _]. rewrite Hup in E1.
      by destruct (exec_all _ _ _ _). }
    destruct (decide (b ∈ l)) as [Hin|Hnin]; [rewrite decide_True by (by right); done|].
    rewrite decide_False; [done|]. intros Hin. apply elem_of_cons in Hin as [?|?]; done.
Qed.

Lemma lostx_learns st st' :
  LostX st → steps P st (catch_up_events st) = Some st' → LostX st' ∧ f_db st' = f_db st ∧ f_hist st' = f_hist st ∧
  (∀ b, match f_hosts st !! b with
        | Some fhb => ∃ fh', f_hosts st' !! b = Some fh' ∧ fh_queue fh' = fh_queue fhb
        | None => f_hosts st' !! b = None end).
Proof.
  intros HX Hs.
  apply (steps_pres P (λ st0, LostX st0 ∧ f_db st0 = f_db st ∧ f_hist st0 = f_hist st ∧
           (∀ b, match f_hosts st !! b with
                 | Some fhb => ∃ fh', f_hosts st0 !! b = Some fh' ∧ fh_queue fh' = fh_queue fhb
                 | None => f_hosts st0 !! b = None end)) (catch_up_events st)) with (st := st); [| |done].
  - intros st0 ev st1 Hev (HX0 & Hd0 & Hh0 & Hf0) E. apply catch_up_members in Hev as (a & s & r & v & -> & Hm).
    rewrite <- Hh0 in Hm. destruct (lostx_learn st0 a s r v st1 HX0 Hm E) as (HX1 & Hd1 & Hh1 & Hf1). split; [done|]. split; [congruence|]. split; [congruence|].
    intros b. specialize (Hf0 b). specialize (Hf1 b). destruct (f_hosts st !! b) as [fhb|].
    + destruct Hf0 as (fh0 & Hfh0 & Hq0). rewrite Hfh0 in Hf1. destruct Hf1 as (fh1 & Hfh1 & Hq1). exists fh1. split; [done|]. congruence.
    + by rewrite Hf0 in Hf1.
  - split; [done|]. split; [done|]. split; [done|]. intros b. destruct (f_hosts st !! b) as [fhb|]; [by exists fhb|done].
Qed.

Lemma lostx_ticks n : ∀ st st',
  LostX st → steps P st (replicate n ETick) = Some st' →
  LostX st' ∧ f_db st' = set_tick (f_db st) (d_tick (f_db st) + N.of_nat n * p_step P) ∧ f_hosts st' = f_hosts st ∧ f_hist st' = f_hist st.
Proof.
  induction n as [|n IH]; intros st st' HX Hs; cbn [replicate steps] in Hs.
  - injection Hs as <-. split; [done|]. split; [|done]. destruct st as [d ? ? ?]. cbn. destruct d. unfold set_tick. cbn. f_equal. lia.
  - destruct (fstep P st ETick) as [st1| |] eqn:E1; [| |done].
    + destruct (lostx_tick st st1 HX E1) as (HX1 & Hd1 & Hh1 & Hhi1). destruct (IH st1 st' HX1 Hs) as (HX' & Hd' & Hh' & Hhi').
      split; [done|]. split; [|split; congruence].
      rewrite Hd', Hd1. unfold set_tick. cbn [d_tick d_deadline d_failed d_shards d_kv d_view d_kill d_hosts d_info d_requests d_outgoing].
      f_equal. rewrite Nat2N.inj_succ, N.mul_succ_l. lia.
    + exfalso. cbn [fstep] in E1. by destruct (db_step P (f_db st) CTick).
Qed.


Lemma lostb_reports_requests (plogs : N → bool) (l : list N) : ∀ st st',
  LoopInv st → MendL (nonout st) st → NoDup l → (∀ a, a ∈ l → is_Some (f_hosts st !! a)) →
  steps P st (l ≫= λ a, [ESnap a (plogs a); EDeliver a false]) = Some st' →
  ∀ a, a ∈ l → d_requests (f_db st') !! a = None.
Proof.
  induction l as [|a l IH]; intros st st' HI HP Hnd Hl Hs a0 Hin; [by apply elem_of_nil in Hin|].
  apply NoDup_cons in Hnd as [Hnotin Hnd]. destruct (Hl a) as [fh Ha]; [left|].
  destruct (lostb_report st a fh (plogs a) HI HP Ha) as (st1 & E1 & [HI1 HP1] & _ & _ & _ & _ & _ & _ & _ & Hrq1 & Hho1 & _).
  rewrite bind_cons, steps_app, E1 in Hs.
  assert (Hl1 : ∀ a', a' ∈ l → is_Some (f_hosts st1 !! a')).
  { intros a' Hin'. rewrite Hho1. destruct (decide (a' = a)) as [->|Hne]; [by rewrite lookup_insert|]. rewrite lookup_insert_ne by done. apply Hl. by right. }
  destruct (decide (a0 ∈ l)) as [Hin0|Hnin0]; [by apply (IH st1 st' HI1 HP1 Hnd Hl1 Hs)|].
  apply elem_of_cons in Hin as [->|?]; [|done].
  (* the later reports do not touch the Requests of a *)
  assert (Hkeep : ∀ l0 stx stx', NoDup l0 → a ∉ l0 → LoopInv stx → MendL (nonout stx) stx → (∀ a', a' ∈ l0 → is_Some (f_hosts stx !! a')) →
            steps P stx (l0 ≫= λ a, [ESnap a (plogs a); EDeliver a false]) = Some stx' → d_requests (f_db stx) !! a = None → d_requests (f_db stx') !! a = None).
  { clear. induction l0 as [|b l0 IH0]; intros stx stx' Hnd Hna HIx HPx Hlx Hsx Hnone; [cbn in Hsx; by injection Hsx as <-|].
    apply NoDup_cons in Hnd as [Hnb Hnd]. apply not_elem_of_cons in Hna as [Hab Hna]. destruct (Hlx b) as [fhb Hb]; [left|].
    destruct (lostb_report stx b fhb (plogs b) HIx HPx Hb) as (sty & Ey & [HIy HPy] & _ & _ & _ & _ & _ & _ & _ & Hrqy & Hhoy & _).
    rewrite bind_cons, steps_app, Ey in Hsx. apply (IH0 sty stx' Hnd Hna HIy HPy); [|done|].
    - intros a' Hin'. rewrite Hhoy. destruct (decide (a' = b)) as [->|Hne]; [by rewrite lookup_insert|]. rewrite lookup_insert_ne by done. apply Hlx. by right.
    - rewrite Hrqy. by rewrite lookup_delete_ne. }
  apply (Hkeep l st1 st' Hnd Hnotin HI1 HP1 Hl1 Hs). rewrite Hrq1. by rewrite lookup_delete.
Qed.

End LostS.

(** * Part 2: the class Lost - a fleet in which nothing is wrong except that some members are lost *)
(* generic: a request that is not a join / launch CREATE creates no data *)
Lemma exec_req_nonew h ccok x q x' :
  exec_req h ccok x q = Some x' → (is_create q = true → is_restore q = true) →
  ∀ a fh' k, x'.1 !! a = Some fh' → is_Some (fh_reps fh' !! k) → ∃ fh, x.1 !! a = Some fh ∧ is_Some (fh_reps fh !! k).
Proof.
  intros E Hr a fh' k Ha Hk. destruct (exec_req_keys h ccok x q x' E) as [_ Hkeys].
  destruct (Hkeys a fh' k Ha Hk) as [?|[Hc ->]]; [done|].
  specialize (Hr Hc). unfold is_restore in Hr. apply andb_true_iff in Hr as [_ Hre]. unfold is_create in Hc.
  unfold exec_req in E. destruct (x.1 !! h) as [fh|] eqn:Hfh; [|injection E as <-; by exists fh'].
  destruct (q_type q); try done. rewrite Hre in E. destruct (q_join q); [done|].
  destruct (fh_reps fh !! (q_shard q, q_inst q)) as [lr|] eqn:Ek; injection E as <-; [|by exists fh'].
  unfold start_existing in Ha, Hk. destruct (_ || _); [by exists fh'|]. cbn [fst] in Ha. rewrite set_reps_lookup, Hfh in Ha.
  destruct (decide (a = h)) as [->|Hne]; [|by exists fh']. exists fh. split; [done|]. by eexists.
Qed.

Lemma exec_all_nonew h ccok qs : ∀ x x',
  exec_all h ccok x qs = Some x' → Forall (λ q, is_create q = true → is_restore q = true) qs →
  ∀ a fh' k, x'.1 !! a = Some fh' → is_Some (fh_reps fh' !! k) → ∃ fh, x.1 !! a = Some fh ∧ is_Some (fh_reps fh !! k).
Proof.
  induction qs as [|q qs IH]; intros x x' E Hall a fh' k Ha Hk; cbn [exec_all] in E; [injection E as <-; by exists fh'|].
  destruct (exec_req h ccok x q) as [x1|] eqn:E1; [|done]. apply Forall_cons_1 in Hall as [Hq Hall].
  destruct (IH x1 x' E Hall a fh' k Ha Hk) as (fh1 & Hfh1 & Hk1). by apply (exec_req_nonew h ccok x q x1 E1 Hq a fh1 k).
Qed.

Record LostK (st : fstate) : Prop := mkLostK {
  lo_b : LostB st;
  lo_cur : ∀ s h c, f_hist st !! s = Some h → d_view (f_db st) !! s = Some c → s_cci c = cur_version h;
  lo_stamped : ∀ s c rid n, d_view (f_db st) !! s = Some c → s_reps c !! rid = Some n → r_tick n ≠ 0;
  lo_mem : ∀ s rid, L s rid → ∃ a, member st s rid a;
  lo_nodata : ∀ s rid, L s rid → ∀ a fh, f_hosts st !! a = Some fh → fh_reps fh !! (s, rid) = None;
  lo_one : ∀ s r1 r2, L s r1 → L s r2 → r1 = r2;
  lo_run : ∀ s rid a, member st s rid a → ¬ L s rid → member_running (f_hosts st) s rid a = true;
  lo_clean : ∀ a fh s rid lr, f_hosts st !! a = Some fh → fh_reps fh !! (s, rid) = Some lr → ∃ b, member st s rid b;
  lo_dbhosts : ∀ a, is_Some (d_hosts (f_db st) !! a) → is_Some (f_hosts st !! a);
  lo_size : ∀ s rid h, L s rid → f_hist st !! s = Some h →
    (size (cur_members h) = shard_size (f_db st) s ∧ 3 ≤ size (cur_members h))%nat }.

(* every pending request is a leftover or a restore for a current member; CREATE requests are pending for NodeHosts only *)
Definition inert (st : fstate) : Prop :=
  ∀ a q, nonout st a q → mharmless (f_hist st) a q ∧ (is_create q = true → is_restore q = true ∧ is_Some (f_hosts st !! a)).
Definition Lost (st : fstate) : Prop := LostK st ∧ inert st.

Section LostR.
Variable P : params.

Definition all_current (st : fstate) : Prop :=
  ∀ s h c, f_hist st !! s = Some h → d_view (f_db st) !! s = Some c → s_cci c = cur_version h.

(* the views of a shard at the current membership version show the same members *)
Lemma current_same_keys st st' s h c c' rid :
  LoopInv st → LoopInv st' → f_hist st' = f_hist st → f_hist st !! s = Some h →
  d_view (f_db st) !! s = Some c → d_view (f_db st') !! s = Some c' → s_cci c = cur_version h → s_cci c' = cur_version h →
  is_Some (s_reps c' !! rid) → is_Some (s_reps c !! rid).
Proof.
  intros HI HI' Hhi Hh Hc Hc' Hcc Hcc' Hk.
  destruct (li_view _ _ _ _ _ HI s c Hc) as (_ & HH & _). destruct (li_view _ _ _ _ _ HI' s c' Hc') as (_ & HH' & _).
  rewrite Hhi in HH'. rewrite Hcc in HH. rewrite Hcc' in HH'. rewrite HH in HH'. injection HH' as HH'.
  rewrite <- (fmap_is_Some r_addr), <- lookup_fmap, HH', lookup_fmap. by apply fmap_is_Some.
Qed.

Lemma lost_reports_facts (plogs : N → bool) (l : list N) : ∀ st st',
  LoopInv st → MendL (nonout st) st → all_current st → NoDup l → (∀ a, a ∈ l → is_Some (f_hosts st !! a)) →
  steps P st (l ≫= λ a, [ESnap a (plogs a); EDeliver a false]) = Some st' →
  (∀ s rid n', rec_of (d_view (f_db st')) s rid = Some n' →
     ∃ n, rec_of (d_view (f_db st)) s rid = Some n ∧
       (((∃ a fh, a ∈ l ∧ f_hosts st !! a = Some fh ∧ runs_on fh s rid = true) ∧ r_tick n' = d_tick (f_db st)) ∨
        ((∀ a fh, a ∈ l → f_hosts st !! a = Some fh → runs_on fh s rid = false) ∧ r_tick n' = r_tick n))) ∧
  (∀ a fh h, a ∈ l → plogs a = true → f_hosts st !! a = Some fh → d_hosts (f_db st') !! a = Some h →
     ∀ k, k ∈ h_plog h → is_Some (fh_reps fh !! k)) ∧
  (∀ b, is_Some (d_hosts (f_db st') !! b) → b ∈ l ∨ is_Some (d_hosts (f_db st) !! b)).
Proof.
  induction l as [|a l IH]; intros st st' HI HP Hcur Hnd Hl Hs.
  { cbn in Hs. injection Hs as <-. split; [|split].
    - intros s rid n' Hn'. exists n'. split; [done|]. right. split; [|done]. intros a fh Hin. by apply elem_of_nil in Hin.
    - intros a fh h Hin. by apply elem_of_nil in Hin.
    - intros b Hb. by right. }
  apply NoDup_cons in Hnd as [Hnotin Hnd]. destruct (Hl a) as [fh Ha]; [left|].
  destruct (lostb_report P st a fh (plogs a) HI HP Ha) as
    (st1 & E1 & [HI1 HP1] & _ & _ & _ & Hhi1 & _ & Ht1 & _ & _ & Hho1 & Hv1 & _ & _ & Hot1 & Htk1 & Hpl1 & Hkb1).
  rewrite bind_cons, steps_app, E1 in Hs.
  assert (Hcur1 : all_current st1).
  { intros s h c1 Hh1 Hc1. rewrite Hhi1 in Hh1. destruct (ml_members _ _ HP s h Hh1) as (c & Hc & _).
    destruct (Hv1 s h c Hh1 Hc) as (c' & Hc' & _ & Hkeep & _). assert (c' = c1) as -> by congruence. apply Hkeep. by apply (Hcur s). }
  assert (Hl1 : ∀ a', a' ∈ l → is_Some (f_hosts st1 !! a')).
  { intros a' Hin'. rewrite Hho1. destruct (decide (a' = a)) as [->|Hne]; [by rewrite lookup_insert|]. rewrite lookup_insert_ne by done. apply Hl. by right. }
  assert (Hreps1 : ∀ a' fh', a' ≠ a → f_hosts st !! a' = Some fh' → f_hosts st1 !! a' = Some fh') by (intros a' fh' Hne Hfh'; rewrite Hho1; by rewrite lookup_insert_ne).
  destruct (IH st1 st' HI1 HP1 Hcur1 Hnd Hl1 Hs) as (Htk2 & Hpl2 & Hkb2).
  split; [|split].
  - intros s rid n2 Hn2. destruct (Htk2 s rid n2 Hn2) as (n1 & Hn1 & Hcase2).
    (* the record existed before the report of a: the shard is current *)
    assert (Hex : ∃ n, rec_of (d_view (f_db st)) s rid = Some n ∧ r_tick n1 = if runs_on fh s rid then d_tick (f_db st) else r_tick n).
    { destruct (Htk1 s rid n1 Hn1) as [(n & Hn & _ & Htk)|(Hnone & _)]; [by exists n|]. exfalso.
      apply rec_of_Some in Hn1 as (c1 & Hc1 & Hk1). destruct (ml_viewdef _ _ HP1 s) as [_ [h Hh1]]; [by eexists|]. rewrite Hhi1 in Hh1.
      destruct (ml_members _ _ HP s h Hh1) as (c & Hc & _).
      destruct (current_same_keys st st1 s h c c1 rid HI HI1 Hhi1 Hh1 Hc Hc1) as [n0 Hn0]; [by apply (Hcur s)|apply (Hcur1 s); [by rewrite Hhi1|done]|by eexists|].
      assert (rec_of (d_view (f_db st)) s rid = Some n0) by (apply rec_of_Some; eauto). congruence. }
    destruct Hex as (n & Hn & Htk). exists n. split; [done|].
    destruct Hcase2 as [[(a' & fh' & Hin' & Hfh' & Hrun') Ht2]|[Hnone2 Ht2]].
    + left. split; [|congruence]. assert (a' ≠ a) by (intros ->; done). rewrite Hho1, lookup_insert_ne in Hfh' by done. exists a', fh'. split; [by right|done].
    + destruct (runs_on fh s rid) eqn:Erun.
      * left. split; [|congruence]. exists a, fh. split; [left|done].
      * right. split; [|congruence]. intros a' fh' Hin' Hfh'. apply elem_of_cons in Hin' as [->|Hin']; [congruence|].
        assert (a' ≠ a) by (intros ->; done). apply (Hnone2 a' fh' Hin'). by apply Hreps1.
  - intros a' fh' h Hin Hpl Hfh' Hh k Hk. apply elem_of_cons in Hin as [->|Hin].
    + assert (fh' = fh) as -> by congruence.
      (* the later reports keep the record of a *)
      assert (Hkeep : ∀ l0 stx stx', NoDup l0 → a ∉ l0 → LoopInv stx → MendL (nonout stx) stx → (∀ a', a' ∈ l0 → is_Some (f_hosts stx !! a')) →
                steps P stx (l0 ≫= λ a, [ESnap a (plogs a); EDeliver a false]) = Some stx' →
                ∀ hx, d_hosts (f_db stx) !! a = Some hx → ∃ hx', d_hosts (f_db stx') !! a = Some hx' ∧ h_plog hx' = h_plog hx).
      { clear. induction l0 as [|b l0 IH0]; intros stx stx' Hnd Hna HIx HPx Hlx Hsx hx Hhx; [cbn in Hsx; injection Hsx as <-; by exists hx|].
        apply NoDup_cons in Hnd as [Hnb Hnd]. apply not_elem_of_cons in Hna as [Hab Hna]. destruct (Hlx b) as [fhb Hb]; [left|].
        destruct (lostb_report P stx b fhb (plogs b) HIx HPx Hb) as (sty & Ey & [HIy HPy] & _ & _ & _ & _ & _ & _ & _ & _ & Hhoy & _ & _ & _ & Hoty & _).
        rewrite bind_cons, steps_app, Ey in Hsx. destruct (Hoty a hx Hab Hhx) as (hy & Hhy & _ & Hply).
        destruct (IH0 sty stx' Hnd Hna HIy HPy) with (hx := hy) as (hx' & Hhx' & Hplx'); [|done|done|].
        - intros a' Hin'. rewrite Hhoy. destruct (decide (a' = b)) as [->|Hne]; [by rewrite lookup_insert|]. rewrite lookup_insert_ne by done. apply Hlx. by right.
        - exists hx'. split; [done|]. congruence. }
      destruct (ml_hosts _ _ HP a fh Ha) as [_ _].
      assert (∃ h1, d_hosts (f_db st1) !! a = Some h1) as [h1 Hh1].
      { destruct (d_hosts (f_db st1) !! a) as [h1|] eqn:E; [by eexists|]. exfalso.
        destruct (Hkb2 a ltac:(by eexists)) as [?|[? ?]]; [done|congruence]. }
      destruct (Hkeep l st1 st' Hnd Hnotin HI1 HP1 Hl1 Hs h1 Hh1) as (h' & Hh' & Hpleq). assert (h' = h) as -> by congruence.
      rewrite Hpleq in Hk. by apply (Hpl1 Hpl h1 Hh1 k).
    + assert (a' ≠ a) by (intros ->; done). apply (Hpl2 a' fh' h Hin Hpl); [by apply Hreps1|done|done].
  - intros b Hb. destruct (Hkb2 b Hb) as [?|Hb1]; [left; by right|]. destruct (Hkb1 b Hb1) as [->|?]; [left; left|by right].
Qed.

(** * the execution / catch-up phases when every pending request is a leftover or a restore *)
Lemma lost_exec_event st a st' :
  LostX st → inert st → fstep P st (EExec a true) = FOk st' →
  f_hist st' = f_hist st ∧
  (∀ b s rid, mkey (f_hist st) (s, rid) → member_running (f_hosts st) s rid b = true → member_running (f_hosts st') s rid b = true) ∧
  (∀ b fh' k, f_hosts st' !! b = Some fh' → is_Some (fh_reps fh' !! k) → ∃ fh, f_hosts st !! b = Some fh ∧ is_Some (fh_reps fh !! k)) ∧
  inert st'.
Proof.
  intros HX Hin E. pose proof (lostx_exec P st a st' HX E) as (_ & Hdb & Hq).
  destruct st as [d hosts hist seen]. destruct HX as [(HI & HP & Hoh) Hnc]. cbn [fstep f_db f_hosts f_hist f_seen] in *.
  destruct (hosts !! a) as [fh|] eqn:Ha; [|done]. destruct (ml_hosts _ _ HP a fh Ha) as [Hup Hout]. cbn [f_hosts] in Hup. rewrite Hup in E.
  set (hosts0 := <[a := mkFHost true (fh_region fh) (fh_reps fh) [] (fh_out fh)]> hosts) in *.
  destruct (exec_all a true (hosts0, hist) (fh_queue fh)) as [x|] eqn:Ex; [|done]. injection E as <-. cbn [f_hist f_hosts f_db] in *.
  set (st := mkF d hosts hist seen) in *.
  pose proof (exec_start st a fh HI Ha) as HI0. cbn [f_db f_hosts f_hist f_seen st] in HI0. fold hosts0 in HI0.
  assert (HP0 : MendL (nonout st) (mkF d hosts0 hist seen)).
  { apply (ml_same_reps _ d hosts hosts0 hist seen); [|exact HP]. intros b. unfold hosts0. destruct (decide (b = a)) as [->|Hne].
    - rewrite Ha, lookup_insert. eexists. split; [done|]. cbn. done.
    - rewrite lookup_insert_ne by done. destruct (hosts !! b) as [fhb|] eqn:Hb; [|done]. exists fhb. split; [done|]. split; [done|].
      apply (ml_hosts _ _ HP b fhb Hb). }
  pose proof (xb_hm _ _ _ (ml_xb (nonout st) d hosts0 hist seen _ HI0 HP0)) as HH0. cbn [fst snd] in HH0.
  assert (Hgood : Forall (mharmless hist a) (fh_queue fh)).
  { apply Forall_forall. intros q Hq0. apply (Hin a q). right. exists fh. done. }
  destruct (mexec_all (shard_size d) hist a (fh_queue fh) (hosts0, hist) (li_hist _ _ _ _ _ HI) eq_refl HH0 Hgood) as (x' & Ex' & Hx2 & _ & Hev & _).
  { cbn. unfold hosts0. rewrite lookup_insert. by eexists. }
  assert (x' = x) as -> by congruence. cbn [fst snd] in Hev.
  split; [done|]. split; [|split].
  - intros b s rid Hmk Hrun. apply (grows_running hist hosts0 x.1 s rid b Hev Hmk).
    unfold member_running in *. unfold hosts0. destruct (decide (b = a)) as [->|Hne]; [rewrite lookup_insert; rewrite Ha, Hup in Hrun; exact Hrun|by rewrite lookup_insert_ne].
  - intros b fh' k Hb Hk.
    destruct (exec_all_nonew a true (fh_queue fh) (hosts0, hist) x Ex) with (a := b) (fh' := fh') (k := k) as (fh0 & Hfh0 & Hk0); [|done|done|].
    + apply Forall_forall. intros q Hq0 Hcq. apply (Hin a q); [right; exists fh; done|done].
    + cbn [fst] in Hfh0. unfold hosts0 in Hfh0. destruct (decide (b = a)) as [->|Hne].
      * rewrite lookup_insert in Hfh0. injection Hfh0 as <-. by exists fh.
      * rewrite lookup_insert_ne in Hfh0 by done. by exists fh0.
  - intros b q Hq0.
    assert (Hsub : nonout st b q).
    { destruct Hq0 as [Hq0|(fh' & Hb & Hinq)]; [by left|].
      cbn [f_hosts] in Hb. specialize (Hq b). cbn [f_hosts] in Hq. destruct (hosts !! b) as [fhb|] eqn:Hbb; [|congruence].
      destruct Hq as (fh2 & Hfh2 & Hq2). assert (fh2 = fh') as -> by congruence. rewrite Hq2 in Hinq.
      destruct (decide (b = a)); [by apply elem_of_nil in Hinq|]. right. by exists fhb. }
    destruct (Hin b q Hsub) as [Hm Hc]. rewrite Hx2. split; [done|]. intros Hcq. destruct (Hc Hcq) as [Hr [fhb Hb]]. split; [done|].
    specialize (Hq b). cbn [f_hosts st] in Hq, Hb |- *. rewrite Hb in Hq. destruct Hq as (fh2 & -> & _). by eexists.
Qed.

Lemma learn_frame st a s r v st' :
  LoopInv st → is_Some (cur_members (hist_of (f_hist st) s) !! r) → fstep P st (ELearn a s r v) = FOk st' →
  (∀ b s0 rid, member_running (f_hosts st) s0 rid b = true → member_running (f_hosts st') s0 rid b = true) ∧
  (∀ b fh' k, f_hosts st' !! b = Some fh' → is_Some (fh_reps fh' !! k) → ∃ fh, f_hosts st !! b = Some fh ∧ is_Some (fh_reps fh !! k)).
Proof.
  intros HI Hmem E. destruct st as [d hosts hist seen]. cbn [fstep f_db f_hosts f_hist f_seen] in *.
  destruct (hosts !! a) as [fh|] eqn:Ha; [|done]. destruct (fh_reps fh !! (s, r)) as [lr|] eqn:Ek; [|done].
  destruct (fh_up fh && lr_running lr && (lr_ver lr <? v) && _) eqn:Econd; [|done]. injection E as <-.
  apply andb_true_iff in Econd as [Econd _]. apply andb_true_iff in Econd as [Econd _]. apply andb_true_iff in Econd as [Hup Hrun].
  unfold hist_of in Hmem. destruct (hist !! s) as [h|] eqn:Hh; [|by destruct Hmem]. cbn [default from_option id] in Hmem.
  assert (Hrem : removed_at (hist_of hist s) r v = false).
  { unfold hist_of. rewrite Hh. cbn [default from_option id]. apply (member_not_removed_wf _ h r v (li_hist _ _ _ _ _ HI s h Hh) Hmem). }
  unfold set_host. cbn [f_hosts]. rewrite Hrem. cbn [negb]. split.
  - intros b s0 rid Hr0. unfold member_running in *. destruct (decide (b = a)) as [->|Hne]; [|by rewrite lookup_insert_ne].
    rewrite lookup_insert. rewrite Ha in Hr0. cbn [fh_up fh_reps]. rewrite Hup in Hr0. cbn [andb] in Hr0 |- *.
    destruct (decide ((s0, rid) = (s, r))) as [Heq|Hn0]; [rewrite Heq, lookup_insert; done|by rewrite lookup_insert_ne].
  - intros b fh' k Hb Hk. destruct (decide (b = a)) as [->|Hne]; [|rewrite lookup_insert_ne in Hb by done; by exists fh'].
    rewrite lookup_insert in Hb. injection Hb as <-. exists fh. split; [done|]. cbn [fh_reps] in Hk.
    destruct (decide (k = (s, r))) as [->|Hn0]; [by eexists|by rewrite lookup_insert_ne in Hk].
Qed.

(** * Part 3: the leader's decision for a shard with a lost member *)
Lemma mvals_nodup (m : gmap N replica) : (∀ k n, m !! k = Some n → r_id n = k) → NoDup (mvals m).
Proof.
  intros Hid. unfold mvals. apply NoDup_fmap_2_strong; [|apply NoDup_map_to_list].
  intros [k1 n1] [k2 n2] H1 H2 Heq. cbn in Heq. subst n2. apply elem_of_map_to_list in H1, H2.
  rewrite <- (Hid k1 n1 H1), <- (Hid k2 n1 H2). done.
Qed.

Lemma length_filter_le1 {A} (Pr : A → Prop) `{∀ x, Decision (Pr x)} (l : list A) :
  NoDup l → (∀ x y, x ∈ l → y ∈ l → Pr x → Pr y → x = y) → (length (filter Pr l) ≤ 1)%nat.
Proof.
  induction l as [|x l IH]; intros Hnd Heq; [cbn; lia|]. apply NoDup_cons in Hnd as [Hnin Hnd]. rewrite filter_cons.
  destruct (decide (Pr x)) as [Hx|Hx].
  - cbn [length]. assert (filter Pr l = []) as ->; [|cbn; lia]. apply elem_of_nil_inv. intros y Hy. apply elem_of_list_filter in Hy as [Hy Hin].
    assert (x = y) as -> by (apply Heq; [left|by right|done|done]). done.
  - apply IH; [done|]. intros y z Hy Hz. apply Heq; by right.
Qed.

(* the state in which the leader schedules: every NodeHost has reported at t; a member that is not lost has reported
   at t; a lost member has reported in the past, and the persisted log its NodeHost announced does not list it *)
Record LReady (st : fstate) (t : N) : Prop := mkLReady {
  lr_inv : LoopInv st;
  lr_cur : all_current st;
  lr_def : ∀ s, is_Some (d_view (f_db st) !! s) → ∃ sd, d_shards (f_db st) !! s = Some sd ∧ sd_app sd ≠ 0;
  lr_t : t ≠ 0 ∧ d_tick (f_db st) - t ≤ p_ttl P;
  lr_class : ∀ s c rid n, d_view (f_db st) !! s = Some c → s_reps c !! rid = Some n → r_tick n = t ∨ L s rid;
  lr_lost : ∀ s c rid n, d_view (f_db st) !! s = Some c → s_reps c !! rid = Some n → L s rid →
    r_tick n ≠ 0 ∧ ∀ hh, d_hosts (f_db st) !! r_addr n = Some hh → (s, rid) ∉ h_plog hh;
  lr_one : ∀ s r1 r2, L s r1 → L s r2 → r1 = r2;
  lr_size : ∀ s rid h, L s rid → f_hist st !! s = Some h →
    (size (cur_members h) = shard_size (f_db st) s ∧ 3 ≤ size (cur_members h))%nat }.

Lemma lost_entry st t c :
  LReady st t → c ∈ entries (ctx_of_db (f_db st)) →
  let C := ctx_of_db (f_db st) in
  ∃ h, f_hist st !! s_id c = Some h ∧ d_view (f_db st) !! s_id c = Some c ∧ s_cci c = cur_version h ∧
    sr_wait P C c = [] ∧ has_restore P C c = false ∧
    (∀ n, n ∈ sr_failed P C c → L (s_id c) (r_id n)) ∧
    (sr_failed P C c = [] → repair_action P C c = ANone) ∧
    (sr_failed P C c ≠ [] → repair_action P C c = AAdd).
Proof.
  intros HR Hc C. pose proof (lr_inv _ _ HR) as HI. destruct (lr_t _ _ HR) as [Ht0 Hgap].
  destruct (view_entry_facts (f_db st) (f_hist st) c (li_view _ _ _ _ _ HI) Hc) as (h & Hh & Hvc & _ & _).
  pose proof (lr_cur _ _ HR _ _ _ Hh Hvc) as Hcc.
  destruct (calm_view st _ h c HI Hh Hvc Hcc) as (HM & _ & Hids).
  destruct (lr_def _ _ HR (s_id c)) as (sd & Hsd & Happ); [by eexists|].
  exists h. split; [done|]. split; [done|]. split; [done|].
  assert (Hrec : ∀ n, n ∈ mvals (s_reps c) → s_reps c !! r_id n = Some n).
  { intros n Hn. apply mvals_elem in Hn as [rid Hn]. destruct (Hids rid n Hn) as [-> _]. done. }
  assert (Hwait : sr_wait P C c = []).
  { apply elem_of_nil_inv. intros n Hn. apply elem_sr_wait in Hn as [Hn Hw]. pose proof (Hrec n Hn) as Hk.
    unfold replica_waiting in Hw. apply andb_true_iff in Hw as [Hz _]. apply N.eqb_eq in Hz.
    destruct (lr_class _ _ HR _ _ _ _ Hvc Hk) as [Htk|Hl]; [congruence|]. by destruct (lr_lost _ _ HR _ _ _ _ Hvc Hk Hl). }
  assert (Hfl : ∀ n, n ∈ sr_failed P C c → L (s_id c) (r_id n)).
  { intros n Hn. apply elem_sr_failed in Hn as [Hn Hf]. pose proof (Hrec n Hn) as Hk.
    destruct (lr_class _ _ HR _ _ _ _ Hvc Hk) as [Htk|Hl]; [|done]. exfalso.
    unfold replica_failed in Hf. rewrite Htk in Hf. assert ((t =? 0) = false) as Hz by (by apply N.eqb_neq). rewrite Hz in Hf.
    unfold entity_failed in Hf. apply N.ltb_lt in Hf. unfold C, ctx_of_db in Hf. cbn [c_tick] in Hf. lia. }
  assert (Hrest : restorable P C c = []).
  { apply elem_of_nil_inv. intros n Hn. apply elem_restorable in Hn as [Hn Hr]. pose proof (Hfl n Hn) as Hl.
    apply elem_sr_failed in Hn as [Hn _]. pose proof (Hrec n Hn) as Hk. destruct (lr_lost _ _ HR _ _ _ _ Hvc Hk Hl) as [_ Hnolog].
    unfold restorable_rep in Hr. unfold C, ctx_of_db in Hr. cbn [c_hosts] in Hr. destruct (d_hosts (f_db st) !! r_addr n) as [hh|] eqn:Ehh; [|done].
    apply andb_true_iff in Hr as [_ Hlog]. unfold host_has_log in Hlog. apply bool_decide_eq_true in Hlog.
    destruct (Hids _ _ Hk) as [_ Hsh]. rewrite Hsh in Hlog. by apply (Hnolog hh). }
  assert (Hhr : has_restore P C c = false).
  { unfold has_restore, restore_set. rewrite Hrest. destruct (need_restore P C c); [|done]. by case_bool_decide. }
  assert (Hnr : is_restored P C c = false).
  { apply not_true_is_false. intros Hr. unfold is_restored in Hr. apply existsb_exists in Hr as (i & Hi & Heq).
    apply N.eqb_eq in Heq. subst i. apply elem_of_list_In in Hi. unfold restored_ids in Hi.
    apply elem_of_list_fmap in Hi as (c2 & Hid & Hc2). apply elem_of_list_filter in Hc2 as [Hr2 Hc2].
    assert (c2 = c) as -> by (apply (entry_inj C (loopinv_ctx_wf st HI)); done). congruence. }
  split; [done|]. split; [done|]. split; [done|]. split.
  - intros Ef. unfold repair_action. assert (in_repair P C c = false) as ->; [|done].
    unfold in_repair, n_failed, n_wait. rewrite Ef, Hwait. done.
  - intros Ef.
    (* exactly one failed member: the lost one *)
    assert (Hone : n_failed P C c = 1%nat).
    { assert (n_failed P C c ≤ 1)%nat.
      { unfold n_failed, sr_failed, failed_replicas. apply length_filter_le1; [apply mvals_nodup; intros k n Hn; by destruct (Hids k n Hn)|].
        intros x y Hx Hy Fx Fy.
        assert (Lx : L (s_id c) (r_id x)) by (apply Hfl, elem_sr_failed; done).
        assert (Ly : L (s_id c) (r_id y)) by (apply Hfl, elem_sr_failed; done).
        pose proof (lr_one _ _ HR _ _ _ Lx Ly) as Heq. pose proof (Hrec x Hx) as Hkx. pose proof (Hrec y Hy) as Hky. rewrite Heq in Hkx. congruence. }
      unfold n_failed in *. destruct (sr_failed P C c); [done|]. cbn [length] in *. lia. }
    destruct (sr_failed P C c) as [|nf l0] eqn:Efl; [done|].
    assert (Hlf : L (s_id c) (r_id nf)) by (apply Hfl; left).
    assert (Hsz : size (s_reps c) = size (cur_members h)) by (by rewrite <- HM, map_size_fmap).
    destruct (lr_size _ _ HR _ _ h Hlf Hh) as [Hexp H3].
    pose proof (sr_partition P C c) as Hp. unfold n_wait in Hp. rewrite Hwait in Hp. cbn [length] in Hp. rewrite Hone in Hp.
    assert (Hav : sr_available P C c = true).
    { unfold sr_available. apply bool_decide_eq_true. rewrite sr_quorum_eq. unfold quorum_of.
      pose proof (Nat.div_lt_upper_bound (size (s_reps c)) 2 (size (s_reps c) - 1) ltac:(lia) ltac:(lia)). lia. }
    unfold repair_action. assert (in_repair P C c = true) as ->.
    { unfold in_repair. rewrite Hone. done. }
    rewrite Hnr. cbn [negb orb]. unfold C at 1. cbn [ctx_of_db c_defs]. rewrite Hsd.
    assert (delete_required P C c (length (sd_members sd)) = false) as ->.
    { unfold delete_required. rewrite Hav, Hone. cbn [andb]. apply andb_false_iff. right. apply bool_decide_eq_false.
      unfold shard_size in Hexp. rewrite Hsd in Hexp. lia. }
    assert (create_required P C c = false) as ->.
    { unfold create_required, n_wait. rewrite Hwait. done. }
    assert (add_required P C c = true) as ->; [|done].
    unfold add_required. rewrite Hav, Hone. unfold n_wait. rewrite Hwait. done.
Qed.

(** * Part 4: a healthy round from Lost *)
Hypothesis Ldec : ∀ s rid, L s rid ∨ ¬ L s rid.

Lemma running_runs_on st s rid a :
  member_running (f_hosts st) s rid a = true → ∃ fh, f_hosts st !! a = Some fh ∧ runs_on fh s rid = true.
Proof.
  unfold member_running, runs_on. destruct (f_hosts st !! a) as [fh|]; [|done]. intros H. exists fh. split; [done|].
  apply andb_true_iff in H as [_ H]. exact H.
Qed.

(* the state in which the leader schedules, and what the round has left untouched *)
Lemma lost_pre st plogs nticks st4 :
  Lost st → (∀ a, plogs a = true) → N.of_nat nticks * p_step P ≤ p_ttl P →
  pre_schedule P plogs nticks st = Some st4 →
  LostX st4 ∧ inert st4 ∧ LReady st4 (d_tick (f_db st)) ∧ f_hist st4 = f_hist st ∧
  d_tick (f_db st4) = d_tick (f_db st) + N.of_nat nticks * p_step P ∧ d_shards (f_db st4) = d_shards (f_db st) ∧
  (∀ s f, L s f → mem_tick st4 s f = mem_tick st s f) ∧
  (∀ s rid a, member st s rid a → ¬ L s rid → member_running (f_hosts st4) s rid a = true) ∧
  (∀ b fh4 k, f_hosts st4 !! b = Some fh4 → is_Some (fh_reps fh4 !! k) → ∃ fh, f_hosts st !! b = Some fh ∧ is_Some (fh_reps fh !! k)) ∧
  (∀ b, is_Some (f_hosts st4 !! b) ↔ is_Some (f_hosts st !! b)) ∧
  (∀ b, is_Some (d_hosts (f_db st4) !! b) → is_Some (f_hosts st !! b)) ∧
  (∀ a q, nonout st4 a q → f_hosts st4 !! a = None).
Proof.
  intros [HK Hin] Hpl Httl. destruct (lo_b _ HK) as (HI & HP & Hoh). unfold pre_schedule. set (t := d_tick (f_db st)).
  assert (Hl : ∀ a, a ∈ host_addrs st → is_Some (f_hosts st !! a)) by (intros a; apply host_addrs_elem).
  destruct (lostb_reports P plogs (host_addrs st) st HI HP (host_addrs_nodup st) Hl) as
    (st1 & E1 & [HI1 HP1] & Ho1a & Ho1b & Hsub1 & Hhi1 & Hse1 & Ht1 & Hsh1 & Hho1 & Hho1' & Hv1 & Hst1 & Hsp1 & Hot1).
  pose proof (lost_reports_facts plogs (host_addrs st) st st1 HI HP (lo_cur _ HK) (host_addrs_nodup st) Hl E1) as (Htk & Hplog & Hkeys).
  pose proof (lostb_reports_requests P plogs (host_addrs st) st st1 HI HP (host_addrs_nodup st) Hl E1) as Hrq1.
  rewrite E1.
  assert (Hdom1 : ∀ a, is_Some (f_hosts st1 !! a) ↔ is_Some (f_hosts st !! a)).
  { intros a. destruct (f_hosts st !! a) as [fh|] eqn:Ha.
    - destruct (Hho1 a fh) as (fh' & -> & _); [apply host_addrs_elem; by eexists|done|]. split; intros _; by eexists.
    - rewrite Hho1', Ha; [done|]. intros Hin0. apply host_addrs_elem in Hin0. rewrite Ha in Hin0. by destruct Hin0. }
  assert (Hcur1 : all_current st1).
  { intros s h c1 Hh1 Hc1. rewrite Hhi1 in Hh1. destruct (ml_members _ _ HP s h Hh1) as (c & Hc & _).
    destruct (Hv1 s h c Hh1 Hc) as (c' & Hc' & _ & Hkeep & _). assert (c' = c1) as -> by congruence. apply Hkeep. by apply (lo_cur _ HK s). }
  assert (HX1 : LostX st1).
  { split; [split; [done|split; [done|]]|].
    - intros a Ha. apply Hdom1. destruct (decide (a ∈ host_addrs st)) as [Hin0|Hnin]; [by apply host_addrs_elem|].
      apply Hoh. rewrite <- (Ho1b a Hnin). exact Ha.
    - intros s h c v M M' x rest Hh Hc Hb. exfalso. pose proof (Hcur1 s h c Hh Hc) as Hcc. destruct Hb as (-> & Hv & _). cbn in Hcc. lia. }
  assert (Hin1 : inert st1).
  { intros a q Hq. destruct (Hin a q (Hsub1 a q Hq)) as [Hm Hc]. rewrite Hhi1. split; [done|]. intros Hcq. destruct (Hc Hcq) as [? ?]. split; [done|]. by apply Hdom1. }
  (* the NodeHosts execute *)
  destruct (steps P st1 ((λ a, EExec a true) <$> host_addrs st1)) as [st2|] eqn:E2; [|done].
  destruct (lostx_execs P (host_addrs st1) st1 st2 HX1 E2) as (HX2 & Hd2 & Hq2).
  pose proof (steps_pres P (λ stx, LostX stx ∧ inert stx ∧ f_hist stx = f_hist st1 ∧
      (∀ b s rid, mkey (f_hist st1) (s, rid) → member_running (f_hosts st1) s rid b = true → member_running (f_hosts stx) s rid b = true) ∧
      (∀ b fh' k, f_hosts stx !! b = Some fh' → is_Some (fh_reps fh' !! k) → ∃ fh, f_hosts st1 !! b = Some fh ∧ is_Some (fh_reps fh !! k)))
      ((λ a, EExec a true) <$> host_addrs st1)) as Hex.
  destruct (Hex) with (st := st1) (st' := st2) as (_ & Hin2 & Hhi2 & Hrun2 & Hk2); [| |done|].
  { intros stx ev sty Hev (HXx & Hinx & Hhx & Hrx & Hkx) E. apply elem_of_list_fmap in Hev as (a & -> & _).
    destruct (lost_exec_event stx a sty HXx Hinx E) as (Hh & Hr & Hk & Hi). pose proof (lostx_exec P stx a sty HXx E) as (HXy & _).
    split; [done|]. split; [done|]. split; [congruence|]. split.
    - intros b s rid Hmk Hrb. apply Hr; [by rewrite Hhx|]. by apply Hrx.
    - intros b fh' k Hb Hkk. destruct (Hk b fh' k Hb Hkk) as (fh0 & Hfh0 & Hk0). by apply (Hkx b fh0 k). }
  { split; [done|]. split; [done|]. split; [done|]. split; [done|]. intros b fh' k Hb Hkk. by exists fh'. }
  clear Hex.
  (* Raft catches up *)
  destruct (steps P st2 (catch_up_events st2)) as [st3|] eqn:E3; [|done].
  destruct (lostx_learns P st2 st3 HX2 E3) as (HX3 & Hd3 & Hhi3 & Hf3).
  pose proof (steps_pres P (λ stx, LostX stx ∧ f_hist stx = f_hist st2 ∧
      (∀ b s rid, member_running (f_hosts st2) s rid b = true → member_running (f_hosts stx) s rid b = true) ∧
      (∀ b fh' k, f_hosts stx !! b = Some fh' → is_Some (fh_reps fh' !! k) → ∃ fh, f_hosts st2 !! b = Some fh ∧ is_Some (fh_reps fh !! k)))
      (catch_up_events st2)) as Hex.
  destruct (Hex) with (st := st2) (st' := st3) as (_ & _ & Hrun3 & Hk3); [| |done|].
  { intros stx ev sty Hev (HXx & Hhx & Hrx & Hkx) E. apply catch_up_members in Hev as (a & s & r & v & -> & Hm). rewrite <- Hhx in Hm.
    destruct (lostx_learn P stx a s r v sty HXx Hm E) as (HXy & _ & Hhy & _).
    destruct HXx as [(HIx & _) _]. destruct (learn_frame stx a s r v sty HIx Hm E) as (Hr & Hk).
    split; [done|]. split; [congruence|]. split.
    - intros b s0 rid Hrb. apply Hr. by apply Hrx.
    - intros b fh' k Hb Hkk. destruct (Hk b fh' k Hb Hkk) as (fh0 & Hfh0 & Hk0). by apply (Hkx b fh0 k). }
  { split; [done|]. split; [done|]. split; [done|]. intros b fh' k Hb Hkk. by exists fh'. }
  clear Hex.
  (* time passes *)
  destruct (steps P st3 (replicate nticks ETick)) as [st4'|] eqn:E4; [|done]. intros [= ->].
  destruct (lostx_ticks P nticks st3 st4 HX3 E4) as (HX4 & Hd4 & Hho4 & Hhi4).
  set (T := d_tick (f_db st1) + N.of_nat nticks * p_step P).
  assert (Hdb : f_db st4 = set_tick (f_db st1) T) by (rewrite Hd4, Hd3, Hd2; done).
  assert (Hhist4 : f_hist st4 = f_hist st) by congruence.
  assert (Hdom4 : ∀ b, is_Some (f_hosts st4 !! b) ↔ is_Some (f_hosts st !! b)).
  { intros b. rewrite Hho4, <- Hdom1. specialize (Hq2 b). specialize (Hf3 b). destruct (f_hosts st1 !! b) as [fh1|].
    - destruct Hq2 as (fh2 & Hfh2 & _). rewrite Hfh2 in Hf3. destruct Hf3 as (fh3 & -> & _). split; intros _; by eexists.
    - rewrite Hq2 in Hf3. rewrite Hf3. done. }
  assert (Hrun4 : ∀ s rid a, member st s rid a → ¬ L s rid → member_running (f_hosts st4) s rid a = true).
  { intros s rid a Hm HnL. rewrite Hho4. apply Hrun3, Hrun2.
    - destruct Hm as (h & Hh & Hma). exists h. cbn. rewrite Hhi1. split; [done|by eexists].
    - pose proof (lo_run _ HK s rid a Hm HnL) as Hr. apply running_runs_on in Hr as (fh & Hfh & Hro).
      destruct (Hho1 a fh) as (fh1 & Hfh1 & Hr1); [apply host_addrs_elem; by eexists|done|].
      unfold member_running. rewrite Hfh1. destruct (ml_hosts _ _ HP1 a fh1 Hfh1) as [-> _]. cbn. unfold runs_on in Hro. by rewrite Hr1. }
  assert (Hkeys4 : ∀ b fh4 k, f_hosts st4 !! b = Some fh4 → is_Some (fh_reps fh4 !! k) → ∃ fh, f_hosts st !! b = Some fh ∧ is_Some (fh_reps fh !! k)).
  { intros b fh4 k Hb Hk. rewrite Hho4 in Hb. destruct (Hk3 b fh4 k Hb Hk) as (fh2 & Hfh2 & Hkk2). destruct (Hk2 b fh2 k Hfh2 Hkk2) as (fh1 & Hfh1 & Hkk1).
    destruct (f_hosts st !! b) as [fh|] eqn:Hfb.
    - destruct (Hho1 b fh) as (fh1' & Hfh1' & Hr1); [apply host_addrs_elem; by eexists|done|]. assert (fh1' = fh1) as -> by congruence. exists fh. by rewrite <- Hr1.
    - exfalso. assert (is_Some (f_hosts st !! b)) as [? ?] by (apply Hdom1; by eexists). congruence. }
  split; [done|].
  assert (Hin4 : inert st4).
  { intros a q Hq. assert (Hq2' : nonout st2 a q).
    { destruct Hq as [(qs & Hl0 & Hi0)|(fh4 & Hl0 & Hi0)].
      - left. exists qs. rewrite Hd4, Hd3 in Hl0. done.
      - right. rewrite Hho4 in Hl0. specialize (Hf3 a). destruct (f_hosts st2 !! a) as [fh2|]; [|congruence]. destruct Hf3 as (fh3 & Hfh3 & Hq3).
        assert (fh3 = fh4) as -> by congruence. exists fh2. split; [done|]. by rewrite <- Hq3. }
    destruct (Hin2 a q Hq2') as [Hm Hc]. rewrite Hhi4, Hhi3. split; [done|]. intros Hcq. destruct (Hc Hcq) as [? [fh2 Hfh2]]. split; [done|].
    rewrite Hho4. specialize (Hf3 a). rewrite Hfh2 in Hf3. destruct Hf3 as (fh3 & -> & _). by eexists. }
  split; [done|].
  (* records *)
  assert (Hview4 : d_view (f_db st4) = d_view (f_db st1)) by (by rewrite Hdb).
  assert (Hmemrec : ∀ s c1 rid n1, d_view (f_db st1) !! s = Some c1 → s_reps c1 !! rid = Some n1 →
            ∃ h, f_hist st !! s = Some h ∧ cur_members h !! rid = Some (r_addr n1)).
  { intros s c1 rid n1 Hc1 Hn1. destruct (ml_viewdef _ _ HP1 s) as [_ [h Hh1]]; [by eexists|].
    destruct (calm_view st1 s h c1 HI1 Hh1 Hc1 (Hcur1 s h c1 Hh1 Hc1)) as (HM & _). exists h. rewrite <- Hhi1. split; [done|].
    rewrite <- HM, lookup_fmap, Hn1. done. }
  assert (Hclass : ∀ s c1 rid n1, d_view (f_db st1) !! s = Some c1 → s_reps c1 !! rid = Some n1 →
            ∃ n0, rec_of (d_view (f_db st)) s rid = Some n0 ∧
              ((¬ L s rid ∧ r_tick n1 = t) ∨ (L s rid ∧ r_tick n1 = r_tick n0))).
  { intros s c1 rid n1 Hc1 Hn1. assert (Hrec1 : rec_of (d_view (f_db st1)) s rid = Some n1) by (apply rec_of_Some; eauto).
    destruct (Htk s rid n1 Hrec1) as (n0 & Hn0 & Hcase). exists n0. split; [done|].
    destruct (Hmemrec s c1 rid n1 Hc1 Hn1) as (h & Hh & Hm).
    destruct (Ldec s rid) as [Hl0|Hnl].
    - right. split; [done|]. destruct Hcase as [[(a & fh & _ & Hfh & Hro) _]|[_ ?]]; [|done]. exfalso.
      unfold runs_on in Hro. rewrite (lo_nodata _ HK s rid Hl0 a fh Hfh) in Hro. done.
    - left. split; [done|]. destruct Hcase as [[_ ?]|[Hnone _]]; [done|]. exfalso.
      assert (Hmm : member st s rid (r_addr n1)) by (by exists h).
      pose proof (lo_run _ HK s rid _ Hmm Hnl) as Hr. apply running_runs_on in Hr as (fh & Hfh & Hro).
      rewrite (Hnone (r_addr n1) fh) in Hro; [done|apply host_addrs_elem; by eexists|done]. }
  assert (Hpos : 0 < t) by apply (ml_time _ _ HP).
  split.
  { split.
    - by destruct HX4 as [(? & _) _].
    - intros s h c Hh Hc. rewrite Hview4 in Hc. rewrite Hhi4, Hhi3, Hhi2 in Hh. by apply (Hcur1 s).
    - intros s Hs. rewrite Hview4 in Hs. destruct (ml_viewdef _ _ HP1 s Hs) as [[sd Hsd] _]. destruct (ml_defined _ _ HP1 s sd Hsd) as (_ & _ & Happ).
      exists sd. rewrite Hdb. cbn [set_tick d_shards]. done.
    - split; [lia|]. rewrite Hdb. cbn [set_tick d_tick]. unfold T. rewrite Ht1. fold t. lia.
    - intros s c rid n Hc Hn. rewrite Hview4 in Hc. destruct (Hclass s c rid n Hc Hn) as (n0 & _ & [[_ ?]|[? _]]); [by left|by right].
    - intros s c rid n Hc Hn Hl0. rewrite Hview4 in Hc. destruct (Hclass s c rid n Hc Hn) as (n0 & Hn0 & [[? _]|[_ Htkn]]); [done|].
      split.
      + rewrite Htkn. apply rec_of_Some in Hn0 as (c0 & Hc0 & Hk0). by apply (lo_stamped _ HK s c0 rid n0).
      + intros hh Hhh Hlog. rewrite Hdb in Hhh. cbn [set_tick d_hosts] in Hhh.
        destruct (Hmemrec s c rid n Hc Hn) as (h & Hh & Hm). destruct (ml_members _ _ HP s h Hh) as (_ & _ & _ & Hmem).
        destruct (Hmem rid _ Hm) as (_ & _ & fh & Hfh & _).
        destruct (Hplog (r_addr n) fh hh) with (k := (s, rid)) as [lr Hk]; [apply host_addrs_elem; by eexists|apply Hpl|done|done|done|].
        by rewrite (lo_nodata _ HK s rid Hl0 _ fh Hfh) in Hk.
    - apply (lo_one _ HK).
    - intros s rid h Hl0 Hh. rewrite Hhist4 in Hh. unfold shard_size. rewrite Hdb. cbn [set_tick d_shards]. rewrite Hsh1. by apply (lo_size _ HK s rid h). }
  split; [done|]. split.
  { rewrite Hdb. cbn [set_tick d_tick]. unfold T. by rewrite Ht1. }
  split; [rewrite Hdb; cbn [set_tick d_shards]; exact Hsh1|].
  split.
  { intros s f Hlf. unfold mem_tick. rewrite Hview4.
    destruct (rec_of (d_view (f_db st1)) s f) as [n1|] eqn:Hr1.
    - pose proof Hr1 as Hr1'. apply rec_of_Some in Hr1' as (c1 & Hc1 & Hn1). destruct (Hclass s c1 f n1 Hc1 Hn1) as (n0 & Hn0 & [[? _]|[_ Htkn]]); [done|]. by rewrite Hn0.
    - destruct (rec_of (d_view (f_db st)) s f) as [n0|] eqn:Hr0; [|done]. exfalso.
      (* the record is still there: the shard stays current *)
      apply rec_of_Some in Hr0 as (c0 & Hc0 & Hk0). destruct (ml_viewdef _ _ HP s) as [_ [h Hh]]; [by eexists|].
      destruct (Hv1 s h c0 Hh Hc0) as (c1 & Hc1 & _ & Hkeep & _).
      destruct (current_same_keys st1 st s h c1 c0 f HI1 HI ltac:(done) ltac:(by rewrite Hhi1) Hc1 Hc0) as [n1 Hn1];
        [apply Hkeep; by apply (lo_cur _ HK s)|by apply (lo_cur _ HK s)|by eexists|].
      assert (rec_of (d_view (f_db st1)) s f = Some n1) by (apply rec_of_Some; eauto). congruence. }
  split; [done|]. split; [done|]. split; [done|]. split.
  { intros b Hb. rewrite Hdb in Hb. cbn [set_tick d_hosts] in Hb. destruct (Hkeys b Hb) as [Hinb|Hold]; [by apply host_addrs_elem|by apply (lo_dbhosts _ HK)]. }
  (* nothing is pending for a NodeHost *)
  intros a q Hq. destruct (f_hosts st4 !! a) as [fh4|] eqn:Ha4; [|done]. exfalso.
  rewrite Hho4 in Ha4. specialize (Hf3 a). specialize (Hq2 a).
  destruct (f_hosts st2 !! a) as [fh2|] eqn:Ha2; [|congruence]. destruct Hf3 as (fh3 & Hfh3 & Hq3). assert (fh3 = fh4) as -> by congruence.
  destruct (f_hosts st1 !! a) as [fh1|] eqn:Ha1; [|congruence]. destruct Hq2 as (fh2' & Hfh2' & Hqq2). assert (fh2' = fh2) as -> by congruence.
  assert (Hin1' : a ∈ host_addrs st1) by (apply host_addrs_elem; by eexists).
  assert (Hin0 : a ∈ host_addrs st) by (apply host_addrs_elem, Hdom1; by eexists).
  rewrite decide_True in Hqq2 by done.
  destruct Hq as [(qs & Hl0 & _)|(fh & Hl0 & Hinq)].
  - rewrite Hdb in Hl0. cbn [set_tick d_requests] in Hl0. rewrite (Hrq1 a Hin0) in Hl0. done.
  - rewrite Hho4, Hfh3 in Hl0. injection Hl0 as <-. rewrite Hq3, Hqq2 in Hinq. by apply elem_of_nil in Hinq.
Qed.

Lemma healthy_round_pre plogs nticks o st :
  healthy_round P plogs nticks o st =
  match pre_schedule P plogs nticks st with
  | Some st4 => match fstep P st4 (ESchedule o) with FOk st5 => Some st5 | _ => None end
  | None => None
  end.
Proof.
  unfold healthy_round, pre_schedule. destruct (steps P st _) as [st1|]; [|done]. destruct (steps P st1 _) as [st2|]; [|done].
  destruct (steps P st2 _) as [st3|]; [|done]. by destruct (steps P st3 _).
Qed.

(* what a pending request is after a round from Lost: a leftover / restore, or the ADD that replaces a lost member whose
   failure has been detected - a live change request in the sense of FleetMendBProofs.lchange *)
Definition lost_pending (st0 st : fstate) (a : N) (q : request) : Prop :=
  (mharmless (f_hist st) a q ∧ (is_create q = true → is_restore q = true ∧ is_Some (f_hosts st !! a))) ∨
  (is_add q = true ∧ lchange (nonout st) (f_hosts st) (f_hist st) a q ∧ vready (f_db st) q ∧
   ∃ f, L (q_shard q) f ∧ p_ttl P < d_tick (f_db st) - mem_tick st0 (q_shard q) f).

Theorem lost_round st st' plogs nticks o :
  Lost st → (∀ a, plogs a = true) → N.of_nat nticks * p_step P < p_ttl P →
  (∀ s, is_Some (f_hist st !! s) → ∃ a, spare st a s) → o ≠ OCrash →
  (∀ st4, pre_schedule P plogs nticks st = Some st4 → fresh_ok st4 (ESchedule o)) →
  healthy_round P plogs nticks o st = Some st' →
  ∃ b, o = OBatch b ∧ LostK st' ∧ f_hist st' = f_hist st ∧
    d_tick (f_db st') = d_tick (f_db st) + N.of_nat nticks * p_step P ∧
    (∀ s f, L s f → mem_tick st' s f = mem_tick st s f) ∧
    (∀ a q, nonout st' a q → lost_pending st st' a q) ∧
    (∀ s f, L s f → p_ttl P < d_tick (f_db st') - mem_tick st s f → ∃ a q, nonout st' a q ∧ is_add q = true ∧ q_shard q = s ∧
         lchange (nonout st') (f_hosts st') (f_hist st') a q ∧ vready (f_db st') q).
Proof.
  intros HL Hpl Httl Hsp Hnc Hfr Hr. pose proof HL as [HK Hin]. destruct (lo_b _ HK) as (HI & HP & Hoh).
  assert (Hne : o ≠ OError).
  { apply (round_no_error P st st' plogs nticks o HI); [|done|done|done]. intros a fh Ha. by destruct (ml_hosts _ _ HP a fh Ha). }
  rewrite healthy_round_pre in Hr. destruct (pre_schedule P plogs nticks st) as [st4|] eqn:Epre; [|done].
  destruct (lost_pre st plogs nticks st4 HL Hpl ltac:(lia) Epre) as
    (HX4 & Hin4 & HR4 & Hhi4 & Htick4 & Hsh4 & Hmt4 & Hrun4 & Hkeys4 & Hdom4 & Hdbh4 & Hnoh4).
  specialize (Hfr st4 eq_refl).
  destruct (fstep P st4 (ESchedule o)) as [st5| |] eqn:E5; try done. injection Hr as <-.
  destruct HX4 as [(HI4 & HP4 & Hoh4) Hnc4].
  cbn [fstep] in E5. destruct (allowed P (ctx_of_db (f_db st4)) o) eqn:Hal; [|done].
  destruct o as [b| |]; [|done|done]. exists b. split; [done|].
  set (C := ctx_of_db (f_db st4)) in *. pose proof (loopinv_ctx_wf st4 HI4) as Hwf. fold C in Hwf.
  set (t := d_tick (f_db st)) in *.
  (* what the batch consists of *)
  assert (Hkinds : ∀ q, q ∈ b → is_kill q = true ∨
            (is_add q = true ∧ ∃ c, c ∈ entries C ∧ s_id c = q_shard q ∧ add_req_ok P C c q = true ∧ sr_failed P C c ≠ [])).
  { intros q Hq. destruct (batch_request_cases P C b q Hal Hq) as [Hk|(_ & c & qs & Hc & Hs & Hinq & Hg & _)]; [left; by apply (kills_are_kill C)|].
    destruct (lost_entry st4 t c HR4 Hc) as (h & _ & _ & _ & _ & Hhr & _ & Hnone & Hadd). fold C in Hhr, Hnone, Hadd.
    apply group_allowed_inv in Hg as [(Hhr' & _)|(_ & Hcases)]; [congruence|].
    destruct (sr_failed P C c) as [|nf l0] eqn:Ef.
    - rewrite (Hnone eq_refl) in Hcases. destruct Hcases as [[_ ->]|[(? & _)|[(? & ? & _)|(? & _)]]]; try done. by apply elem_of_nil in Hinq.
    - rewrite (Hadd ltac:(done)) in Hcases. destruct Hcases as [[? _]|[(? & _)|[(? & ? & _)|(_ & q' & -> & Hok)]]]; try done.
      apply elem_of_list_singleton in Hinq as ->. right. pose proof Hok as Hok'. unfold add_req_ok in Hok'. apply bool_decide_eq_true in Hok' as (Ha & _).
      split; [done|]. exists c. rewrite Ef. done. }
  assert (Hvalid : ∀ q, q ∈ b → valid_req q = true).
  { intros q Hq. apply allowed_batch_inv in Hal as (_ & _ & _ & _ & _ & Hv). rewrite Forall_forall in Hv. by apply Hv. }
  (* the state after the step *)
  assert (E' : fstep P st4 (ESchedule (OBatch b)) = FOk st5) by (cbn [fstep]; fold C; by rewrite Hal).
  pose proof (step_inv P st4 _ st5 HI4 Hfr E') as HI5.
  pose proof (fstep_time_ok P st4 _ st5 E' (ml_timeok _ _ HP4)) as Hto5.
  assert (Hst5 : f_hosts st5 = f_hosts st4 ∧ f_hist st5 = f_hist st4 ∧
                 f_db st5 = set_requests (f_db st4) (put_requests (d_requests (f_db st4)) b)).
  { destruct b as [|q0 b0].
    - injection E5 as <-. split; [done|]. split; [done|]. destruct st4 as [d ? ? ?]. cbn. by destruct d.
    - rewrite (schedule_db P st4 (q0 :: b0) HI4 Hal) in E5 by (intros x Hx; destruct Hfr as [_ Hfr]; by apply Hfr).
      injection E5 as <-. done. }
  destruct Hst5 as (Eh & Ehi & Ed).
  assert (Hnew : ∀ q, q ∈ b → nonout st5 (q_raft q) q).
  { intros q Hq. left. exists (for_addr (q_raft q) b). rewrite Ed. cbn [set_requests d_requests]. rewrite put_requests_lookup.
    rewrite bool_decide_eq_true_2 by (unfold mentions; apply elem_of_list_fmap; by exists q). split; [done|]. unfold for_addr. apply elem_of_list_filter. done. }
  assert (Hsplit : ∀ a q, nonout st5 a q → nonout st4 a q ∨ (q ∈ b ∧ q_raft q = a)).
  { intros a q [(qs & Hl0 & Hi0)|(fh & Hl0 & Hi0)]; [|left; right; exists fh; by rewrite <- Eh].
    rewrite Ed in Hl0. cbn [set_requests d_requests] in Hl0. rewrite put_requests_lookup in Hl0. case_bool_decide as Hm; [|left; left; eauto].
    injection Hl0 as <-. unfold for_addr in Hi0. apply elem_of_list_filter in Hi0 as [Hra Hi0]. by right. }
  assert (Hnocreate : ∀ a q, nonout st5 a q → is_create q = false).
  { intros a q Hq. destruct (Hsplit a q Hq) as [Hq4|[Hqb _]].
    - destruct (is_create q) eqn:Ec; [|done]. exfalso. destruct (Hin4 a q Hq4) as [_ Hc]. destruct (Hc Ec) as [_ [fh Hfh]]. rewrite (Hnoh4 a q Hq4) in Hfh. done.
    - destruct (Hkinds q Hqb) as [Hk|[Ha _]]; [unfold is_kill in Hk|unfold is_add in Ha]; unfold is_create; by destruct (q_type q). }
  assert (Hview5 : d_view (f_db st5) = d_view (f_db st4)) by (by rewrite Ed).
  (* the ADD for a lost member whose failure has been detected is a live change request *)
  assert (Hadd2 : ∀ q, q ∈ b → is_add q = true →
            lchange (nonout st5) (f_hosts st5) (f_hist st5) (q_raft q) q ∧ vready (f_db st5) q ∧
            ∃ f, L (q_shard q) f ∧ p_ttl P < d_tick (f_db st5) - mem_tick st (q_shard q) f).
  { intros q Hqb Hia0. destruct (Hkinds q Hqb) as [Hk|(Hia & c & Hc & Hs & Hok & Hfne)];
      [unfold is_kill in Hk; unfold is_add in Hia0; by destruct (q_type q)|].
    destruct (lost_entry st4 t c HR4 Hc) as (h & Hh & Hvc & Hcc & Hwait & Hhr & Hfl & _ & _). fold C in Hwait, Hhr, Hfl.
    destruct (calm_view st4 _ h c HI4 Hh Hvc Hcc) as (HM & _ & Hids).
    unfold add_req_ok in Hok. apply bool_decide_eq_true in Hok as (_ & Hsh & Hfence & Hlen & Hexok & Hexc & _).
    destruct (q_members q) as [|x [|? ?]] eqn:Emem; try done.
    apply Exists_exists in Hexc as (nf & Hnf & Hexc). apply Exists_exists in Hexc as (hh & Hcand & Haddr).
    apply candidates_inv in Hcand as (Hhl & Hlive & Hnsh).
    pose proof Hnf as Hnf'. apply elem_sr_failed in Hnf' as [Hnfm Hnff]. destruct (wf_member C c nf Hwf Hc Hnfm) as [Hnfk Hnfs]. rewrite Hnfs in Hnsh.
    apply elem_of_mvals in Hhl as [bh Hbh]. unfold C, ctx_of_db in Hbh. cbn [c_hosts] in Hbh.
    destruct (li_synced _ _ _ _ _ HI4 bh hh Hbh) as [Hbaddr Hsync].
    pose proof (Hvalid q Hqb) as Hv. unfold valid_req in Hv. rewrite Hia, Emem, Haddr in Hv. unfold is_add in Hia.
    destruct (q_type q) eqn:Ety; try done. cbn in Hv.
    apply andb_true_iff in Hv as [Hv Hv5]. apply andb_true_iff in Hv as [Hv Hv4]. apply andb_true_iff in Hv as [Hv Hv3]. apply andb_true_iff in Hv as [_ Hv2].
    apply andb_true_iff in Hv5 as [Hx0 Hs0]. apply negb_true_iff, N.eqb_neq in Hx0, Hs0.
    apply andb_true_iff in Hv3 as [Ht0 _]. apply negb_true_iff, N.eqb_neq in Ht0.
    assert (Hhof : hist_of (f_hist st5) (q_shard q) = h) by (unfold hist_of; by rewrite Ehi, Hsh, Hh).
    split; [|split].
    + (* lchange *)
      split; [unfold is_change, is_add; by rewrite Ety|]. split; [rewrite Hhof; congruence|]. split.
      { split; [|done]. apply Exists_exists in Hexok as (m & Hm & ->). apply elem_sr_ok in Hm as [Hm _]. apply elem_of_mvals in Hm as [rid Hm].
        assert (Hmm : cur_members h !! rid = Some (r_addr m)) by (rewrite <- HM, lookup_fmap, Hm; done).
        destruct (ml_members _ _ HP4 _ h Hh) as (_ & _ & _ & Hmem). destruct (Hmem rid _ Hmm) as (_ & _ & fh & Hfh & _). rewrite Eh. by eexists. }
      split; [intros a' q' Hq' Hcq'; by rewrite (Hnocreate a' q' Hq') in Hcq'|]. split.
      * intros _. exists x, (h_addr hh). rewrite Hbaddr. split; [done|]. split; [by rewrite Haddr, Hbaddr|]. split; [done|]. split; [by rewrite <- Hbaddr|].
        split; [rewrite Eh; apply Hdom4, Hdbh4; by eexists|].
        assert (Hnomem : ∀ r', cur_members h !! r' ≠ Some bh).
        { intros r' Hr'. apply Hnsh. apply (Hsync (s_id c) c Hvc). unfold addrs_of. apply elem_of_list_fmap.
          rewrite <- HM, lookup_fmap in Hr'. destruct (s_reps c !! r') as [n'|] eqn:En'; [|done]. cbn in Hr'. injection Hr' as Hr'.
          exists n'. split; [done|]. apply elem_of_mvals. by exists r'. }
        split; [rewrite Hhof; exact Hnomem|]. split.
        -- intros fh rid Hfh. rewrite Eh in Hfh. destruct (fh_reps fh !! (q_shard q, rid)) as [lr|] eqn:Ek; [|done]. exfalso.
           destruct (Hkeys4 bh fh (q_shard q, rid) Hfh ltac:(by eexists)) as (fh0 & Hfh0 & [lr0 Hk0]).
           destruct (lo_clean _ HK bh fh0 (q_shard q) rid lr0 Hfh0 Hk0) as (b0 & h0 & Hh0 & Hm0).
           assert (b0 = bh) as -> by (by apply (ml_home _ _ HP bh fh0 (q_shard q) rid lr0 h0 b0)).
           rewrite <- Hhi4, Hsh, Hh in Hh0. injection Hh0 as <-. by apply (Hnomem rid).
        -- intros a' fh Hfh. rewrite Eh in Hfh. destruct (fh_reps fh !! (q_shard q, x)) as [lr|] eqn:Ek; [|done]. exfalso.
           destruct (Hkeys4 a' fh (q_shard q, x) Hfh ltac:(by eexists)) as (fh0 & Hfh0 & [lr0 Hk0]).
           destruct (lo_clean _ HK a' fh0 (q_shard q) x lr0 Hfh0 Hk0) as (b0 & h0 & Hh0 & Hm0).
           destruct Hfr as [_ Hfr]. apply (Hfr x).
           { unfold add_ids. apply elem_of_list_In, in_concat. exists [x]. split; [|by left]. apply elem_of_list_In, elem_of_list_fmap. exists q. split; [done|].
             apply elem_of_list_filter. split; [unfold is_add; by rewrite Ety|done]. }
           rewrite <- Hhi4 in Hh0. apply (li_seen _ _ _ _ _ HI4 _ h0 x Hh0). apply used_in_true. exists (cur_version h0, cur_members h0).
           split; [apply cur_in; apply (hist_wf_nonempty _ _ (li_hist _ _ _ _ _ HI4 _ _ Hh0))|]. cbn. apply is_member_true. by eexists.
      * intros Hd. unfold is_delete in Hd. by rewrite Ety in Hd.
    + (* vready *)
      exists c. rewrite Hview5, <- Hs. split; [done|]. split; [done|]. intros rid n Hn.
      destruct (lr_class _ _ HR4 _ _ _ _ Hvc Hn) as [->|Hl0]; [destruct (lr_t _ _ HR4); done|by destruct (lr_lost _ _ HR4 _ _ _ _ Hvc Hn Hl0)].
    + exists (r_id nf). rewrite <- Hs. split; [by apply Hfl|].
      rewrite <- (Hmt4 _ _ (Hfl nf Hnf)), (mem_tick_rec st4 _ _ c nf Hvc Hnfk).
      destruct (lr_lost _ _ HR4 _ _ _ _ Hvc Hnfk (Hfl nf Hnf)) as [Hnz _].
      unfold replica_failed in Hnff. assert ((r_tick nf =? 0) = false) as Hz by (by apply N.eqb_neq). rewrite Hz in Hnff.
      unfold entity_failed in Hnff. apply N.ltb_lt in Hnff. unfold C, ctx_of_db in Hnff. cbn [c_tick] in Hnff. rewrite Ed. cbn [set_requests d_tick]. exact Hnff.
  }
  (* the classification of the pending requests *)
  assert (Hall : ∀ a q, nonout st5 a q → lost_pending st st5 a q).
  { intros a q Hq. destruct (Hsplit a q Hq) as [Hq4|[Hqb <-]].
    { left. rewrite Ehi, Eh. by apply Hin4. }
    destruct (Hkinds q Hqb) as [Hk|(Hia & c & Hc & Hs & Hok & Hfne)].
    - left. split; [|intros Hcq; unfold is_kill in Hk; unfold is_create in Hcq; by destruct (q_type q)].
      assert (Hbox : in_box (f_db st5) (f_hosts st5) [] q) by (destruct (Hnew q Hqb) as [(qs & ? & ?)|(fh & ? & ?)]; [left; eauto|right; right; left; eauto]).
      destruct (li_reqs _ _ _ _ _ HI5 q Hbox) as [_ Hreq]. unfold is_kill in Hk. destruct (q_type q) eqn:Ety; try done.
      destruct Hreq as (y & Hy & Hd). left; right; right. split; [unfold is_kill; by rewrite Ety|]. exists y. split; [done|].
      intros h Hh. by destruct (Hd h Hh).
    - right. split; [done|]. by apply Hadd2. }
  (* the class *)
  split.
  { split.
    - split; [exact HI5|]. split.
      + destruct HP4. split; try rewrite Ed; try rewrite Eh; try rewrite Ehi; cbn [set_requests d_tick d_shards d_view d_kill]; try done.
        all: try (rewrite Ed in Hto5; exact Hto5).
        intros a q Hq. destruct (Hall a q Hq) as [[Hm _]|(_ & Hl0 & Hv & _)].
        * left. rewrite Ehi in Hm. split; [done|]. rewrite <- Ehi. by apply (nonout_qextra st5 a q).
        * right. rewrite Eh, Ehi in Hl0. rewrite Ed in Hv. done.
      + intros a Ha. rewrite Eh. apply Hoh4. rewrite Ed in Ha. exact Ha.
    - intros s h c Hh Hc. rewrite Ehi in Hh. rewrite Hview5 in Hc. by apply (lr_cur _ _ HR4 s).
    - intros s c rid n Hc Hn. rewrite Hview5 in Hc.
      destruct (lr_class _ _ HR4 _ _ _ _ Hc Hn) as [->|Hl0]; [destruct (lr_t _ _ HR4); done|by destruct (lr_lost _ _ HR4 _ _ _ _ Hc Hn Hl0)].
    - intros s rid Hl0. destruct (lo_mem _ HK s rid Hl0) as (a & h & Hh & Hm). exists a, h. rewrite Ehi, Hhi4. done.
    - intros s rid Hl0 a fh Hfh. rewrite Eh in Hfh. destruct (fh_reps fh !! (s, rid)) as [lr|] eqn:Ek; [|done]. exfalso.
      destruct (Hkeys4 a fh (s, rid) Hfh ltac:(by eexists)) as (fh0 & Hfh0 & [lr0 Hk0]). by rewrite (lo_nodata _ HK s rid Hl0 a fh0 Hfh0) in Hk0.
    - apply (lo_one _ HK).
    - intros s rid a (h & Hh & Hm) HnL. rewrite Eh. apply Hrun4; [|done]. exists h. rewrite <- Hhi4, <- Ehi. done.
    - intros a fh s rid lr Hfh Hk. rewrite Eh in Hfh. destruct (Hkeys4 a fh (s, rid) Hfh ltac:(by eexists)) as (fh0 & Hfh0 & [lr0 Hk0]).
      destruct (lo_clean _ HK a fh0 s rid lr0 Hfh0 Hk0) as (b0 & h0 & Hh0 & Hm0). exists b0, h0. rewrite Ehi, Hhi4. done.
    - intros a Ha. rewrite Ed in Ha. cbn [set_requests d_hosts] in Ha. rewrite Eh. by apply Hdom4, Hdbh4.
    - intros s rid h Hl0 Hh. rewrite Ehi, Hhi4 in Hh. unfold shard_size. rewrite Ed. cbn [set_requests d_shards]. rewrite Hsh4. by apply (lo_size _ HK s rid h). }
  split; [congruence|]. split; [rewrite Ed; cbn [set_requests d_tick]; exact Htick4|].
  split.
  { intros s f Hlf. rewrite <- (Hmt4 s f Hlf). unfold mem_tick. by rewrite Hview5. }
  split; [exact Hall|].
  (* a lost member whose failure is detected gets its replacement scheduled *)
  intros s f Hlf Hfail. destruct (lo_mem _ HK s f Hlf) as (af & h & Hh & Hm).
  assert (Hh4 : f_hist st4 !! s = Some h) by (by rewrite Hhi4).
  destruct (ml_members _ _ HP4 s h Hh4) as (c & Hvc & _). pose proof (lr_cur _ _ HR4 s h c Hh4 Hvc) as Hcc.
  destruct (calm_view st4 s h c HI4 Hh4 Hvc Hcc) as (HM & Hsid & Hids). subst s.
  assert (Hc : c ∈ entries C) by (unfold entries, C, ctx_of_db; cbn [c_view]; apply elem_of_mvals; by exists (s_id c)).
  assert (is_Some (s_reps c !! f)) as [nf Hnf] by (rewrite <- (fmap_is_Some r_addr), <- lookup_fmap, HM, Hm; by eexists).
  destruct (lost_entry st4 t c HR4 Hc) as (_ & _ & _ & _ & _ & _ & _ & _ & Hadd). fold C in Hadd.
  assert (Hnfail : nf ∈ sr_failed P C c).
  { apply elem_sr_failed. split; [apply elem_of_mvals; by exists f|].
    destruct (lr_lost _ _ HR4 _ _ _ _ Hvc Hnf Hlf) as [Hnz _]. unfold replica_failed. assert ((r_tick nf =? 0) = false) as -> by (by apply N.eqb_neq).
    unfold entity_failed. apply N.ltb_lt. unfold C, ctx_of_db. cbn [c_tick].
    rewrite <- (Hmt4 _ _ Hlf), (mem_tick_rec st4 _ _ c nf Hvc Hnf) in Hfail. rewrite Ed in Hfail. cbn [set_requests d_tick] in Hfail. exact Hfail. }
  assert (Hact : repair_action P C c = AAdd) by (apply Hadd; intros Hnil; rewrite Hnil in Hnfail; by apply elem_of_nil in Hnfail).
  destruct (due_is_placed P C b c Hwf Hal Hc Hact) as (q & hh & Hq & Hia & Hsq & _).
  exists (q_raft q), q. split; [by apply Hnew|]. split; [done|]. split; [congruence|].
  destruct (Hadd2 q Hq Hia) as (? & ? & _). done.
Qed.

(* (1) while no lost member has been silent for longer than the timeout, the round changes nothing but the clock *)
Theorem lost_round_wait st st' plogs nticks o :
  Lost st → (∀ a, plogs a = true) → N.of_nat nticks * p_step P < p_ttl P →
  (∀ s, is_Some (f_hist st !! s) → ∃ a, spare st a s) → o ≠ OCrash →
  (∀ st4, pre_schedule P plogs nticks st = Some st4 → fresh_ok st4 (ESchedule o)) →
  healthy_round P plogs nticks o st = Some st' →
  (∀ s f, L s f → d_tick (f_db st) + N.of_nat nticks * p_step P - mem_tick st s f ≤ p_ttl P) →
  Lost st' ∧ f_hist st' = f_hist st ∧ d_tick (f_db st') = d_tick (f_db st) + N.of_nat nticks * p_step P ∧
  (∀ s f, L s f → mem_tick st' s f = mem_tick st s f).
Proof.
  intros HL Hpl Httl Hsp Hnc Hfr Hr Hyoung.
  destruct (lost_round st st' plogs nticks o HL Hpl Httl Hsp Hnc Hfr Hr) as (b & _ & HK' & Hhi & Htk & Hmt & Hall & _).
  split; [|done]. split; [done|]. intros a q Hq. destruct (Hall a q Hq) as [?|(_ & _ & _ & f & Hlf & Hfail)]; [done|]. exfalso.
  specialize (Hyoung _ _ Hlf). rewrite Htk in Hfail. lia.
Qed.

(* the hypotheses on the environment, round by round: the random source returns fresh, non-zero replica ids (an outcome
   OCrash is the scheduler drawing id 0), and every shard has a spare NodeHost *)
Fixpoint lost_hyps (plogs : N → bool) (nticks : nat) (os : list outcome) (st : fstate) : Prop :=
  match os with
  | [] => True
  | o :: os' =>
    o ≠ OCrash ∧ (∀ s, is_Some (f_hist st !! s) → ∃ a, spare st a s) ∧
    (∀ st4, pre_schedule P plogs nticks st = Some st4 → fresh_ok st4 (ESchedule o)) ∧
    match healthy_round P plogs nticks o st with Some st' => lost_hyps plogs nticks os' st' | None => True end
  end.

Lemma lost_mem_tick_le st s f : Lost st → mem_tick st s f ≤ d_tick (f_db st).
Proof.
  intros [HK _]. destruct (lo_b _ HK) as (_ & HP & _). destruct (ml_timeok _ _ HP) as (Hv & _). unfold mem_tick.
  destruct (rec_of (d_view (f_db st)) s f) as [n|] eqn:Hr; [|lia]. apply rec_of_Some in Hr as (c & Hc & Hn). by destruct (Hv s c f n Hc Hn).
Qed.

(* (2) the lost member that has been silent longest: after at most detect_rounds rounds its replacement is scheduled *)
Theorem lost_detected plogs nticks s0 f0 :
  (∀ a, plogs a = true) → N.of_nat nticks * p_step P < p_ttl P →
  ∀ os st st', os ≠ [] → Lost st → L s0 f0 → (∀ s f, L s f → mem_tick st s0 f0 ≤ mem_tick st s f) →
  lost_hyps plogs nticks os st →
  p_ttl P < d_tick (f_db st) - mem_tick st s0 f0 + N.of_nat (length os) * (N.of_nat nticks * p_step P) →
  healthy_rounds P plogs nticks os st = Some st' →
  ∃ os1 o os2 st1 st2, os = os1 ++ o :: os2 ∧ healthy_rounds P plogs nticks os1 st = Some st1 ∧ Lost st1 ∧
    healthy_round P plogs nticks o st1 = Some st2 ∧ LostK st2 ∧ f_hist st2 = f_hist st ∧
    (∀ a q, nonout st2 a q → lost_pending st1 st2 a q) ∧
    ∃ a q, nonout st2 a q ∧ is_add q = true ∧ q_shard q = s0 ∧
      lchange (nonout st2) (f_hosts st2) (f_hist st2) a q ∧ vready (f_db st2) q.
Proof.
  intros Hpl Httl. set (delta := N.of_nat nticks * p_step P) in *.
  induction os as [|o os IH]; intros st st' Hne HL Hl0 Hold Hhyp Hbound Hr; [done|].
  cbn [lost_hyps] in Hhyp. destruct Hhyp as (Hnc & Hsp & Hfr & Hhyp').
  cbn [healthy_rounds] in Hr. destruct (healthy_round P plogs nticks o st) as [st1|] eqn:E1; [|done].
  pose proof (lost_mem_tick_le st s0 f0 HL) as Hle0.
  destruct (decide (p_ttl P < d_tick (f_db st) + delta - mem_tick st s0 f0)) as [Hfail|Hwait].
  - (* detected in this round *)
    destruct (lost_round st st1 plogs nticks o HL Hpl Httl Hsp Hnc Hfr E1) as (b & _ & HK1 & Hhi1 & Htk1 & _ & Hall & Hcomp).
    exists [], o, os, st, st1. split; [done|]. split; [done|]. split; [done|]. split; [done|]. split; [done|]. split; [done|]. split; [done|].
    apply (Hcomp s0 f0 Hl0). rewrite Htk1. exact Hfail.
  - (* not yet: nobody is overdue, the round only moves the clock *)
    assert (Hyoung : ∀ s f, L s f → d_tick (f_db st) + delta - mem_tick st s f ≤ p_ttl P).
    { intros s f Hlf. pose proof (Hold s f Hlf). lia. }
    destruct (lost_round_wait st st1 plogs nticks o HL Hpl Httl Hsp Hnc Hfr E1 Hyoung) as (HL1 & Hhi1 & Htk1 & Hmt1).
    destruct os as [|o2 os2]; [cbn [length] in Hbound; lia|].
    destruct (IH st1 st' ltac:(done) HL1 Hl0) as (os1 & o' & os2' & sta & stb & Hos & Hr1 & HLa & Erb & HKb & Hhib & Hallb & Hexb); [| | |done|].
    + intros s f Hlf. rewrite (Hmt1 s0 f0 Hl0), (Hmt1 s f Hlf). by apply Hold.
    + exact Hhyp'.
    + rewrite (Hmt1 s0 f0 Hl0), Htk1. cbn [length] in Hbound |- *. lia.
    + exists (o :: os1), o', os2', sta, stb. split; [by rewrite Hos|]. split; [cbn [healthy_rounds]; by rewrite E1|]. split; [done|].
      split; [done|]. split; [done|]. split; [congruence|]. done.
Qed.

Corollary lost_detected_within plogs nticks s0 f0 :
  (∀ a, plogs a = true) → N.of_nat nticks * p_step P < p_ttl P → 0 < N.of_nat nticks * p_step P →
  ∀ os st st', Lost st → L s0 f0 → (∀ s f, L s f → mem_tick st s0 f0 ≤ mem_tick st s f) →
  lost_hyps plogs nticks os st → (detect_rounds P nticks ≤ length os)%nat →
  healthy_rounds P plogs nticks os st = Some st' →
  ∃ os1 o os2 st1 st2, os = os1 ++ o :: os2 ∧ healthy_rounds P plogs nticks os1 st = Some st1 ∧ Lost st1 ∧
    healthy_round P plogs nticks o st1 = Some st2 ∧ LostK st2 ∧ f_hist st2 = f_hist st ∧
    (∀ a q, nonout st2 a q → lost_pending st1 st2 a q) ∧
    ∃ a q, nonout st2 a q ∧ is_add q = true ∧ q_shard q = s0 ∧
      lchange (nonout st2) (f_hosts st2) (f_hist st2) a q ∧ vready (f_db st2) q.
Proof.
  intros Hpl Httl Hdelta os st st' HL Hl0 Hold Hhyp Hlen Hr.
  apply (lost_detected plogs nticks s0 f0 Hpl Httl os st st'); try done.
  - intros ->. unfold detect_rounds in Hlen. cbn in Hlen. lia.
  - set (delta := N.of_nat nticks * p_step P) in *. unfold detect_rounds in Hlen. fold delta in Hlen.
    pose proof (N.mul_succ_div_gt (p_ttl P) delta ltac:(lia)) as Hgt.
    assert (N.succ (p_ttl P / delta) ≤ N.of_nat (length os)) by lia. nia.
Qed.
End LostR.
End WithLost.

(** * Part 5: the hypotheses are satisfiable - a Lost state from a state of MendB by removing replica data *)
Definition lostl (ll : list (N * N)) (s rid : N) : Prop := (s, rid) ∈ ll.
Lemma lostl_dec ll s rid : lostl ll s rid ∨ ¬ lostl ll s rid.
Proof. unfold lostl. destruct (decide ((s, rid) ∈ ll)); [by left|by right]. Qed.

(* the disks of the lost members are replaced *)
Definition drop_lost (ll : list (N * N)) (fh : fhost) : fhost :=
  mkFHost (fh_up fh) (fh_region fh) (filter (λ kl : (N * N) * lrep, kl.1 ∉ ll) (fh_reps fh)) (fh_queue fh) (fh_out fh).
Definition lose (ll : list (N * N)) (st : fstate) : fstate :=
  mkF (f_db st) (drop_lost ll <$> f_hosts st) (f_hist st) (f_seen st).

Lemma lose_lookup ll st a fh' :
  f_hosts (lose ll st) !! a = Some fh' → ∃ fh, f_hosts st !! a = Some fh ∧ fh' = drop_lost ll fh.
Proof. cbn. rewrite lookup_fmap. destruct (f_hosts st !! a) as [fh|]; [|done]. cbn. intros [= <-]. by exists fh. Qed.

Lemma drop_lookup ll fh k lr : fh_reps (drop_lost ll fh) !! k = Some lr ↔ fh_reps fh !! k = Some lr ∧ k ∉ ll.
Proof. cbn. rewrite map_filter_lookup_Some. done. Qed.

Lemma lose_nonout ll st a q : nonout (lose ll st) a q ↔ nonout st a q.
Proof.
  unfold nonout. cbn. split; intros [Hq|(fh & Hl & Hin)]; [by left| |by left|].
  - rewrite lookup_fmap in Hl. destruct (f_hosts st !! a) as [fh0|]; [|done]. cbn in Hl. injection Hl as <-. right. by exists fh0.
  - right. exists (drop_lost ll fh). rewrite lookup_fmap, Hl. done.
Qed.

Lemma lose_inv ll st : LoopInv st → LoopInv (lose ll st).
Proof.
  intros HI. unfold LoopInv, lose. cbn [f_db f_hosts f_hist f_seen]. eapply LI_hosts_frame; [| | |exact HI].
  - intros a fh' k lr Ha Hk. destruct (lose_lookup ll st a fh' Ha) as (fh & Hfh & ->). apply drop_lookup in Hk as [Hk _]. by apply (li_reps _ _ _ _ _ HI a fh k lr).
  - intros a fh' r Ha Hr. destruct (lose_lookup ll st a fh' Ha) as (fh & Hfh & ->). cbn in Hr. by apply (li_out _ _ _ _ _ HI a fh r).
  - intros q [Hq|[Hq|[(a & fh' & Ha & Hin)|Hq]]]; [by left|by right; left| |by right; right; right].
    destruct (lose_lookup ll st a fh' Ha) as (fh & Hfh & ->). cbn in Hin. right; right; left. eauto.
Qed.

Lemma lose_mendl ll st :
  MendP (nonout st) st →
  (∀ s h c, f_hist st !! s = Some h → d_view (f_db st) !! s = Some c → s_cci c = cur_version h) →
  MendL (lostl ll) (nonout (lose ll st)) (lose ll st).
Proof.
  intros HP Hcur.
  assert (Hto : ∀ a fh, f_hosts st !! a = Some fh → f_hosts (lose ll st) !! a = Some (drop_lost ll fh)) by (intros a fh Hfh; cbn; by rewrite lookup_fmap, Hfh).
  split; cbn [lose f_db f_hist f_seen]; try apply HP.
  - intros a fh' Ha. destruct (lose_lookup ll st a fh' Ha) as (fh & Hfh & ->). cbn. by apply (mp_hosts _ _ HP a).
  - intros a q Hq. apply lose_nonout in Hq. destruct (mp_boxes _ _ HP a q Hq) as [?|[Hl HR]]; [by left|right]. split; [|done].
    apply (lchange_shrink (nonout st)); [intros a' q' Hq'; by apply (lose_nonout ll st a' q')|].
    apply (lchange_frame _ (f_hosts st) _ (f_hist st) (f_hist st)); [done| | |done].
    + intros a0 [fh0 H0]. rewrite (Hto a0 fh0 H0). by eexists.
    + intros a0 fh' k H0 Hk _. destruct (lose_lookup ll st a0 fh' H0) as (fh & Hfh & ->). exists fh. split; [done|].
      destruct Hk as [lr Hk]. apply drop_lookup in Hk as [Hk _]. by eexists.
  - intros s h Hh. destruct (mp_members _ _ HP s h Hh) as (c & Hc & Hcase & Hmem). exists c. split; [done|]. split; [done|].
    intros rid a Hm. destruct (Hmem rid a Hm) as (? & ? & fh & Hfh & Hdata). split; [done|]. split; [done|].
    exists (drop_lost ll fh). split; [by apply Hto|]. intros Hst. destruct (decide ((s, rid) ∈ ll)) as [Hin|Hnin]; [by right|left].
    destruct (Hdata Hst) as [lr Hk]. exists lr. by apply drop_lookup.
  - intros s h c v M M' x rest Hh Hc Hb. exfalso. pose proof (Hcur s h c Hh Hc) as Hcc. destruct Hb as (-> & Hv & _). cbn in Hcc. lia.
  - intros a fh' s rid lr h a' Ha Hk. destruct (lose_lookup ll st a fh' Ha) as (fh & Hfh & ->). apply drop_lookup in Hk as [Hk _]. by apply (mp_home _ _ HP a fh s rid lr h a').
  - intros a fh' s rid lr Ha Hk. destruct (lose_lookup ll st a fh' Ha) as (fh & Hfh & ->). apply drop_lookup in Hk as [Hk _]. by apply (mp_nostray _ _ HP a fh s rid lr).
Qed.

(* the decidable part of Lost (for lost members given as a list), on top of LostB *)
Definition lostk_restb (ll : list (N * N)) (st : fstate) : bool :=
  view_current st
  && forallb (λ kv : N * shard, forallb (λ rn : N * replica, negb (r_tick rn.2 =? 0)) (map_to_list (s_reps kv.2))) (map_to_list (d_view (f_db st)))
  && forallb (λ sr : N * N, is_member (cur_members (hist_of (f_hist st) sr.1)) sr.2) ll
  && forallb (λ sr : N * N, forallb (λ ah : N * fhost, bool_decide (fh_reps ah.2 !! (sr.1, sr.2) = None)) (map_to_list (f_hosts st))) ll
  && forallb (λ x : N * N, forallb (λ y : N * N, negb (x.1 =? y.1) || (x.2 =? y.2)) ll) ll
  && forallb (λ sh : N * list hentry,
                forallb (λ ra : N * N, bool_decide ((sh.1, ra.1) ∈ ll) || member_running (f_hosts st) sh.1 ra.1 ra.2) (map_to_list (cur_members sh.2)))
             (map_to_list (f_hist st))
  && forallb (λ ah : N * fhost, forallb (λ kl : (N * N) * lrep, is_member (cur_members (hist_of (f_hist st) kl.1.1)) kl.1.2) (map_to_list (fh_reps ah.2)))
             (map_to_list (f_hosts st))
  && forallb (λ ah : N * hostspec, bool_decide (is_Some (f_hosts st !! ah.1))) (map_to_list (d_hosts (f_db st)))
  && forallb (λ sr : N * N, let h := hist_of (f_hist st) sr.1 in
                (size (cur_members h) =? shard_size (f_db st) sr.1)%nat && (3 <=? size (cur_members h))%nat) ll
  && forallb (λ aq : N * request, okreqb st aq.1 aq.2 &&
                (negb (is_create aq.2) || (is_restore aq.2 && bool_decide (is_Some (f_hosts st !! aq.1))))) (pendingl st).

Theorem lost_restb_sound ll st : LostB (lostl ll) st → lostk_restb ll st = true → Lost (lostl ll) st.
Proof.
  intros HB H. unfold lostk_restb in H.
  apply andb_true_iff in H as [H Hinert]. apply andb_true_iff in H as [H Hsize]. apply andb_true_iff in H as [H Hdbh].
  apply andb_true_iff in H as [H Hclean]. apply andb_true_iff in H as [H Hrun]. apply andb_true_iff in H as [H Hone].
  apply andb_true_iff in H as [H Hnodata]. apply andb_true_iff in H as [H Hmem]. apply andb_true_iff in H as [Hcur Hst].
  assert (Hof : ∀ s rid a, cur_members (hist_of (f_hist st) s) !! rid = Some a → ∃ h, f_hist st !! s = Some h ∧ cur_members h !! rid = Some a).
  { intros s rid a. unfold hist_of. destruct (f_hist st !! s) as [h|]; cbn [default from_option id cur_members]; [by exists h|]. by rewrite lookup_empty. }
  assert (Hll : ∀ (f : N * N → bool) s rid, forallb f ll = true → lostl ll s rid → f (s, rid) = true).
  { intros f s rid Hf Hl0. rewrite forallb_forall in Hf. apply Hf. by apply elem_of_list_In. }
  split; [split|].
  - exact HB.
  - intros s h c Hh Hc. pose proof (forallb_map_to_list _ _ Hcur s h Hh) as Hx. cbn [fst snd] in Hx. rewrite Hc in Hx. by apply N.eqb_eq.
  - intros s c rid n Hc Hn. pose proof (forallb_map_to_list _ _ Hst s c Hc) as Hx. cbn [snd] in Hx.
    pose proof (forallb_map_to_list _ _ Hx rid n Hn) as Hy. cbn in Hy. by apply negb_true_iff, N.eqb_neq in Hy.
  - intros s rid Hl0. pose proof (Hll _ s rid Hmem Hl0) as Hx. cbn in Hx. apply is_member_true in Hx as [a Ha].
    destruct (Hof s rid a Ha) as (h & Hh & Hm). exists a, h. done.
  - intros s rid Hl0 a fh Hfh. pose proof (Hll _ s rid Hnodata Hl0) as Hx. cbn in Hx.
    pose proof (forallb_map_to_list _ _ Hx a fh Hfh) as Hy. cbn in Hy. by apply bool_decide_eq_true in Hy.
  - intros s r1 r2 H1 H2. pose proof (Hll _ s r1 Hone H1) as Hx. cbn in Hx. pose proof (Hll _ s r2 Hx H2) as Hy. cbn in Hy.
    rewrite N.eqb_refl in Hy. cbn in Hy. by apply N.eqb_eq in Hy.
  - intros s rid a (h & Hh & Hm) HnL. pose proof (forallb_map_to_list _ _ Hrun s h Hh) as Hx. cbn [fst snd] in Hx.
    pose proof (forallb_map_to_list _ _ Hx rid a Hm) as Hy. cbn [fst snd] in Hy. apply orb_true_iff in Hy as [Hy|Hy]; [|done].
    apply bool_decide_eq_true in Hy. done.
  - intros a fh s rid lr Hfh Hk. pose proof (forallb_map_to_list _ _ Hclean a fh Hfh) as Hx. cbn [snd] in Hx.
    pose proof (forallb_map_to_list _ _ Hx (s, rid) lr Hk) as Hy. cbn in Hy. apply is_member_true in Hy as [b Hb].
    destruct (Hof s rid b Hb) as (h & Hh & Hm). exists b, h. done.
  - intros a [h Ha]. pose proof (forallb_map_to_list _ _ Hdbh a h Ha) as Hx. cbn in Hx. by apply bool_decide_eq_true in Hx.
  - intros s rid h Hl0 Hh. pose proof (Hll _ s rid Hsize Hl0) as Hx. cbn [fst] in Hx. unfold hist_of in Hx. rewrite Hh in Hx. cbn [default from_option id] in Hx.
    apply andb_true_iff in Hx as [H1 H2]. apply Nat.eqb_eq in H1. apply Nat.leb_le in H2. done.
  - intros a q Hq. apply pendingl_elem in Hq. rewrite forallb_forall in Hinert. apply elem_of_list_In in Hq. specialize (Hinert _ Hq). cbn in Hinert.
    apply andb_true_iff in Hinert as [Hok Hc]. split; [by apply okreqb_sound|]. intros Hcq. rewrite Hcq in Hc. cbn in Hc.
    apply andb_true_iff in Hc as [? Hh]. by apply bool_decide_eq_true in Hh.
Qed.

(* the hypotheses on the environment, decidable *)
Fixpoint lost_hypsb (P : params) (plogs : N → bool) (nticks : nat) (os : list outcome) (st : fstate) : bool :=
  match os with
  | [] => true
  | o :: os' =>
    match o with OCrash => false | _ => true end
    && forallb (λ sh : N * list hentry, existsb (λ ah : N * fhost, spareb st ah.1 sh.1) (map_to_list (f_hosts st))) (map_to_list (f_hist st))
    && match pre_schedule P plogs nticks st with Some st4 => fresh_okb st4 (ESchedule o) | None => true end
    && match healthy_round P plogs nticks o st with Some st' => lost_hypsb P plogs nticks os' st' | None => true end
  end.

Lemma lost_hypsb_sound P plogs nticks os : ∀ st, lost_hypsb P plogs nticks os st = true → lost_hyps P plogs nticks os st.
Proof.
  induction os as [|o os IH]; intros st H; cbn [lost_hyps]; [done|]. cbn [lost_hypsb] in H.
  apply andb_true_iff in H as [H Hrec]. apply andb_true_iff in H as [H Hfr]. apply andb_true_iff in H as [Hnc Hsp].
  split; [by destruct o|]. split; [|split].
  - intros s [h Hh]. pose proof (forallb_map_to_list _ _ Hsp s h Hh) as Hx. cbn [fst] in Hx. apply existsb_exists in Hx as ([a fh] & _ & Hx).
    exists a. by apply spareb_sound.
  - intros st4 E. rewrite E in Hfr. by apply fresh_okb_sound.
  - destruct (healthy_round P plogs nticks o st); [by apply IH|done].
Qed.

Lemma lose_lostb ll st : MendB st → view_current st = true → LostB (lostl ll) (lose ll st).
Proof.
  intros (HI & HP & Hoh) Hv. split; [by apply lose_inv|]. split.
  - apply lose_mendl; [done|]. intros s h c Hh Hc. pose proof (forallb_map_to_list _ _ Hv s h Hh) as Hx. cbn [fst snd] in Hx. rewrite Hc in Hx. by apply N.eqb_eq.
  - intros a Ha. cbn [lose f_db f_hosts] in *. destruct (Hoh a Ha) as [fh Hfh]. rewrite lookup_fmap, Hfh. by eexists.
Qed.
