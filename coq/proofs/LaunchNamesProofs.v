(** LaunchNamesProofs: launch planning uses region names as opaque tokens (theories/LaunchNames.v), property C08. *)
From stdpp Require Import gmap.
From Coq Require Import ZifyN ZifyNat ZifyBool Lia.
From Drummer.Model Require Import Base DB Launch LaunchRun LaunchNames.
From Drummer.Proofs Require Import LaunchProofs.
Local Open Scope N_scope.

(** * Lists *)

Lemma filter_map_comm {A B} (g : A -> B) (p : B -> bool) l :
  List.filter p (map g l) = map g (List.filter (fun x => p (g x)) l).
Proof.
  induction l as [|a l IH]; [reflexivity|].
  cbn [map List.filter]. destruct (p (g a)); cbn [map]; rewrite IH; reflexivity.
Qed.

Lemma filter_ext_on {A} (p q : A -> bool) l :
  (forall x, In x l -> p x = q x) -> List.filter p l = List.filter q l.
Proof.
  induction l as [|a l IH]; intros Hpq; [reflexivity|].
  cbn [List.filter]. rewrite (Hpq a (or_introl eq_refl)).
  rewrite IH; [reflexivity|]. intros x Hx. apply Hpq. right. exact Hx.
Qed.

Lemma nlen_map {A B} (g : A -> B) l : nlen (map g l) = nlen l.
Proof. unfold nlen. rewrite map_length. reflexivity. Qed.

Lemma get_map {A B} (g : A -> B) l i : get (map g l) i = option_map g (get l i).
Proof. unfold get. apply nth_error_map. Qed.

(** * Names that are kept apart *)

Lemma eqb_kept f names x y :
  keeps_apart f names -> In x names -> In y names -> (f x =? f y) = (x =? y).
Proof.
  intros Hf Hx Hy.
  destruct (N.eqb_spec x y) as [->|Hne]; [apply N.eqb_refl|].
  apply N.eqb_neq. intros Heq. apply Hne. exact (Hf x y Hx Hy Heq).
Qed.

Lemma memN_kept f names x l :
  keeps_apart f names -> In x names -> incl l names -> memN (f x) (map f l) = memN x l.
Proof.
  intros Hf Hx. unfold memN.
  induction l as [|a l IH]; intros Hl; [reflexivity|].
  cbn [map existsb].
  rewrite (eqb_kept f names x a Hf Hx (Hl a (or_introl eq_refl))).
  rewrite IH; [reflexivity|]. intros z Hz. apply Hl. right. exact Hz.
Qed.

Lemma has_dup_kept f names l :
  keeps_apart f names -> incl l names ->
  forall seen, incl seen names -> has_dup (map f seen) (map f l) = has_dup seen l.
Proof.
  intros Hf.
  induction l as [|a l IH]; intros Hl seen Hseen; [reflexivity|].
  cbn [map has_dup].
  assert (Ha : In a names) by (apply Hl; left; reflexivity).
  rewrite (memN_kept f names a seen Hf Ha Hseen).
  destruct (memN a seen); [reflexivity|].
  change (f a :: map f seen) with (map f (a :: seen)).
  apply IH.
  - intros z Hz. apply Hl. right. exact Hz.
  - intros z [<-|Hz]; [exact Ha|apply Hseen; exact Hz].
Qed.

(** * filter.go, selector.go *)

Lemma region_filter_kept f names ttl tick sid reg fleet :
  keeps_apart f names -> In reg names -> incl (map h_region fleet) names ->
  drummer_region_filter ttl tick sid (f reg) (map (rename_host f) fleet) =
  map (rename_host f) (drummer_region_filter ttl tick sid reg fleet).
Proof.
  intros Hf Hreg Hfl.
  unfold drummer_region_filter, region_filter, basic_filter, live_filter.
  rewrite !filter_map_comm. f_equal.
  apply filter_ext_on. intros h Hh.
  cbn [rename_host h_region].
  apply (eqb_kept f names reg (h_region h) Hf Hreg).
  apply Hfl. apply in_map.
  apply filter_In in Hh. destruct Hh as [Hh _].
  apply filter_In in Hh. destruct Hh as [Hh _].
  exact Hh.
Qed.

Lemma gather_map (g : hostspec -> hostspec) fl sl :
  gather (map g fl) sl = option_map (map g) (gather fl sl).
Proof.
  induction sl as [|i sl IH]; [reflexivity|].
  cbn [gather]. rewrite get_map.
  destruct (get fl i) as [h|]; cbn [option_map]; [|reflexivity].
  rewrite IH. destruct (gather fl sl); reflexivity.
Qed.

Definition found_map (g : hostspec -> hostspec) (x : found) : found :=
  match x with FDone hs rest => FDone (map g hs) rest | FCrash => FCrash | FOut => FOut end.

Lemma find_suitable_kept f names ttl tick sid reg fleet c ds :
  keeps_apart f names -> In reg names -> incl (map h_region fleet) names ->
  find_suitable ttl tick sid (f reg) (map (rename_host f) fleet) c ds =
  found_map (rename_host f) (find_suitable ttl tick sid reg fleet c ds).
Proof.
  intros Hf Hreg Hfl. unfold find_suitable.
  rewrite (region_filter_kept f names ttl tick sid reg fleet Hf Hreg Hfl).
  rewrite map_length, nlen_map.
  destruct (Z.of_nat (length (drummer_region_filter ttl tick sid reg fleet)) <? c)%Z; [reflexivity|].
  destruct (pick_loop (nlen (drummer_region_filter ttl tick sid reg fleet)) c [] ds) as [sl rest| |];
    [|reflexivity|reflexivity].
  rewrite gather_map.
  destruct (gather (drummer_region_filter ttl tick sid reg fleet) sl); reflexivity.
Qed.

(** * scheduler.go *)

Definition sel_map (g : hostspec -> hostspec) (x : sel) : sel :=
  match x with SDone s rest => SDone (map g s) rest | SCrash => SCrash | SOut => SOut end.

Lemma select_regions_kept f names ttl tick fleet sid counts :
  keeps_apart f names -> incl (map h_region fleet) names ->
  forall regs, incl regs names -> forall idx selected ds,
  select_regions ttl tick (map (rename_host f) fleet) sid counts idx (map f regs)
                 (map (rename_host f) selected) ds =
  sel_map (rename_host f) (select_regions ttl tick fleet sid counts idx regs selected ds).
Proof.
  intros Hf Hfl.
  induction regs as [|reg regs IH]; intros Hregs idx selected ds; [reflexivity|].
  cbn [map select_regions].
  destruct (get counts idx) as [c|]; [|reflexivity].
  rewrite (find_suitable_kept f names ttl tick sid reg fleet (to_int c) ds Hf
             (Hregs reg (or_introl eq_refl)) Hfl).
  destruct (find_suitable ttl tick sid reg fleet (to_int c) ds) as [hs rest| |];
    cbn [found_map]; [|reflexivity|reflexivity].
  rewrite <- map_app. apply IH.
  intros z Hz. apply Hregs. right. exact Hz.
Qed.

Lemma addr_list_renamed f ms : forall selected idx,
  addr_list (map (rename_host f) selected) idx ms = addr_list selected idx ms.
Proof.
  induction ms as [|m ms IH]; intros selected idx; [reflexivity|].
  cbn [addr_list]. rewrite get_map.
  destruct (get selected idx) as [h|]; cbn [option_map]; [|reflexivity].
  rewrite IH. reflexivity.
Qed.

Lemma shard_requests_renamed f sd rids addrs ts : forall idx,
  shard_requests sd rids addrs idx (map (rename_host f) ts) = shard_requests sd rids addrs idx ts.
Proof.
  induction ts as [|t ts IH]; intros idx; [reflexivity|].
  cbn [map shard_requests].
  destruct (get (sd_members sd) idx); [|reflexivity].
  rewrite IH. reflexivity.
Qed.

Lemma shard_step_kept f names ttl tick fleet r sd ds :
  keeps_apart f names -> incl (map h_region fleet) names -> incl (rg_region r) names ->
  shard_step ttl tick (map (rename_host f) fleet) (rename_spec f r) sd ds = shard_step ttl tick fleet r sd ds.
Proof.
  intros Hf Hfl Hr. unfold shard_step. cbn [rename_spec rg_count rg_region].
  destruct (check_counts (nlen (sd_members sd)) (rg_count r)) as [rem|]; [|reflexivity].
  destruct (negb (rem =? 0)); [reflexivity|].
  change (@nil hostspec) with (map (rename_host f) []) at 1.
  rewrite (select_regions_kept f names ttl tick fleet (sd_id sd) (rg_count r) Hf Hfl (rg_region r) Hr 0 [] ds).
  destruct (select_regions ttl tick fleet (sd_id sd) (rg_count r) 0 (rg_region r) [] ds) as [sl ds'| |];
    cbn [sel_map]; [|reflexivity|reflexivity].
  rewrite nlen_map.
  destruct (nlen sl <? nlen (sd_members sd)); [reflexivity|].
  rewrite addr_list_renamed.
  destruct (addr_list sl 0 (sd_members sd)) as [addrs|]; [|reflexivity].
  rewrite shard_requests_renamed. reflexivity.
Qed.

Lemma launch_shards_kept f names ttl tick fleet r shards :
  keeps_apart f names -> incl (map h_region fleet) names -> incl (rg_region r) names ->
  forall result ds,
  launch_shards ttl tick (map (rename_host f) fleet) (rename_spec f r) shards result ds =
  launch_shards ttl tick fleet r shards result ds.
Proof.
  intros Hf Hfl Hr.
  induction shards as [|sd rest IH]; intros result ds; [reflexivity|].
  rewrite !launch_shards_step.
  rewrite (shard_step_kept f names ttl tick fleet r sd ds Hf Hfl Hr).
  destruct (shard_step ttl tick fleet r sd ds); try reflexivity.
  apply IH.
Qed.

(** the outcome of a launch - the plan itself, request by request, or the refusal - is the same after every
    re-spelling of the region names that keeps the names occurring in the specification and in the NodeHosts'
    reports apart: the names are opaque tokens, none of them has a meaning of its own *)
Theorem launch_names_opaque : forall f ttl tick fleet shards regs ds,
  keeps_apart f (names_of fleet regs) ->
  launch ttl tick (map (rename_host f) fleet) shards (option_map (rename_spec f) regs) ds =
  launch ttl tick fleet shards regs ds.
Proof.
  intros f ttl tick fleet shards [r|] ds Hf; [|reflexivity].
  cbn [option_map names_of] in *.
  assert (Hr : incl (rg_region r) (rg_region r ++ map h_region fleet)) by (apply incl_appl, incl_refl).
  assert (Hfl : incl (map h_region fleet) (rg_region r ++ map h_region fleet)) by (apply incl_appr, incl_refl).
  rewrite !launch_unfold. cbn [rename_spec rg_region rg_count].
  rewrite nlen_map.
  destruct (negb (nlen (rg_region r) =? nlen (rg_count r))); [reflexivity|].
  change (@nil N) with (map f []) at 1.
  rewrite (has_dup_kept f _ (rg_region r) Hf Hr [] (incl_nil_l _)).
  destruct (has_dup [] (rg_region r)); [reflexivity|].
  apply (launch_shards_kept f _ ttl tick fleet r shards Hf Hfl Hr).
Qed.

Corollary launch_names_injective : forall f ttl tick fleet shards regs ds,
  (forall x y, f x = f y -> x = y) ->
  launch ttl tick (map (rename_host f) fleet) shards (option_map (rename_spec f) regs) ds =
  launch ttl tick fleet shards regs ds.
Proof.
  intros f ttl tick fleet shards regs ds Hf. apply launch_names_opaque.
  intros x y _ _. apply Hf.
Qed.

(** what must be refused is a matter of exact names as well *)
Lemma n_suitable_kept f names ttl tick sid reg fleet :
  keeps_apart f names -> In reg names -> incl (map h_region fleet) names ->
  n_suitable ttl tick sid (f reg) (map (rename_host f) fleet) = n_suitable ttl tick sid reg fleet.
Proof.
  intros Hf Hreg Hfl.
  rewrite !n_suitable_eq.
  rewrite (region_filter_kept f names ttl tick sid reg fleet Hf Hreg Hfl).
  apply nlen_map.
Qed.

(** server.validateRegions: same verdict, provided the re-spelling does not produce or remove the empty name *)
Theorem validate_regions_names_opaque : forall f regs,
  keeps_apart f (names_of [] regs) ->
  (forall x, In x (names_of [] regs) -> (f x = 0 <-> x = 0)) ->
  validate_regions (option_map (rename_spec f) regs) = validate_regions regs.
Proof.
  intros f [r|] Hf H0; [|reflexivity].
  assert (Hn : names_of [] (Some r) = rg_region r) by (unfold names_of; cbn [map]; apply app_nil_r).
  rewrite Hn in Hf, H0. clear Hn. cbn [option_map].
  unfold validate_regions. cbn [rename_spec rg_region rg_count].
  rewrite nlen_map.
  change (@nil N) with (map f []) at 1.
  rewrite (has_dup_kept f _ (rg_region r) Hf (incl_refl _) [] (incl_nil_l _)).
  f_equal. f_equal.
  clear Hf. induction (rg_region r) as [|a l IH]; [reflexivity|].
  cbn [map forallb].
  rewrite IH; [|intros x Hx; apply H0; right; exact Hx].
  f_equal. unfold nonzero.
  specialize (H0 a (or_introl eq_refl)).
  destruct (N.eqb_spec (f a) 0) as [E|E], (N.eqb_spec a 0) as [E'|E']; try reflexivity; exfalso; tauto.
Qed.
