(** Proofs about the Drummer service model (Service.v): C17. *)
From stdpp Require Import gmap list numbers sorting.
From Coq Require Import ZifyN ZifyNat ZifyBool Lia.
From Drummer.Model Require Import DB Service.
From Drummer.Proofs Require Import DBProofs.
Local Open Scope N_scope.
Arguments kv_update : simpl never.
Arguments try_create_shard : simpl never.

(** * Validation: the boolean tests say exactly "malformed" *)
Definition malformed_change (t : N) (sd : shard_def) : Prop :=
  t <> 0 \/ sd_members sd = [] \/ sd_app sd = 0 \/ 0 ∈ sd_members sd \/ ~ NoDup (sd_members sd).
Definition malformed_regions (rs cs : list N) : Prop :=
  rs = [] \/ length rs <> length cs \/ 0 ∈ rs \/ ~ NoDup rs.

Lemma nonzero_all_spec l : nonzero_all l = true <-> 0 ∉ l.
Proof.
  unfold nonzero_all. induction l as [|x l IH]; cbn [forallb].
  - split; [intros _ H; inversion H|done].
  - rewrite andb_true_iff, IH, not_elem_of_cons, negb_true_iff, N.eqb_neq.
    split; intros [H1 H2]; (split; [congruence|exact H2]).
Qed.

Lemma valid_change_spec t sd : valid_change t sd = false <-> malformed_change t sd.
Proof.
  unfold valid_change, malformed_change. split.
  - intros H.
    destruct (decide (t = 0)) as [Ht|Ht]; [|by left].
    destruct (decide (sd_members sd = [])) as [Hm|Hm]; [by right; left|].
    destruct (decide (sd_app sd = 0)) as [Ha|Ha]; [by right; right; left|].
    destruct (decide (0 ∈ sd_members sd)) as [Hz|Hz]; [by right; right; right; left|].
    destruct (decide (NoDup (sd_members sd))) as [Hn|Hn]; [|by right; right; right; right].
    exfalso. apply N.eqb_eq in Ht. apply N.eqb_neq in Ha. apply nonzero_all_spec in Hz.
    rewrite Ht, Ha, Hz, (bool_decide_eq_false_2 _ Hm), (bool_decide_eq_true_2 _ Hn) in H. discriminate.
  - intros [Ht|[Hm|[Ha|[Hz|Hn]]]].
    + apply N.eqb_neq in Ht. rewrite Ht. reflexivity.
    + rewrite (bool_decide_eq_true_2 _ Hm). cbn. rewrite andb_false_r. reflexivity.
    + apply N.eqb_eq in Ha. rewrite Ha. cbn. rewrite andb_false_r. reflexivity.
    + destruct (nonzero_all (sd_members sd)) eqn:E; [apply nonzero_all_spec in E; done|].
      rewrite andb_false_r. reflexivity.
    + rewrite (bool_decide_eq_false_2 _ Hn). apply andb_false_r.
Qed.

Lemma valid_regions_spec rs cs : valid_regions rs cs = false <-> malformed_regions rs cs.
Proof.
  unfold valid_regions, malformed_regions. split.
  - intros H.
    destruct (decide (rs = [])) as [Hm|Hm]; [by left|].
    destruct (decide (length rs = length cs)) as [Hl|Hl]; [|by right; left].
    destruct (decide (0 ∈ rs)) as [Hz|Hz]; [by right; right; left|].
    destruct (decide (NoDup rs)) as [Hn|Hn]; [|by right; right; right].
    exfalso. apply nonzero_all_spec in Hz.
    rewrite Hz, (bool_decide_eq_false_2 _ Hm), (bool_decide_eq_true_2 _ Hl), (bool_decide_eq_true_2 _ Hn) in H. discriminate.
  - intros [Hm|[Hl|[Hz|Hn]]].
    + rewrite (bool_decide_eq_true_2 _ Hm). reflexivity.
    + rewrite (bool_decide_eq_false_2 _ Hl). cbn. rewrite andb_false_r. reflexivity.
    + destruct (nonzero_all rs) eqn:E; [apply nonzero_all_spec in E; done|].
      rewrite andb_false_r. reflexivity.
    + rewrite (bool_decide_eq_false_2 _ Hn). apply andb_false_r.
Qed.

Lemma valid_change_inv t sd : valid_change t sd = true -> t = 0 /\ sd_members sd <> [] /\ sd_app sd <> 0.
Proof.
  unfold valid_change. rewrite !andb_true_iff, !negb_true_iff, N.eqb_eq, N.eqb_neq, bool_decide_eq_false. tauto.
Qed.

(** * The regions code is injective and never the empty string *)
Lemma enc_cons_nonzero x e : 2 ^ x * (2 * e + 1) <> 0.
Proof. apply N.neq_mul_0. split; [apply N.pow_nonzero; lia|lia]. Qed.

Lemma enc_odd_even x k a b : 2 ^ x * (2 * a + 1) <> 2 ^ (x + N.succ k) * (2 * b + 1).
Proof.
  rewrite N.pow_add_r, N.pow_succ_r'. intros H.
  assert (Hx : 2 ^ x <> 0) by (apply N.pow_nonzero; lia).
  rewrite <- !N.mul_assoc in H. apply N.mul_cancel_l in H; [|exact Hx].
  remember (2 ^ k * (2 * b + 1)) as m eqn:Em. clear Em. lia.
Qed.

Lemma enc_step_inj x y a b : 2 ^ x * (2 * a + 1) = 2 ^ y * (2 * b + 1) -> x = y /\ a = b.
Proof.
  intros H. destruct (N.lt_trichotomy x y) as [Hlt|[Heq|Hgt]].
  - exfalso. replace y with (x + N.succ (y - x - 1)) in H by lia. exact (enc_odd_even _ _ _ _ H).
  - subst y. split; [done|].
    assert (Hx : 2 ^ x <> 0) by (apply N.pow_nonzero; lia).
    apply N.mul_cancel_l in H; [lia|exact Hx].
  - exfalso. replace x with (y + N.succ (x - y - 1)) in H by lia. symmetry in H. exact (enc_odd_even _ _ _ _ H).
Qed.

Lemma enc_list_inj l1 l2 : enc_list l1 = enc_list l2 -> l1 = l2.
Proof.
  revert l2. induction l1 as [|x l1 IH]; intros [|y l2] H; cbn [enc_list] in H.
  - done.
  - exfalso. symmetry in H. exact (enc_cons_nonzero _ _ H).
  - exfalso. exact (enc_cons_nonzero _ _ H).
  - apply enc_step_inj in H as [-> H]. f_equal. apply IH. exact H.
Qed.

Lemma enc_regions_inj rs1 cs1 rs2 cs2 :
  enc_regions rs1 cs1 = enc_regions rs2 cs2 -> rs1 = rs2 /\ cs1 = cs2.
Proof.
  unfold enc_regions. intros H. apply enc_list_inj in H. injection H as Hl Happ.
  apply Nat2N.inj in Hl. apply app_inj_1 in Happ; [exact Happ|exact Hl].
Qed.

Lemma enc_regions_nonzero rs cs : enc_regions rs cs <> 0.
Proof. unfold enc_regions. cbn [enc_list]. apply enc_cons_nonzero. Qed.

Lemma did_roundtrip n : val_did (did_val n) = Some n.
Proof.
  unfold val_did, did_val. destruct (n + 2 <? 2) eqn:E; [apply N.ltb_lt in E; lia|]. f_equal. lia.
Qed.

(** * State after a call = the DB after the commands the call proposes *)
Lemma propose_fst P d c k : (propose P d c k).1 = (rstep P (Live d) c).1.
Proof. unfold propose, rstep. destruct (db_step P d c); reflexivity. Qed.

Lemma svc_call_state P d c : (svc_call P d c).1 = run_from P (Live d) (call_cmds c).
Proof.
  destruct c as [t sd|rs cs| |did|r| | |ids| |]; cbn [svc_call call_cmds]; try reflexivity.
  - destruct (valid_change t sd); [rewrite propose_fst|]; reflexivity.
  - destruct (valid_regions rs cs); [rewrite propose_fst|]; reflexivity.
  - rewrite propose_fst; reflexivity.
  - rewrite propose_fst; reflexivity.
  - rewrite propose_fst; reflexivity.
Qed.

Lemma svc_step_state P s c : (svc_step P s c).1 = run_from P s (call_cmds c).
Proof.
  destruct s as [d|]; cbn [svc_step]; [apply svc_call_state|].
  cbn [fst]. symmetry. apply run_from_dead.
Qed.

Lemma hstep_state P s x : hstep P s x = run_from P s (hitem_cmds x).
Proof. destruct x as [c|c]; cbn [hstep hitem_cmds]; [apply svc_step_state|reflexivity]. Qed.

Lemma svc_run_log P s h : svc_run P s h = run_from P s (hist_cmds h).
Proof.
  revert s. induction h as [|x h IH]; intros s; [reflexivity|].
  unfold hist_cmds. rewrite fmap_cons. cbn [concat]. rewrite run_from_app.
  change (svc_run P s (x :: h)) with (svc_run P (hstep P s x) h).
  rewrite IH, hstep_state. reflexivity.
Qed.

(** * Queries *)
Definition deployment_of (d : db) : resp :=
  match d_kv d !! key_deployment with
  | Some r => if kv_val r <? 2 then RParseErr else RDid (kv_val r - 2)
  | None => RParseErr
  end.

Lemma did_answer_eq d : did_answer d = deployment_of d.
Proof.
  unfold did_answer, deployment_of, lookup_kv, val_did.
  destruct (d_kv d !! key_deployment) as [r|]; [|reflexivity]. destruct (kv_val r <? 2); reflexivity.
Qed.

Definition states_of (P : params) (d : db) (ids : list N) : resp :=
  match lookup_states P d ids with Some (x :: l) => RStates (x :: l) | _ => RNotFound end.

Lemma states_answer_eq P d ids : states_answer P d ids = states_of P d ids.
Proof. unfold states_answer, states_of. destruct (lookup_states P d ids) as [[|x l]|]; reflexivity. Qed.

Lemma queries_at P d :
  d_failed d = false ->
  svc_call P d GetShards = (Live d, RShards (lookup_shards d)) /\
  svc_call P d GetNodeHostCollection = (Live d, RHosts (d_tick d) (mvals (d_info d))) /\
  (forall ids, svc_call P d (GetShardStates ids) = (Live d, states_of P d ids)) /\
  svc_call P d GetCCIList = (Live d, RCCI (map_to_list (s_cci <$> d_view d))) /\
  svc_call P d GetDeploymentInfo = (Live d, deployment_of d).
Proof.
  intros Hf. cbn [svc_call]. unfold read. rewrite Hf.
  repeat split; try reflexivity.
  - intros ids. rewrite states_answer_eq. reflexivity.
  - rewrite did_answer_eq. reflexivity.
Qed.

Lemma queries_after_history P d0 h d :
  run_from P (Live d0) (hist_cmds h) = Live d -> d_failed d = false ->
  let s := svc_run P (Live d0) h in
  svc_step P s GetShards = (Live d, RShards (lookup_shards d)) /\
  svc_step P s GetNodeHostCollection = (Live d, RHosts (d_tick d) (mvals (d_info d))) /\
  (forall ids, svc_step P s (GetShardStates ids) = (Live d, states_of P d ids)) /\
  svc_step P s GetCCIList = (Live d, RCCI (map_to_list (s_cci <$> d_view d))) /\
  svc_step P s GetDeploymentInfo = (Live d, deployment_of d).
Proof.
  intros Hrun Hf s. subst s. rewrite svc_run_log, Hrun. cbn [svc_step]. apply queries_at. exact Hf.
Qed.

Lemma queries_failed P d c : d_failed d = true -> is_query c = true -> svc_call P d c = (Live d, RDied).
Proof. intros Hf Hq. destruct c; try discriminate; cbn [svc_call]; unfold read; rewrite Hf; reflexivity. Qed.

Lemma query_no_effect P s c : is_query c = true -> (svc_step P s c).1 = s.
Proof.
  intros Hq. rewrite svc_step_state. destruct c; try discriminate; reflexivity.
Qed.

(** * Reports: applied first, the reply is the addressee's mailbox afterwards *)
Lemma ousi_outgoing d : d_outgoing (on_updated_shard_info d) = d_outgoing d.
Proof. unfold on_updated_shard_info. destruct (_ && _); reflexivity. Qed.
Lemma ousi_requests d : d_requests (on_updated_shard_info d) = d_requests d.
Proof. unfold on_updated_shard_info. destruct (_ && _); reflexivity. Qed.
Lemma ousi_failed d : d_failed (on_updated_shard_info d) = d_failed d.
Proof. unfold on_updated_shard_info. destruct (_ && _); reflexivity. Qed.

Lemma report_mailbox d r v' k' :
  let d' := report_result d r v' k' in
  d_outgoing d' !! rp_addr r = d_requests d !! rp_addr r /\
  d_requests d' !! rp_addr r = None /\
  d_failed d' = d_failed d /\
  (forall a, a <> rp_addr r -> d_outgoing d' !! a = d_outgoing d !! a /\ d_requests d' !! a = d_requests d !! a).
Proof.
  cbn zeta. unfold report_result. rewrite ousi_outgoing, ousi_requests, ousi_failed.
  unfold pickup. cbn [d_requests set_hosts set_kill set_view set_info set_outgoing].
  destruct (d_requests d !! rp_addr r) as [qs|] eqn:E;
    cbn [d_requests d_outgoing d_failed set_hosts set_kill set_view set_info set_outgoing set_requests].
  - rewrite lookup_insert, lookup_delete. repeat split; try done.
    + rewrite lookup_insert_ne, lookup_delete_ne by done. reflexivity.
    + rewrite lookup_delete_ne by done. reflexivity.
  - rewrite lookup_delete, E. repeat split; try done.
    rewrite lookup_delete_ne by done. reflexivity.
Qed.

Lemma report_call P d r :
  d_failed d = false ->
  match view_update (d_view d) (d_kill d) (stamp d r) (d_tick d) with
  | None => svc_call P d (Report r) = (Dead, RDied)
  | Some (view', kill') =>
    let d' := report_result d (stamp d r) view' kill' in
    let reply := default [] (d_requests d !! rp_addr r) in
    svc_call P d (Report r) = (Live d', RRequests reply) /\
    db_step P d (CReport r) = SOk d' (N.of_nat (length reply)) /\
    reply = lookup_requests d' (rp_addr r) /\
    d_requests d' !! rp_addr r = None /\
    (forall a, a <> rp_addr r -> d_requests d' !! a = d_requests d !! a /\ d_outgoing d' !! a = d_outgoing d !! a)
  end.
Proof.
  intros Hf. cbn [svc_call]. unfold propose, db_step. rewrite Hf. unfold apply_report.
  destruct (view_update (d_view d) (d_kill d) (stamp d r) (d_tick d)) as [[view' kill']|]; [|reflexivity].
  cbn zeta.
  pose proof (report_mailbox d (stamp d r) view' kill') as Hm. cbn zeta in Hm.
  change (rp_addr (stamp d r)) with (rp_addr r) in *.
  destruct Hm as (Ho & Hr & Hfl & Hother).
  unfold read. rewrite Hfl, Hf. unfold requests_answer, lookup_requests. rewrite Ho.
  split; [reflexivity|]. split.
  - unfold pickup_count. destruct (d_requests d !! rp_addr r); reflexivity.
  - split; [reflexivity|]. split; [exact Hr|].
    intros a Ha. destruct (Hother a Ha) as [H1 H2]. split; assumption.
Qed.

(** * Configuration calls: codes and exact successor states *)
Definition fin_write (d : db) (k v : N) : db * N :=
  match d_kv d !! k with
  | None => (set_kv d (<[k := fin_kv k v]> (d_kv d)), 0)
  | Some old =>
    if kv_fin old then (d, 1)
    else if kv_inst old =? 0 then (set_kv d (<[k := fin_kv k v]> (d_kv d)), 0)
    else (d, 2)
  end.

Lemma fin_write_step P d k v :
  d_failed d = false -> k <> 0 -> v <> 0 ->
  db_step P d (CKV (fin_kv k v)) = SOk (fin_write d k v).1 (fin_write d k v).2.
Proof.
  intros Hf Hk Hv. pose proof (kv_codes P d (fin_kv k v) Hf Hk Hv) as H.
  unfold fin_write. cbn [kv_key kv_inst kv_old fin_kv] in *.
  destruct (d_kv d !! k) as [old|]; [|exact H].
  destruct (kv_fin old); [exact H|].
  rewrite orb_diag in H. destruct (kv_inst old =? 0); exact H.
Qed.

Lemma fin_write_code d k v : (fin_write d k v).2 = 0 \/ (fin_write d k v).2 = 1 \/ (fin_write d k v).2 = 2.
Proof.
  unfold fin_write. destruct (d_kv d !! k) as [old|]; [|by left].
  destruct (kv_fin old); [by right; left|]. destruct (kv_inst old =? 0); [by left|by right; right].
Qed.

Lemma fin_write_failed d k v : d_failed (fin_write d k v).1 = d_failed d.
Proof.
  unfold fin_write. destruct (d_kv d !! k) as [old|]; [|reflexivity].
  destruct (kv_fin old); [reflexivity|]. destruct (kv_inst old =? 0); reflexivity.
Qed.

Lemma fin_write_present d k v : is_Some (d_kv (fin_write d k v).1 !! k).
Proof.
  unfold fin_write. destruct (d_kv d !! k) as [old|] eqn:E.
  - destruct (kv_fin old); [cbn; rewrite E; by eexists|].
    destruct (kv_inst old =? 0); cbn; [rewrite lookup_insert|rewrite E]; by eexists.
  - cbn. rewrite lookup_insert. by eexists.
Qed.

Definition shard_write (d : db) (sd : shard_def) : db * N :=
  if is_bootstrapped d then (d, 2)
  else match d_shards d !! sd_id sd with
       | Some _ => (d, 1)
       | None => (set_shards d (<[sd_id sd := sd]> (d_shards d)), 0)
       end.

Lemma shard_write_step P d t sd :
  d_failed d = false -> valid_change t sd = true ->
  db_step P d (CShard t sd) = SOk (shard_write d sd).1 (shard_write d sd).2.
Proof.
  intros Hf Hv. apply valid_change_inv in Hv as (-> & Hm & Ha).
  unfold db_step. rewrite Hf. unfold try_create_shard, shard_write. cbn [negb N.eqb].
  rewrite (bool_decide_eq_false_2 _ Hm). apply N.eqb_neq in Ha. rewrite Ha.
  destruct (is_bootstrapped d); [reflexivity|]. destruct (d_shards d !! sd_id sd); reflexivity.
Qed.

Lemma shard_write_failed d sd : d_failed (shard_write d sd).1 = d_failed d.
Proof.
  unfold shard_write. destruct (is_bootstrapped d); [reflexivity|]. destruct (d_shards d !! sd_id sd); reflexivity.
Qed.

Definition change_code (v : N) : resp := match v with 0 => ROk | 1 => RShardExist | _ => RBootstrapped end.

Lemma config_codes P d :
  d_failed d = false ->
  (forall t sd, valid_change t sd = true ->
     svc_call P d (SubmitChange t sd) =
       if is_bootstrapped d then (Live d, RBootstrapped)
       else match d_shards d !! sd_id sd with
            | Some _ => (Live d, RShardExist)
            | None => (Live (set_shards d (<[sd_id sd := sd]> (d_shards d))), ROk)
            end) /\
  (svc_call P d SetBootstrapped =
     (Live (fin_write d key_bootstrapped val_true).1,
      if (fin_write d key_bootstrapped val_true).2 <? 2 then ROk else RHandlerPanic)) /\
  (forall rs cs, valid_regions rs cs = true ->
     svc_call P d (SetRegions rs cs) =
       (Live (fin_write d key_regions (enc_regions rs cs)).1,
        if (fin_write d key_regions (enc_regions rs cs)).2 <? 2 then ROk else RHandlerPanic)) /\
  (forall did,
     let w := fin_write d key_deployment (did_val did) in
     svc_call P d (SetDeploymentID did) = (Live w.1, if w.2 =? 0 then RDid did else deployment_of w.1) /\
     (w.2 = 0 -> deployment_of w.1 = RDid did)).
Proof.
  intros Hf. repeat split.
  - intros t sd Hv. cbn [svc_call]. rewrite Hv. unfold propose. rewrite (shard_write_step P d t sd Hf Hv).
    unfold shard_write. destruct (is_bootstrapped d); [reflexivity|].
    destruct (d_shards d !! sd_id sd); reflexivity.
  - cbn [svc_call]. unfold propose. rewrite (fin_write_step P d key_bootstrapped val_true Hf) by done.
    f_equal. unfold kv_resp. destruct (fin_write_code d key_bootstrapped val_true) as [-> | [-> | ->]]; reflexivity.
  - intros rs cs Hv. cbn [svc_call]. rewrite Hv. unfold propose.
    rewrite (fin_write_step P d key_regions (enc_regions rs cs) Hf) by (done || apply enc_regions_nonzero).
    f_equal. unfold kv_resp. destruct (fin_write_code d key_regions (enc_regions rs cs)) as [-> | [-> | ->]]; reflexivity.
  - cbn [svc_call]. unfold propose.
    rewrite (fin_write_step P d key_deployment (did_val did) Hf) by (done || unfold did_val; lia).
    f_equal. destruct (_ =? 0); [reflexivity|].
    unfold read. rewrite fin_write_failed, Hf. apply did_answer_eq.
  - intros Hw. unfold fin_write in *. unfold deployment_of.
    destruct (d_kv d !! key_deployment) as [old|] eqn:E.
    + destruct (kv_fin old); [discriminate|]. destruct (kv_inst old =? 0); [|discriminate].
      cbn. rewrite lookup_insert. cbn [kv_val fin_kv]. pose proof (did_roundtrip did) as Hr. unfold val_did in Hr.
      destruct (did_val did <? 2); [discriminate|]. injection Hr as ->. reflexivity.
    + cbn. rewrite lookup_insert. cbn [kv_val fin_kv]. pose proof (did_roundtrip did) as Hr. unfold val_did in Hr.
      destruct (did_val did <? 2); [discriminate|]. injection Hr as ->. reflexivity.
Qed.

(** * Malformed calls *)
Lemma malformed_refused P d :
  (forall t sd, malformed_change t sd ->
     svc_call P d (SubmitChange t sd) = (Live d, RInvalid) /\ call_cmds (SubmitChange t sd) = []) /\
  (forall rs cs, malformed_regions rs cs ->
     svc_call P d (SetRegions rs cs) = (Live d, RInvalid) /\ call_cmds (SetRegions rs cs) = []).
Proof.
  split.
  - intros t sd H. apply valid_change_spec in H. cbn [svc_call call_cmds]. rewrite H. done.
  - intros rs cs H. apply valid_regions_spec in H. cbn [svc_call call_cmds]. rewrite H. done.
Qed.

Lemma wellformed_not_refused P d :
  (forall t sd, ~ malformed_change t sd -> (svc_call P d (SubmitChange t sd)).2 <> RInvalid) /\
  (forall rs cs, ~ malformed_regions rs cs -> (svc_call P d (SetRegions rs cs)).2 <> RInvalid).
Proof.
  split.
  - intros t sd H. destruct (valid_change t sd) eqn:E; [|exfalso; apply H; by apply valid_change_spec].
    cbn [svc_call]. rewrite E. unfold propose. destruct (db_step P d _) as [d' v| |]; cbn; try done.
    unfold change_resp. repeat destruct (_ =? _); done.
  - intros rs cs H. destruct (valid_regions rs cs) eqn:E; [|exfalso; apply H; by apply valid_regions_spec].
    cbn [svc_call]. rewrite E. unfold propose. destruct (db_step P d _) as [d' v| |]; cbn; try done.
    unfold kv_resp. destruct (_ || _); done.
Qed.

(** * No configuration call can fail-stop the DB *)
Lemma config_cmd_ok P d c cmd :
  is_config c = true -> cmd ∈ call_cmds c -> d_failed d = false ->
  exists d' v, db_step P d cmd = SOk d' v /\ d_failed d' = false.
Proof.
  intros Hc Hin Hf. destruct c as [t sd|rs cs| |did|r| | |ids| |]; try discriminate; cbn [call_cmds] in Hin.
  - destruct (valid_change t sd) eqn:E; [|inversion Hin].
    apply elem_of_list_singleton in Hin as ->.
    eexists _, _. split; [apply shard_write_step; assumption|]. rewrite shard_write_failed. exact Hf.
  - destruct (valid_regions rs cs) eqn:E; [|inversion Hin].
    apply elem_of_list_singleton in Hin as ->.
    eexists _, _. split; [apply fin_write_step; [assumption|done|apply enc_regions_nonzero]|].
    rewrite fin_write_failed. exact Hf.
  - apply elem_of_list_singleton in Hin as ->.
    eexists _, _. split; [apply fin_write_step; [assumption|done|done]|]. rewrite fin_write_failed. exact Hf.
  - apply elem_of_list_singleton in Hin as ->.
    eexists _, _. split; [apply fin_write_step; [assumption|done|unfold did_val; lia]|]. rewrite fin_write_failed. exact Hf.
Qed.

Lemma config_cmds_run P d cs :
  d_failed d = false -> (forall cmd, cmd ∈ cs -> exists c, is_config c = true /\ cmd ∈ call_cmds c) ->
  exists d', run_from P (Live d) cs = Live d' /\ d_failed d' = false.
Proof.
  revert d. induction cs as [|cmd cs IH]; intros d Hf Hall; [by exists d|].
  destruct (Hall cmd) as (c & Hc & Hin); [by left|].
  destruct (config_cmd_ok P d c cmd Hc Hin Hf) as (d1 & v & Hs & Hf1).
  rewrite run_from_cons. unfold rstep. rewrite Hs. cbn [fst].
  apply IH; [exact Hf1|]. intros x Hx. apply Hall. by right.
Qed.

Lemma config_call_alive P d c :
  is_config c = true -> exists d', (svc_call P d c).1 = Live d' /\ d_failed d' = d_failed d.
Proof.
  intros Hc. rewrite svc_call_state.
  destruct (d_failed d) eqn:Hf.
  - (* already failed: every command leaves the state as it is *)
    exists d. split; [|exact Hf].
    destruct c as [t sd|rs cs| |did|r| | |ids| |]; try discriminate; cbn [call_cmds];
      repeat match goal with |- context [if ?b then _ else _] => destruct b end; try reflexivity;
      rewrite run_from_cons; unfold rstep; rewrite (step_failed P d _ Hf); reflexivity.
  - apply config_cmds_run; [exact Hf|]. intros cmd Hin. exists c. split; assumption.
Qed.

Lemma elem_of_concat_1 {A} (x : A) (ls : list (list A)) : x ∈ concat ls -> exists l, x ∈ l /\ l ∈ ls.
Proof.
  induction ls as [|l ls IH]; cbn [concat]; [intros H; inversion H|].
  rewrite elem_of_app. intros [H|H]; [exists l; split; [exact H|by left]|].
  destruct (IH H) as (l' & H1 & H2). exists l'. split; [exact H1|by right].
Qed.

Lemma config_history_alive P d (cs : list call) :
  d_failed d = false -> Forall (λ c, is_config c = true) cs ->
  exists d', svc_run P (Live d) (HCall <$> cs) = Live d' /\ d_failed d' = false /\
             run_from P (Live d) (hist_cmds (HCall <$> cs)) = Live d'.
Proof.
  intros Hf Hall.
  destruct (config_cmds_run P d (hist_cmds (HCall <$> cs)) Hf) as (d' & Hrun & Hf').
  - intros cmd Hin. unfold hist_cmds in Hin. apply elem_of_concat_1 in Hin as (l & Hcmd & Hl).
    apply elem_of_list_fmap in Hl as (x & -> & Hx). apply elem_of_list_fmap in Hx as (c & -> & Hc).
    exists c. split; [|exact Hcmd]. rewrite Forall_forall in Hall. apply Hall. exact Hc.
  - exists d'. rewrite svc_run_log. split; [exact Hrun|]. split; [exact Hf'|exact Hrun].
Qed.

(** * Acknowledged updates stay visible *)
Lemma shard_ack_visible P d t sd d1 h d2 :
  svc_call P d (SubmitChange t sd) = (Live d1, ROk) ->
  svc_run P (Live d1) h = Live d2 -> d_shards d2 !! sd_id sd = Some sd.
Proof.
  intros Hc Hrun. rewrite svc_run_log in Hrun.
  eapply run_shard_kept; [exact Hrun|].
  cbn [svc_call] in Hc. destruct (valid_change t sd) eqn:Hv; [|discriminate].
  unfold propose in Hc. destruct (d_failed d) eqn:Hf.
  - rewrite (step_failed P d _ Hf) in Hc. discriminate.
  - rewrite (shard_write_step P d t sd Hf Hv) in Hc. unfold shard_write in Hc.
    destruct (is_bootstrapped d); [discriminate|].
    destruct (d_shards d !! sd_id sd); [discriminate|].
    injection Hc as <-. cbn. apply lookup_insert.
Qed.

Lemma bootstrap_ack_gate P d d1 h d2 t sd :
  svc_call P d SetBootstrapped = (Live d1, ROk) ->
  svc_run P (Live d1) h = Live d2 -> d_failed d2 = false -> valid_change t sd = true ->
  svc_call P d2 (SubmitChange t sd) = (Live d2, RBootstrapped) /\ d_shards d2 = d_shards d1.
Proof.
  intros Hc Hrun Hf2 Hv. rewrite svc_run_log in Hrun.
  destruct (d_failed d) eqn:Hf.
  { cbn [svc_call] in Hc. unfold propose in Hc. rewrite (step_failed P d _ Hf) in Hc. discriminate. }
  destruct (config_codes P d Hf) as (_ & Hb & _). rewrite Hb in Hc. injection Hc as Hd1 _.
  assert (Hb1 : is_bootstrapped d1 = true).
  { subst d1. unfold is_bootstrapped. apply bool_decide_eq_true. apply fin_write_present. }
  destruct (run_bootstrapped_frozen P _ _ _ Hrun Hb1) as [Hsh Hb2].
  split; [|exact Hsh].
  destruct (config_codes P d2 Hf2) as (Hs & _). rewrite (Hs t sd Hv), Hb2. reflexivity.
Qed.

(** * Reachable states: every record except the election record is finalized *)
Definition kv_final_inv (d : db) : Prop :=
  forall k r, d_kv d !! k = Some r -> k <> key_election -> kv_fin r = true.

(* what the Drummer itself proposes besides the client calls: ticks, request batches,
   election votes (makeDrummerVote writes [key_election] only) *)
Definition drummer_cmd (c : cmd) : Prop :=
  match c with CKV kv => kv_key kv = key_election \/ kv_fin kv = true | _ => True end.

Lemma call_cmds_drummer c cmd : cmd ∈ call_cmds c -> drummer_cmd cmd.
Proof.
  destruct c as [t sd|rs cs| |did|r| | |ids| |]; cbn [call_cmds];
    repeat match goal with |- context [if ?b then _ else _] => destruct b end;
    intros H; try (inversion H; fail); apply elem_of_list_singleton in H as ->; cbn; auto.
Qed.

Lemma inv_init : kv_final_inv db_init.
Proof. intros k r H. cbn in H. rewrite lookup_empty in H. discriminate. Qed.

Lemma inv_step P d c d' : kv_final_inv d -> drummer_cmd c -> next P d c = Some d' -> kv_final_inv d'.
Proof.
  intros Hinv Hc Hn k r Hk Hne.
  apply step_kv in Hn as [E|[(kv & -> & E & _)|(qs & -> & _ & E)]]; rewrite E in Hk.
  - eapply Hinv; eauto.
  - destruct (decide (kv_key kv = k)) as [<-|Hd].
    + rewrite lookup_insert in Hk. injection Hk as <-. cbn in Hc. destruct Hc as [Hc|Hc]; [done|exact Hc].
    + rewrite lookup_insert_ne in Hk by exact Hd. eapply Hinv; eauto.
  - destruct (decide (key_launched = k)) as [<-|Hd].
    + rewrite lookup_insert in Hk. injection Hk as <-. reflexivity.
    + rewrite lookup_insert_ne in Hk by exact Hd. eapply Hinv; eauto.
Qed.

Lemma inv_run P cs d d' :
  kv_final_inv d -> Forall drummer_cmd cs -> run_from P (Live d) cs = Live d' -> kv_final_inv d'.
Proof.
  revert d. induction cs as [|c cs IH]; intros d Hinv Hall Hrun.
  - cbn in Hrun. injection Hrun as <-. exact Hinv.
  - apply Forall_cons in Hall as [Hc Hall]. rewrite run_from_cons, rstep_live in Hrun.
    destruct (next P d c) as [d1|] eqn:E; [|rewrite run_from_dead in Hrun; discriminate].
    eapply IH; [eapply inv_step; eauto|exact Hall|exact Hrun].
Qed.

Definition drummer_item (x : hitem) : Prop := match x with HCmd c => drummer_cmd c | HCall _ => True end.

Lemma hist_cmds_drummer h : Forall drummer_item h -> Forall drummer_cmd (hist_cmds h).
Proof.
  intros Hall. apply Forall_forall. intros cmd Hin. unfold hist_cmds in Hin.
  apply elem_of_concat_1 in Hin as (l & Hcmd & Hl). apply elem_of_list_fmap in Hl as (x & -> & Hx).
  rewrite Forall_forall in Hall. specialize (Hall x Hx). destruct x as [c|c]; cbn [hitem_cmds] in Hcmd.
  - eapply call_cmds_drummer; eauto.
  - apply elem_of_list_singleton in Hcmd as ->. exact Hall.
Qed.

Lemma inv_history P h d :
  Forall drummer_item h -> svc_run P (Live db_init) h = Live d -> kv_final_inv d.
Proof.
  intros Hall Hrun. rewrite svc_run_log in Hrun.
  eapply inv_run; [exact inv_init|apply hist_cmds_drummer; exact Hall|exact Hrun].
Qed.

Lemma fin_write_inv_code d k v : kv_final_inv d -> k <> key_election -> (fin_write d k v).2 <? 2 = true.
Proof.
  intros Hinv Hk. unfold fin_write. destruct (d_kv d !! k) as [old|] eqn:E; [|reflexivity].
  rewrite (Hinv k old E Hk). reflexivity.
Qed.

Lemma inv_no_handler_panic P d c : kv_final_inv d -> (svc_call P d c).2 <> RHandlerPanic.
Proof.
  intros Hinv. destruct (d_failed d) eqn:Hf.
  - destruct c as [t sd|rs cs| |did|r| | |ids| |]; cbn [svc_call]; unfold propose, read;
      repeat match goal with |- context [if ?b then _ else _] => destruct b end;
      rewrite ?(step_failed P d _ Hf); cbn; done.
  - destruct (config_codes P d Hf) as (Hs & Hb & Hr & Hd).
    destruct c as [t sd|rs cs| |did|r| | |ids| |].
    + destruct (valid_change t sd) eqn:Hv; [|cbn [svc_call]; rewrite Hv; done].
      rewrite (Hs t sd Hv). destruct (is_bootstrapped d); [done|]. destruct (d_shards d !! sd_id sd); done.
    + destruct (valid_regions rs cs) eqn:Hv; [|cbn [svc_call]; rewrite Hv; done].
      rewrite (Hr rs cs Hv). cbn [snd]. rewrite fin_write_inv_code by done. done.
    + rewrite Hb. cbn [snd]. rewrite fin_write_inv_code by done. done.
    + destruct (Hd did) as [-> _]. cbn [snd]. destruct (_ =? 0); [done|].
      unfold deployment_of. destruct (d_kv _ !! key_deployment) as [r|]; [|done]. destruct (kv_val r <? 2); done.
    + pose proof (report_call P d r Hf) as Hrep.
      destruct (view_update _ _ _ _) as [[view' kill']|]; [destruct Hrep as [-> _]|rewrite Hrep]; done.
    + cbn [svc_call]. unfold read. rewrite Hf. done.
    + cbn [svc_call]. unfold read. rewrite Hf. done.
    + cbn [svc_call]. unfold read. rewrite Hf. rewrite states_answer_eq. unfold states_of.
      destruct (lookup_states P d ids) as [[|x l]|]; done.
    + cbn [svc_call]. unfold read. rewrite Hf. done.
    + cbn [svc_call]. unfold read. rewrite Hf. rewrite did_answer_eq.
      unfold deployment_of. destruct (d_kv _ !! key_deployment) as [r|]; [|done]. destruct (kv_val r <? 2); done.
Qed.

Lemma no_handler_panic_reachable P h c :
  Forall drummer_item h -> (svc_step P (svc_run P (Live db_init) h) c).2 <> RHandlerPanic.
Proof.
  intros Hall. destruct (svc_run P (Live db_init) h) as [d|] eqn:E; cbn [svc_step]; [|done].
  apply inv_no_handler_panic. eapply inv_history; eauto.
Qed.

Lemma did_ack_forever P d did n d1 h d2 :
  kv_final_inv d ->
  svc_call P d (SetDeploymentID did) = (Live d1, RDid n) ->
  svc_run P (Live d1) h = Live d2 -> deployment_of d2 = RDid n.
Proof.
  intros Hinv Hc Hrun. rewrite svc_run_log in Hrun.
  destruct (d_failed d) eqn:Hf.
  { cbn [svc_call] in Hc. unfold propose in Hc. rewrite (step_failed P d _ Hf) in Hc. discriminate. }
  destruct (config_codes P d Hf) as (_ & _ & _ & Hd). destruct (Hd did) as [Hcall Hzero]. clear Hd.
  rewrite Hcall in Hc. injection Hc as Hd1 Hans.
  assert (Hrec : exists r, d_kv d1 !! key_deployment = Some r /\ kv_fin r = true /\ deployment_of d1 = RDid n).
  { subst d1. revert Hans Hzero. unfold fin_write.
    destruct (d_kv d !! key_deployment) as [old|] eqn:E.
    - rewrite (Hinv _ _ E) by done. cbn [fst snd]. change (1 =? 0) with false. cbn iota.
      intros Hans _. exists old. split; [exact E|]. split; [by apply (Hinv _ _ E)|exact Hans].
    - cbn [fst snd]. change (0 =? 0) with true. cbn iota. intros [= <-] Hz. specialize (Hz eq_refl).
      eexists. split; [cbn; apply lookup_insert|]. split; [reflexivity|exact Hz]. }
  destruct Hrec as (r & Hr & Hfin & Hdep).
  pose proof (run_finalized P _ _ _ _ _ Hrun Hr Hfin) as Hr2.
  unfold deployment_of in *. rewrite Hr2. rewrite Hr in Hdep. exact Hdep.
Qed.
