(** SchedTotal: the canonical outcome [canon] is in the allowed set of every well-formed
    context, so the allowed set is never empty ([allowed_canon]). *)
From stdpp Require Import gmap list numbers sorting.
From Coq Require Import ZifyN ZifyNat ZifyBool Lia.
From Drummer.Model Require Import DB Sched.
From Drummer.Proofs Require Import SchedProofs.
Local Open Scope N_scope.

(** * lists: squash / nondecr / blocks *)
Lemma squash_cons_notin x l : x ∉ l → squash (x :: l) = x :: squash l.
Proof.
  destruct l as [|y l]; [done|]. intros Hn. cbn [squash].
  destruct (decide (x = y)) as [->|Hne]; [|done]. exfalso. apply Hn. by left.
Qed.

Lemma squash_replicate_app k x l : squash (replicate (S k) x ++ l) = squash (x :: l).
Proof.
  induction k as [|k IH]; [done|].
  change (replicate (S (S k)) x ++ l) with (x :: (replicate (S k) x ++ l)).
  change (replicate (S k) x ++ l) with (x :: (replicate k x ++ l)) at 1.
  cbn [squash]. rewrite decide_True by done.
  change (x :: (replicate k x ++ l)) with (replicate (S k) x ++ l). exact IH.
Qed.

Lemma elem_of_squash x l : x ∈ squash l → x ∈ l.
Proof.
  induction l as [|a l IH]; [done|].
  destruct l as [|b l]; [done|]. cbn [squash].
  destruct (decide (a = b)) as [->|Hne].
  - intros H. right. by apply IH.
  - intros [->|H]%elem_of_cons; [by left|]. right. by apply IH.
Qed.

Definition blocks (T : list (N * nat)) : list N := concat ((λ t, replicate t.2 t.1) <$> T).

Lemma elem_of_blocks y T : y ∈ blocks T → y ∈ (filter (λ t, (0 < t.2)%nat) T).*1.
Proof.
  unfold blocks. induction T as [|[x k] T IH]; [done|].
  rewrite fmap_cons. cbn [concat]. rewrite filter_cons. cbn [fst snd].
  intros [Hin|Hin]%elem_of_app.
  - apply elem_of_replicate in Hin as [-> Hk]. rewrite decide_True by lia. rewrite fmap_cons. by left.
  - destruct (decide (0 < k)%nat); [rewrite fmap_cons; right|]; by apply IH.
Qed.

Lemma NoDup_squash_blocks T :
  NoDup ((filter (λ t, (0 < t.2)%nat) T).*1) → NoDup (squash (blocks T)).
Proof.
  induction T as [|[x k] T IH]; [intros _; constructor|].
  rewrite filter_cons. cbn [fst snd]. unfold blocks. rewrite fmap_cons. cbn [concat fst snd]. fold (blocks T).
  destruct k as [|k].
  - rewrite decide_False by lia. cbn [replicate app]. exact IH.
  - rewrite decide_True by lia. rewrite fmap_cons. cbn [fst]. intros [Hnin Hnd]%NoDup_cons.
    rewrite squash_replicate_app.
    assert (x ∉ blocks T) as Hx by (intros Hin%elem_of_blocks; done).
    rewrite squash_cons_notin by done. constructor; [|by apply IH].
    intros Hin%elem_of_squash. done.
Qed.

Lemma nondecr_const_app a l k :
  Forall (λ x, x = a) l → Forall (λ y, a ≤ y) k → nondecr k = true → nondecr (l ++ k) = true.
Proof.
  intros Hl Hk Hnk. induction Hl as [|x l -> Hl IH]; [done|].
  cbn [app nondecr]. destruct (l ++ k) as [|y r] eqn:Heq; [done|].
  rewrite IH, andb_true_r. apply N.leb_le.
  destruct l as [|z l].
  - simpl in Heq. subst k. by apply Forall_inv in Hk.
  - simpl in Heq. injection Heq as -> _. apply Forall_inv in Hl. lia.
Qed.

Lemma nondecr_const a l : Forall (λ x, x = a) l → nondecr l = true.
Proof. intros H. rewrite <- (app_nil_r l). apply (nondecr_const_app a); done. Qed.

Lemma NoDup_fmap_inj {A B} (f : A → B) (l : list A) x y :
  NoDup (f <$> l) → x ∈ l → y ∈ l → f x = f y → x = y.
Proof.
  induction l as [|a l IH]; [by intros _ ?%elem_of_nil|].
  rewrite fmap_cons. intros [Hn Hnd]%NoDup_cons [->|Hx]%elem_of_cons [->|Hy]%elem_of_cons Heq; [done| | |by apply IH].
  - exfalso. apply Hn. rewrite Heq. apply elem_of_list_fmap. by exists y.
  - exfalso. apply Hn. rewrite <- Heq. apply elem_of_list_fmap. by exists x.
Qed.

Lemma elem_of_concat {A} (x : A) (ls : list (list A)) : x ∈ concat ls ↔ ∃ l, x ∈ l ∧ l ∈ ls.
Proof.
  induction ls as [|l ls IH]; simpl.
  - split; [by intros ?%elem_of_nil|]. by intros (l & _ & ?%elem_of_nil).
  - rewrite elem_of_app, IH. split.
    + intros [H|(l' & ? & ?)]; [exists l; split; [done|by left]|exists l'; split; [done|by right]].
    + intros (l' & Hx & [->|Hl']%elem_of_cons); [by left|right; by exists l'].
Qed.

(** * blocks of requests contributed by the entries *)
Section Blocks.
Context (E : list shard) (Hnd : NoDup (s_id <$> E)).

Definition owned (g : shard → list request) : Prop := ∀ c q, q ∈ g c → q_shard q = s_id c.

Lemma filter_shard_notin g s :
  owned g → s ∉ (s_id <$> E) → filter (λ q, q_shard q = s) (concat (g <$> E)) = [].
Proof.
  intros Hg Hs. apply filter_none. intros q Hq Heq.
  apply elem_of_concat in Hq as (blk & Hq & Hblk). apply elem_of_list_fmap in Hblk as (c & -> & Hc).
  apply Hs. rewrite <- Heq, (Hg c q Hq). apply elem_of_list_fmap. by exists c.
Qed.
End Blocks.

Lemma filter_shard_block (E : list shard) g c :
  NoDup (s_id <$> E) → owned g → c ∈ E →
  filter (λ q, q_shard q = s_id c) (concat (g <$> E)) = g c.
Proof.
  intros Hnd Hg. induction E as [|x E IH]; [by intros ?%elem_of_nil|].
  rewrite fmap_cons in Hnd. apply NoDup_cons in Hnd as [Hx Hnd].
  rewrite fmap_cons. cbn [concat]. rewrite filter_app.
  intros [->|Hc]%elem_of_cons.
  - rewrite (filter_shard_notin E g (s_id x) Hg Hx), app_nil_r.
    induction (g x) as [|q l IHl] eqn:Hgx in Hg |- *; [done|]. clear IHl.
    assert (∀ q', q' ∈ g x → q_shard q' = s_id x) as Hall by (intros q' Hq'; by apply Hg).
    rewrite Hgx in Hall. clear Hgx.
    induction (q :: l) as [|q' l' IHl']; [done|].
    rewrite filter_cons, decide_True by (apply Hall; by left). f_equal. apply IHl'. intros q'' Hq''. apply Hall. by right.
  - rewrite IH by done.
    rewrite filter_none; [done|]. intros q Hq Heq.
    apply Hx. rewrite <- (Hg x q Hq), Heq. apply elem_of_list_fmap. by exists c.
Qed.

Lemma shards_blocks (E : list shard) g :
  owned g → q_shard <$> concat (g <$> E) = blocks ((λ c, (s_id c, length (g c))) <$> E).
Proof.
  intros Hg. unfold blocks. induction E as [|x E IH]; [done|].
  rewrite !fmap_cons. cbn [concat fst snd]. rewrite fmap_app, IH. f_equal.
  assert (∀ q, q ∈ g x → q_shard q = s_id x) as Hall by (intros q Hq; by apply Hg).
  induction (g x) as [|q l IHl]; [done|].
  cbn [length replicate]. rewrite fmap_cons. f_equal; [apply Hall; by left|]. apply IHl. intros q' Hq'. apply Hall. by right.
Qed.

Lemma block_ids (E : list shard) (g : shard → list request) x :
  x ∈ (filter (λ t : N * nat, (0 < t.2)%nat) ((λ c, (s_id c, length (g c))) <$> E)).*1 →
  ∃ c, c ∈ E ∧ s_id c = x ∧ g c ≠ [].
Proof.
  induction E as [|a E IH]; [by intros ?%elem_of_nil|].
  rewrite fmap_cons, filter_cons. cbn [fst snd].
  destruct (decide (0 < length (g a))%nat) as [Hpos|Hz].
  - rewrite fmap_cons. cbn [fst]. intros [->|Hin]%elem_of_cons.
    + exists a. split; [by left|]. split; [done|]. intros Hnil. rewrite Hnil in Hpos. simpl in Hpos. lia.
    + destruct (IH Hin) as (c & Hc & ? & ?). exists c. split; [by right|]. done.
  - intros Hin. destruct (IH Hin) as (c & Hc & ? & ?). exists c. split; [by right|]. done.
Qed.

Lemma block_ids_nodup (E : list shard) (g : shard → list request) :
  NoDup (s_id <$> E) →
  NoDup (filter (λ t : N * nat, (0 < t.2)%nat) ((λ c, (s_id c, length (g c))) <$> E)).*1.
Proof.
  induction E as [|a E IH]; [intros _; constructor|].
  rewrite !fmap_cons, filter_cons. cbn [fst snd]. intros [Ha Hnd]%NoDup_cons.
  destruct (decide (0 < length (g a))%nat); [|by apply IH].
  rewrite fmap_cons. cbn [fst]. constructor; [|by apply IH].
  intros Hin. destruct (block_ids E g _ Hin) as (c & Hc & Heq & _).
  apply Ha. rewrite <- Heq. apply elem_of_list_fmap. by exists c.
Qed.

(** * the canonical outcome is allowed *)
Section Canon.
Context (P : params) (C : sctx) (idf : N → N) (Hwf : ctx_wf C).

Notation E := (entries C).
Definition gu (c : shard) : list request := if need_restore P C c then canon_restore P C c else [].
Definition gf (c : shard) : list request := if need_restore P C c then [] else canon_restore P C c.
Definition gp (c : shard) : list request := reqs_of (canon_repair P C c (idf (s_id c))).
Definition cpre : list request := concat (gu <$> E) ++ concat (gf <$> E) ++ concat (gp <$> E).

Lemma entries_ids_nodup : NoDup (s_id <$> E).
Proof.
  assert (s_id <$> E = (map_to_list (c_view C)).*1) as ->; [|apply NoDup_fst_map_to_list].
  unfold entries, mvals. rewrite <- list_fmap_compose. apply list_fmap_ext.
  intros i [k c] Hin%elem_of_list_lookup_2%elem_of_map_to_list. simpl.
  destruct Hwf as [Hv _]. by destruct (Hv k c Hin) as [-> _].
Qed.

Lemma entry_inj c c' : c ∈ E → c' ∈ E → s_id c = s_id c' → c = c'.
Proof. apply NoDup_fmap_inj, entries_ids_nodup. Qed.

Lemma canon_restore_elem c q :
  q ∈ canon_restore P C c →
  ∃ sd n, c_defs C !! s_id c = Some sd ∧ n ∈ restore_set P C c ∧ q = create_req c n false true (sd_app sd).
Proof.
  unfold canon_restore. destruct (c_defs C !! s_id c) as [sd|]; [|by intros ?%elem_of_nil].
  intros (n & -> & Hn)%elem_of_list_fmap. by exists sd, n.
Qed.

Lemma canon_restore_has c : canon_restore P C c ≠ [] → has_restore P C c = true.
Proof.
  intros Hne. destruct (has_restore P C c) eqn:Hh; [done|]. exfalso. apply Hne.
  apply has_restore_false in Hh. unfold canon_restore. rewrite Hh. by destruct (c_defs C !! s_id c).
Qed.

Lemma gp_has_restore c : has_restore P C c = true → gp c = [].
Proof. intros Hh. unfold gp, canon_repair. by rewrite Hh. Qed.

Lemma owned_gu : owned gu.
Proof.
  intros c q. unfold gu. destruct (need_restore P C c); [|by intros ?%elem_of_nil].
  intros (sd & n & _ & _ & ->)%canon_restore_elem. done.
Qed.
Lemma owned_gf : owned gf.
Proof.
  intros c q. unfold gf. destruct (need_restore P C c); [by intros ?%elem_of_nil|].
  intros (sd & n & _ & _ & ->)%canon_restore_elem. done.
Qed.

(* the repair step of an entry, by cases *)
Lemma gp_cases c q :
  q ∈ gp c →
  has_restore P C c = false ∧
  ((repair_action P C c = ADelete ∧ ∃ n l m l', sr_failed P C c = n :: l ∧ sr_ok P C c = m :: l' ∧
      gp c = [q] ∧ q = mkReq RDelete (s_id c) [r_id n] (s_cci c) [] [] 0 (r_addr m) false false 0) ∨
   (∃ sd n l, repair_action P C c = ACreate sd ∧ sr_wait P C c = n :: l ∧ gp c = [q] ∧ q = create_req c n true false (sd_app sd)) ∨
   (repair_action P C c = AAdd ∧ ∃ n l m l' h hl, sr_failed P C c = n :: l ∧ sr_ok P C c = m :: l' ∧ candidates P C n = h :: hl ∧
      gp c = [q] ∧ q = mkReq RAdd (s_id c) [idf (s_id c)] (s_cci c) [] [h_addr h] 0 (r_addr m) false false 0)).
Proof.
  unfold gp, canon_repair. destruct (has_restore P C c); [by intros ?%elem_of_nil|].
  intros Hq. split; [done|].
  destruct (repair_action P C c) as [| |sd| |]; try (by apply elem_of_nil in Hq).
  - left. split; [done|]. destruct (sr_failed P C c) as [|n l]; [by apply elem_of_nil in Hq|].
    destruct (sr_ok P C c) as [|m l']; [by apply elem_of_nil in Hq|].
    cbn [reqs_of] in Hq |- *. apply elem_of_list_singleton in Hq. exists n, l, m, l'. by rewrite Hq.
  - right; left. destruct (sr_wait P C c) as [|n l]; [by apply elem_of_nil in Hq|].
    cbn [reqs_of] in Hq |- *. apply elem_of_list_singleton in Hq. exists sd, n, l. by rewrite Hq.
  - right; right. split; [done|]. destruct (sr_failed P C c) as [|n l]; [by apply elem_of_nil in Hq|].
    destruct (sr_ok P C c) as [|m l']; [by apply elem_of_nil in Hq|].
    destruct (candidates P C n) as [|h hl] eqn:Hcand; [by apply elem_of_nil in Hq|].
    cbn [reqs_of] in Hq |- *. apply elem_of_list_singleton in Hq. exists n, l, m, l', h, hl. rewrite Hq. repeat split. exact Hcand.
Qed.

Lemma owned_gp : owned gp.
Proof.
  intros c q Hq. destruct (gp_cases c q Hq) as (_ & [(_ & n & l & m & l' & _ & _ & _ & ->)|[(sd & n & l & _ & _ & _ & ->)|(_ & n & l & m & l' & h & hl & _ & _ & _ & _ & ->)]]); done.
Qed.

Lemma gu_elem c q : q ∈ gu c → need_restore P C c = true ∧ has_restore P C c = true ∧ is_restore q = true ∧ q_shard q = s_id c.
Proof.
  intros Hq. pose proof (owned_gu c q Hq) as Hs. unfold gu in Hq.
  destruct (need_restore P C c) eqn:Hn; [|by apply elem_of_nil in Hq].
  split; [done|]. split; [apply canon_restore_has; intros Hnil; rewrite Hnil in Hq; by apply elem_of_nil in Hq|].
  apply canon_restore_elem in Hq as (sd & n & _ & _ & ->). done.
Qed.
Lemma gf_elem c q : q ∈ gf c → need_restore P C c = false ∧ has_restore P C c = true ∧ is_restore q = true ∧ q_shard q = s_id c.
Proof.
  intros Hq. pose proof (owned_gf c q Hq) as Hs. unfold gf in Hq.
  destruct (need_restore P C c) eqn:Hn; [by apply elem_of_nil in Hq|].
  split; [done|]. split; [apply canon_restore_has; intros Hnil; rewrite Hnil in Hq; by apply elem_of_nil in Hq|].
  apply canon_restore_elem in Hq as (sd & n & _ & _ & ->). done.
Qed.
Lemma gp_elem c q : q ∈ gp c → has_restore P C c = false ∧ q_restore q = false ∧ is_kill q = false ∧ q_shard q = s_id c.
Proof.
  intros Hq. pose proof (owned_gp c q Hq) as Hs.
  destruct (gp_cases c q Hq) as (Hh & [(_ & n & l & m & l' & _ & _ & _ & ->)|[(sd & n & l & _ & _ & _ & ->)|(_ & n & l & m & l' & h & hl & _ & _ & _ & _ & ->)]]); done.
Qed.

Lemma cpre_elem q :
  q ∈ cpre → ∃ c, c ∈ E ∧ q_shard q = s_id c ∧ is_kill q = false ∧
                 ((q ∈ gu c ∧ seg P C q = 0) ∨ (q ∈ gf c ∧ seg P C q = 1) ∨ (q ∈ gp c ∧ seg P C q = 2)).
Proof.
  unfold cpre. rewrite !elem_of_app, !elem_of_concat.
  intros [(blk & Hq & Hb)|[(blk & Hq & Hb)|(blk & Hq & Hb)]]; apply elem_of_list_fmap in Hb as (c & -> & Hc); exists c; (split; [done|]).
  - destruct (gu_elem c q Hq) as (Hn & Hh & Hr & Hs). split; [done|].
    split; [unfold is_restore, is_create in Hr; unfold is_kill; by destruct (q_type q)|].
    left. split; [done|]. unfold seg. apply andb_true_iff in Hr as [_ ->].
    assert (existsb (λ c', bool_decide (s_id c' = q_shard q) && need_restore P C c') E = true) as ->; [|done].
    apply existsb_exists. exists c. split; [by apply elem_of_list_In|]. rewrite Hn, andb_true_r. by apply bool_decide_eq_true.
  - destruct (gf_elem c q Hq) as (Hn & Hh & Hr & Hs). split; [done|].
    split; [unfold is_restore, is_create in Hr; unfold is_kill; by destruct (q_type q)|].
    right; left. split; [done|]. unfold seg. apply andb_true_iff in Hr as [_ ->].
    destruct (existsb (λ c', bool_decide (s_id c' = q_shard q) && need_restore P C c') E) eqn:Hex; [|done].
    exfalso. apply existsb_exists in Hex as (c' & Hc'%elem_of_list_In & [Hid Hn']%andb_true_iff).
    apply bool_decide_eq_true in Hid. rewrite Hs in Hid.
    rewrite (entry_inj c' c Hc' Hc Hid) in Hn'. congruence.
  - destruct (gp_elem c q Hq) as (Hh & Hr & Hk & Hs). split; [done|]. split; [done|].
    right; right. split; [done|]. unfold seg. by rewrite Hr.
Qed.

Lemma cpre_nondecr : nondecr (seg P C <$> cpre) = true.
Proof.
  unfold cpre. rewrite !fmap_app.
  apply (nondecr_const_app 0).
  - apply Forall_fmap, Forall_forall. intros q Hq. simpl.
    destruct (cpre_elem q) as (c & Hc & _ & _ & Hcases); [unfold cpre; rewrite !elem_of_app; by left|].
    apply elem_of_concat in Hq as (blk & Hq & Hb). apply elem_of_list_fmap in Hb as (c0 & -> & Hc0).
    destruct (gu_elem c0 q Hq) as (Hn & _ & Hr & Hs).
    unfold seg. apply andb_true_iff in Hr as [_ ->].
    assert (existsb (λ c', bool_decide (s_id c' = q_shard q) && need_restore P C c') E = true) as ->; [|done].
    apply existsb_exists. exists c0. split; [by apply elem_of_list_In|]. rewrite Hn, andb_true_r. by apply bool_decide_eq_true.
  - apply Forall_forall. intros y _. lia.
  - apply (nondecr_const_app 1).
    + apply Forall_fmap, Forall_forall. intros q Hq. simpl.
      apply elem_of_concat in Hq as (blk & Hq & Hb). apply elem_of_list_fmap in Hb as (c0 & -> & Hc0).
      destruct (cpre_elem q) as (c & Hc & Hs & _ & Hcases); [unfold cpre; rewrite !elem_of_app; right; left; apply elem_of_concat; exists (gf c0); split; [done|]; apply elem_of_list_fmap; by exists c0|].
      destruct (gf_elem c0 q Hq) as (Hn0 & Hh0 & _ & Hs0).
      assert (c = c0) as -> by (apply entry_inj; [done|done|congruence]).
      destruct Hcases as [[Hq' _]|[[_ ?]|[Hq' _]]]; [|done|].
      * apply gu_elem in Hq' as (? & _). congruence.
      * apply gp_elem in Hq' as (? & _). congruence.
    + apply Forall_fmap, Forall_forall. intros q Hq. simpl.
      apply elem_of_concat in Hq as (blk & Hq & Hb). apply elem_of_list_fmap in Hb as (c0 & -> & Hc0).
      destruct (gp_elem c0 q Hq) as (_ & Hr & _). unfold seg. rewrite Hr. lia.
    + apply (nondecr_const 2). apply Forall_fmap, Forall_forall. intros q Hq. simpl.
      apply elem_of_concat in Hq as (blk & Hq & Hb). apply elem_of_list_fmap in Hb as (c0 & -> & Hc0).
      destruct (gp_elem c0 q Hq) as (_ & Hr & _). unfold seg. by rewrite Hr.
Qed.

Lemma blocks_app T1 T2 : blocks (T1 ++ T2) = blocks T1 ++ blocks T2.
Proof. unfold blocks. by rewrite fmap_app, concat_app. Qed.

Definition tbl (g : shard → list request) : list (N * nat) := (λ c, (s_id c, length (g c))) <$> E.

Lemma exclusive_blocks c :
  (gu c ≠ [] → gf c = [] ∧ gp c = []) ∧ (gf c ≠ [] → gu c = [] ∧ gp c = []) .
Proof.
  split; intros Hne.
  - unfold gu in Hne. unfold gf. destruct (need_restore P C c); [|done]. split; [done|].
    apply gp_has_restore. by apply canon_restore_has.
  - unfold gf in Hne. unfold gu. destruct (need_restore P C c); [done|]. split; [done|].
    apply gp_has_restore. by apply canon_restore_has.
Qed.

Lemma cpre_contiguous : NoDup (squash (q_shard <$> cpre)).
Proof.
  unfold cpre. rewrite !fmap_app.
  rewrite (shards_blocks E gu owned_gu), (shards_blocks E gf owned_gf), (shards_blocks E gp owned_gp).
  fold (tbl gu) (tbl gf) (tbl gp). rewrite <- !blocks_app.
  apply NoDup_squash_blocks. rewrite !filter_app, !fmap_app.
  pose proof entries_ids_nodup as Hnd.
  apply NoDup_app. split; [by apply block_ids_nodup|]. split.
  - intros x Hu Hin. apply block_ids in Hu as (c & Hc & Hid & Hne).
    destruct (exclusive_blocks c) as [Hex _]. destruct (Hex Hne) as [Hf0 Hp0].
    apply elem_of_app in Hin as [Hin|Hin]; apply block_ids in Hin as (c' & Hc' & Hid' & Hne').
    + rewrite (entry_inj c' c Hc' Hc) in Hne' by congruence. done.
    + rewrite (entry_inj c' c Hc' Hc) in Hne' by congruence. done.
  - apply NoDup_app. split; [by apply block_ids_nodup|]. split; [|by apply block_ids_nodup].
    intros x Hf Hin. apply block_ids in Hf as (c & Hc & Hid & Hne).
    destruct (exclusive_blocks c) as [_ Hex]. destruct (Hex Hne) as [Hu0 Hp0].
    apply block_ids in Hin as (c' & Hc' & Hid' & Hne').
    rewrite (entry_inj c' c Hc' Hc) in Hne' by congruence. done.
Qed.

Lemma cpre_group c : c ∈ E → group_of c cpre = gu c ++ gf c ++ gp c.
Proof.
  intros Hc. unfold group_of, cpre. rewrite !filter_app.
  pose proof entries_ids_nodup as Hnd.
  rewrite (filter_shard_block E gu c Hnd owned_gu Hc), (filter_shard_block E gf c Hnd owned_gf Hc),
          (filter_shard_block E gp c Hnd owned_gp Hc). done.
Qed.

Lemma create_shape_create_req c n j r app : create_shape c j r app (create_req c n j r app).
Proof.
  unfold create_shape, create_req. cbn [q_type q_shard q_members q_ccid q_rids q_addrs q_join q_restore q_app is_create].
  split; [done|]. split; [done|]. split; [done|]. split; [done|]. split; [by rewrite !fmap_length|].
  split; [by rewrite zip_fst_snd|]. done.
Qed.

Lemma restore_group_canon c sd :
  c_defs C !! s_id c = Some sd → restore_group_ok P C c (sd_app sd) (canon_restore P C c) = true.
Proof.
  intros Hsd. unfold restore_group_ok, canon_restore. rewrite Hsd. apply bool_decide_eq_true_2. split.
  - rewrite <- list_fmap_compose. done.
  - apply Forall_fmap, Forall_forall. intros n _. apply create_shape_create_req.
Qed.

Lemma group_canon c :
  c ∈ E → restore_crash P C = false →
  is_rpanic (canon_repair P C c (idf (s_id c))) = false → is_rerr (canon_repair P C c (idf (s_id c))) = false →
  group_allowed P C c (group_of c cpre) = true.
Proof.
  intros Hc Hrc Hnp Hne. rewrite (cpre_group c Hc). unfold group_allowed.
  destruct (has_restore P C c) eqn:Hh.
  - destruct (c_defs C !! s_id c) as [sd|] eqn:Hsd.
    2:{ exfalso. unfold restore_crash in Hrc. apply not_true_iff_false in Hrc. apply Hrc.
        apply existsb_exists. exists c. split; [by apply elem_of_list_In|]. rewrite Hh. simpl. by apply bool_decide_eq_true. }
    rewrite (gp_has_restore c Hh), app_nil_r. unfold gu, gf.
    destruct (need_restore P C c); [rewrite app_nil_r|rewrite app_nil_l]; by apply restore_group_canon.
  - assert (canon_restore P C c = []) as Hnil.
    { unfold canon_restore. rewrite (has_restore_false P C c Hh). by destruct (c_defs C !! s_id c). }
    unfold gu, gf. rewrite Hnil. assert ((if need_restore P C c then [] else []) = @nil request) as -> by (by destruct (need_restore P C c)).
    rewrite !app_nil_l. unfold gp in *. unfold canon_repair in *. rewrite Hh in *.
    destruct (repair_action P C c) as [| |sd| |] eqn:Hact; [done| | | |done].
    + destruct (sr_failed P C c) as [|n l] eqn:Hf; [done|]. destruct (sr_ok P C c) as [|m l'] eqn:Ho; [done|].
      cbn [reqs_of]. unfold delete_req_ok. apply bool_decide_eq_true_2.
      cbn [is_delete q_type q_shard q_ccid q_members q_raft q_rids q_addrs q_inst q_join q_restore q_app].
      split; [done|]. split; [done|]. split; [done|]. split; [rewrite Hf; by apply Exists_cons_hd|]. split; [rewrite Ho; by apply Exists_cons_hd|]. done.
    + destruct (sr_wait P C c) as [|n l] eqn:Hw; [done|].
      cbn [reqs_of]. unfold join_req_ok. apply bool_decide_eq_true_2. split; [apply create_shape_create_req|].
      rewrite Hw. by apply Exists_cons_hd.
    + destruct (sr_failed P C c) as [|n l] eqn:Hf; [done|]. destruct (sr_ok P C c) as [|m l'] eqn:Ho; [done|].
      destruct (candidates P C n) as [|h hl] eqn:Hcand; [done|].
      cbn [reqs_of]. unfold add_req_ok. apply bool_decide_eq_true_2.
      cbn [is_add q_type q_shard q_ccid q_members q_raft q_rids q_addrs q_inst q_join q_restore q_app].
      split; [done|]. split; [done|]. split; [done|]. split; [done|]. split; [rewrite Ho; by apply Exists_cons_hd|].
      split; [|done]. rewrite Hf. apply Exists_cons_hd. rewrite Hcand. by apply Exists_cons_hd.
Qed.

Lemma cpre_allowed :
  restore_crash P C = false →
  (∀ c, c ∈ E → is_rpanic (canon_repair P C c (idf (s_id c))) = false ∧ is_rerr (canon_repair P C c (idf (s_id c))) = false) →
  pre_allowed P C (cpre ++ kills C) = true.
Proof.
  intros Hrc Hok. unfold pre_allowed.
  assert ((length (cpre ++ kills C) - length (kills C))%nat = length cpre) as -> by (rewrite app_length; lia).
  rewrite take_app, drop_app. rewrite !andb_true_iff. split; [split; [split; [split; [split|]|]|]|].
  - by apply bool_decide_eq_true.
  - apply forallb_forall. intros q Hq%elem_of_list_In. destruct (cpre_elem q Hq) as (_ & _ & _ & -> & _). done.
  - apply bool_decide_eq_true, Forall_forall. intros q Hq. destruct (cpre_elem q Hq) as (c & Hc & -> & _).
    apply elem_of_list_fmap. by exists c.
  - apply cpre_nondecr.
  - apply bool_decide_eq_true, cpre_contiguous.
  - apply forallb_forall. intros c Hc%elem_of_list_In. destruct (Hok c Hc). by apply group_canon.
Qed.

(* impossible branches of canon_repair: a panic is the undefined-shard panic *)
Lemma available_ok_nonempty c : sr_available P C c = true → sr_ok P C c ≠ [].
Proof.
  unfold sr_available. intros Ha%bool_decide_eq_true Hnil. unfold sr_quorum, n_ok in Ha. rewrite Hnil in Ha. simpl in Ha. lia.
Qed.

Lemma canon_repair_panic c id : is_rpanic (canon_repair P C c id) = true → crash_entry P C c = true.
Proof.
  unfold canon_repair, crash_entry. destruct (has_restore P C c); [done|].
  destruct (repair_action P C c) as [| |sd| |] eqn:Hact; [done| | | |done].
  - apply repair_action_delete in Hact as (_ & sd & _ & Hreq). unfold delete_required in Hreq.
    rewrite !andb_true_iff in Hreq. destruct Hreq as [[Ha Hf] _]. apply bool_decide_eq_true in Hf.
    apply available_ok_nonempty in Ha. unfold n_failed in Hf.
    destruct (sr_failed P C c); [simpl in Hf; lia|]. by destruct (sr_ok P C c).
  - apply repair_action_create in Hact as (_ & _ & _ & Hreq). unfold create_required in Hreq.
    apply bool_decide_eq_true in Hreq. unfold n_wait in Hreq. destruct (sr_wait P C c); [simpl in Hreq; lia|done].
  - apply repair_action_add in Hact as (_ & sd & _ & _ & _ & Hreq). unfold add_required in Hreq.
    rewrite !andb_true_iff in Hreq. destruct Hreq as [[Hf _] Ha]. apply bool_decide_eq_true in Hf.
    apply available_ok_nonempty in Ha. unfold n_failed in Hf.
    destruct (sr_failed P C c) as [|n l]; [simpl in Hf; lia|]. destruct (sr_ok P C c); [done|].
    by destruct (candidates P C n).
Qed.

Lemma canon_repair_err c id : is_rerr (canon_repair P C c id) = true → err_entry P C c = true.
Proof.
  unfold canon_repair, err_entry. destruct (has_restore P C c); [done|].
  destruct (repair_action P C c) as [| |sd| |] eqn:Hact; [done| | | |done].
  - destruct (sr_failed P C c); [done|]. by destruct (sr_ok P C c).
  - by destruct (sr_wait P C c).
  - destruct (sr_failed P C c) as [|n l]; [done|]. destruct (sr_ok P C c); [done|].
    destruct (candidates P C n) eqn:Hcand; [|done]. intros _. cbn [existsb]. rewrite Hcand. done.
Qed.

Lemma err_forced_canon c id :
  c ∈ E → err_forced P C c = true →
  is_rpanic (canon_repair P C c id) = true ∨ is_rerr (canon_repair P C c id) = true.
Proof.
  intros Hc. unfold err_forced, canon_repair.
  destruct (repair_action P C c) as [| |sd| |] eqn:Hact; try done.
  destruct (has_restore P C c) eqn:Hh.
  { exfalso. apply repair_action_add in Hact as (Hr & _).
    rewrite (has_restore_restored P C c Hc Hh) in Hr. done. }
  destruct (sr_failed P C c) as [|n l]; [by left|]. destruct (sr_ok P C c); [by left|].
  cbn [forallb]. intros [Hcand _]%andb_true_iff. apply bool_decide_eq_true in Hcand. rewrite Hcand. by right.
Qed.

(* validity of the canonical requests *)
Lemma create_req_invalid c n j r app insts :
  n ∈ mvals (s_reps c) → n ∈ insts →
  valid_req (create_req c n j r app) = false → create_may_invalid c app insts = true.
Proof.
  intros Hmem Hin Hinv. destruct (create_may_invalid c app insts) eqn:Hm; [done|]. exfalso.
  unfold create_may_invalid in Hm. rewrite !orb_false_iff in Hm. destruct Hm as [[Happ Hms] Hins].
  assert (∀ m, m ∈ members_of c → m.1 ≠ 0 ∧ m.2 ≠ 0) as Hms'.
  { intros m Hm. destruct ((m.1 =? 0) || (m.2 =? 0)) eqn:Hz; [|lia].
    exfalso. apply not_true_iff_false in Hms. apply Hms, existsb_exists. exists m. split; [by apply elem_of_list_In|done]. }
  assert (r_id n ≠ 0 ∧ r_addr n ≠ 0) as [Hid Haddr].
  { destruct ((r_id n =? 0) || (r_addr n =? 0)) eqn:Hz; [|lia].
    exfalso. apply not_true_iff_false in Hins. apply Hins, existsb_exists. exists n. split; [by apply elem_of_list_In|done]. }
  apply not_true_iff_false in Hinv. apply Hinv.
  unfold valid_req, create_req. cbn [is_add q_type q_rids q_addrs q_raft q_inst q_app q_members q_shard].
  rewrite !andb_true_iff. split; [split; [split; [split|]|]|].
  - apply bool_decide_eq_true. by rewrite !fmap_length.
  - apply forallb_forall. intros x Hx%elem_of_list_In%elem_of_list_fmap. destruct Hx as (m & -> & Hm).
    destruct (Hms' m Hm). lia.
  - apply forallb_forall. intros x Hx%elem_of_list_In%elem_of_list_fmap. destruct Hx as (m & -> & Hm).
    destruct (Hms' m Hm). lia.
  - lia.
  - split; [split; lia|]. apply negb_true_iff, bool_decide_eq_false. intros Hnil.
    apply fmap_nil_inv in Hnil. unfold members_of in Hnil. apply fmap_nil_inv in Hnil. rewrite Hnil in Hmem. by apply elem_of_nil in Hmem.
Qed.

Lemma restore_set_member c n : n ∈ restore_set P C c → n ∈ mvals (s_reps c).
Proof. intros Hn%restore_set_sub%elem_restorable. destruct Hn as [Hn%elem_sr_failed _]. tauto. Qed.

Lemma invalid_entry c q :
  c ∈ E → (q ∈ gu c ∨ q ∈ gf c ∨ q ∈ gp c) → valid_req q = false → entry_may_invalid P C c = true.
Proof.
  intros Hc Hq Hinv. unfold entry_may_invalid.
  assert (q ∈ canon_restore P C c → has_restore P C c = true ∧
          match c_defs C !! s_id c with Some sd => create_may_invalid c (sd_app sd) (restore_set P C c) | None => false end = true) as Hres.
  { intros Hin. split; [apply canon_restore_has; intros Hnil; rewrite Hnil in Hin; by apply elem_of_nil in Hin|].
    apply canon_restore_elem in Hin as (sd & n & -> & Hn & ->).
    apply (create_req_invalid c n false true); [by apply restore_set_member|done|done]. }
  destruct Hq as [Hq|[Hq|Hq]].
  - unfold gu in Hq. destruct (need_restore P C c); [|by apply elem_of_nil in Hq]. destruct (Hres Hq) as [-> ?]. done.
  - unfold gf in Hq. destruct (need_restore P C c); [by apply elem_of_nil in Hq|]. destruct (Hres Hq) as [-> ?]. done.
  - destruct (gp_cases c q Hq) as (-> & [(-> & n & l & m & l' & Hf & Ho & _ & ->)|[(sd & n & l & -> & Hw & _ & ->)|(-> & _)]]); [| |done].
    + rewrite Hf, Ho. cbn [existsb]. unfold valid_req in Hinv.
      cbn [is_add q_type q_rids q_addrs q_raft q_members q_shard forallb length] in Hinv.
      destruct (s_id c =? 0); [done|]. destruct (r_id n =? 0); [done|]. destruct (r_addr m =? 0); [by rewrite !orb_true_r|].
      simpl in Hinv. done.
    + apply (create_req_invalid c n true false); [|rewrite Hw; by left|done].
      assert (n ∈ sr_wait P C c) as Hn by (rewrite Hw; by left). apply elem_sr_wait in Hn. tauto.
Qed.

Theorem allowed_canon : allowed P C (canon P C idf) = true.
Proof.
  unfold canon. destruct (restore_crash P C) eqn:Hrc; [cbn [allowed]; by rewrite Hrc|].
  set (rs := (λ c, canon_repair P C c (idf (s_id c))) <$> E).
  destruct (existsb is_rpanic rs) eqn:Hp.
  { cbn [allowed]. apply existsb_exists in Hp as (r & Hr%elem_of_list_In & Hp).
    apply elem_of_list_fmap in Hr as (c & -> & Hc). apply canon_repair_panic in Hp.
    assert (existsb (crash_entry P C) E = true) as ->; [|by rewrite orb_true_r].
    apply existsb_exists. exists c. split; [by apply elem_of_list_In|done]. }
  destruct (existsb is_rerr rs) eqn:He.
  { cbn [allowed]. rewrite Hrc. simpl. apply existsb_exists in He as (r & Hr%elem_of_list_In & He).
    apply elem_of_list_fmap in Hr as (c & -> & Hc). apply canon_repair_err in He.
    apply existsb_exists. exists c. split; [by apply elem_of_list_In|done]. }
  assert (∀ c, c ∈ E → is_rpanic (canon_repair P C c (idf (s_id c))) = false ∧ is_rerr (canon_repair P C c (idf (s_id c))) = false) as Hok.
  { intros c Hc. split.
    - destruct (is_rpanic (canon_repair P C c (idf (s_id c)))) eqn:Hx; [|done]. exfalso.
      apply not_true_iff_false in Hp. apply Hp, existsb_exists. exists (canon_repair P C c (idf (s_id c))).
      split; [|done]. apply elem_of_list_In, elem_of_list_fmap. by exists c.
    - destruct (is_rerr (canon_repair P C c (idf (s_id c)))) eqn:Hx; [|done]. exfalso.
      apply not_true_iff_false in He. apply He, existsb_exists. exists (canon_repair P C c (idf (s_id c))).
      split; [|done]. apply elem_of_list_In, elem_of_list_fmap. by exists c. }
  assert (concat ((λ c, if need_restore P C c then canon_restore P C c else []) <$> E) ++
          concat ((λ c, if need_restore P C c then [] else canon_restore P C c) <$> E) ++
          concat (reqs_of <$> rs) ++ kills C = cpre ++ kills C) as ->.
  { unfold cpre, rs. rewrite <- list_fmap_compose. rewrite <- !app_assoc. done. }
  destruct (forallb valid_req (cpre ++ kills C)) eqn:Hv.
  { cbn [allowed]. rewrite Hv, andb_true_r. by apply cpre_allowed. }
  cbn [allowed]. rewrite Hrc. simpl.
  assert (existsb (err_forced P C) E = false) as ->.
  { destruct (existsb (err_forced P C) E) eqn:Hf; [|done]. exfalso.
    apply existsb_exists in Hf as (c & Hc%elem_of_list_In & Hf).
    destruct (Hok c Hc) as [H1 H2]. destruct (err_forced_canon c (idf (s_id c)) Hc Hf); congruence. }
  rewrite orb_true_iff. right. simpl. unfold may_invalid.
  assert (∃ q, q ∈ cpre ++ kills C ∧ valid_req q = false) as (q & Hq & Hinv).
  { destruct (forallb valid_req (cpre ++ kills C)) eqn:Hv'; [congruence|]. clear Hv.
    induction (cpre ++ kills C) as [|q l IH]; [done|]. cbn [forallb] in Hv'.
    destruct (valid_req q) eqn:Hq; [|exists q; split; [by left|done]].
    simpl in Hv'. destruct (IH Hv') as (q' & ? & ?). exists q'. split; [by right|done]. }
  apply elem_of_app in Hq as [Hq|Hq].
  - assert (existsb (entry_may_invalid P C) E = true) as ->; [|by rewrite orb_true_r].
    destruct (cpre_elem q Hq) as (c & Hc & _ & _ & Hcases).
    apply existsb_exists. exists c. split; [by apply elem_of_list_In|].
    apply (invalid_entry c q Hc); [|done]. destruct Hcases as [[? _]|[[? _]|[? _]]]; tauto.
  - assert (existsb (λ q, negb (valid_req q)) (kills C) = true) as ->; [|done].
    apply existsb_exists. exists q. split; [by apply elem_of_list_In|]. by rewrite Hinv.
Qed.
End Canon.
