(** Proofs about the Jepsen log model (C07): decimal printing reads back, the white space
    tokenizer on the lines the recorder emits, line splitting, and the round trip
    parse (format es) = expected es. *)
From Coq Require Import String Ascii ZArith Decimal DecimalN DecimalPos Permutation.
From Drummer.Model Require Import Base Register Jepsen.
From Coq Require Import ZifyN ZifyNat ZifyBool.
Open Scope N_scope.

(** * decimal strings *)

Lemma uint_bytes_digits : forall u, forallb is_digit (uint_bytes u) = true.
Proof. induction u as [|u IH|u IH|u IH|u IH|u IH|u IH|u IH|u IH|u IH|u IH]; cbn [uint_bytes forallb]; try reflexivity; rewrite IH; reflexivity. Qed.

Lemma bytes_uint_bytes : forall u, bytes_uint (uint_bytes u) = u.
Proof. induction u as [|u IH|u IH|u IH|u IH|u IH|u IH|u IH|u IH|u IH|u IH]; cbn [uint_bytes bytes_uint]; try reflexivity; rewrite IH; reflexivity. Qed.

Lemma uint_bytes_nil : forall u, uint_bytes u = [] -> u = Nil.
Proof. intros u H. destruct u; cbn [uint_bytes] in H; try discriminate; reflexivity. Qed.

Lemma to_uint_nonnil : forall n, N.to_uint n <> Nil.
Proof.
  intros [|p]; cbn [N.to_uint].
  - discriminate.
  - apply Unsigned.to_uint_nonnil.
Qed.

Lemma dec_nonempty : forall n, dec n <> [].
Proof. intros n H. apply uint_bytes_nil in H. exact (to_uint_nonnil n H). Qed.

Lemma dec_digits : forall n, forallb is_digit (dec n) = true.
Proof. intros n. apply uint_bytes_digits. Qed.

Lemma all_digits_dec : forall n, all_digits (dec n) = true.
Proof.
  intros n. unfold all_digits. pose proof (dec_nonempty n) as Hne. pose proof (dec_digits n) as Hd.
  destruct (dec n) as [|c l]; [contradiction|exact Hd].
Qed.

Lemma dec_value_dec : forall n, dec_value (dec n) = n.
Proof. intros n. unfold dec_value, dec. rewrite bytes_uint_bytes. apply DecimalN.Unsigned.of_to. Qed.

Lemma atoi_dec : forall n, n <= max_int -> atoi (dec n) = n.
Proof. intros n H. unfold atoi. rewrite dec_value_dec. apply N.min_l. exact H. Qed.

Lemma atoi_dec_sat : forall n, atoi (dec n) = N.min n max_int.
Proof. intros n. unfold atoi. rewrite dec_value_dec. reflexivity. Qed.

(** * character classes *)

Definition plainb (c : N) : bool := negb (c =? 10) && negb (c =? 13).
Definition nospace (l : list N) : Prop := forallb (fun c => negb (is_space c)) l = true.

Lemma digit_not_space : forall c, is_digit c = true -> is_space c = false.
Proof. intros c H. unfold is_digit in H. unfold is_space. lia. Qed.

Lemma digit_plain : forall c, is_digit c = true -> plainb c = true.
Proof. intros c H. unfold is_digit in H. unfold plainb. lia. Qed.

Lemma forallb_impl : forall (A : Type) (f g : A -> bool) (l : list A),
  (forall x, f x = true -> g x = true) -> forallb f l = true -> forallb g l = true.
Proof.
  intros A f g l Hfg. induction l as [|x l IH]; cbn [forallb]; [reflexivity|].
  intros H. apply andb_true_iff in H. destruct H as [H1 H2]. rewrite (Hfg _ H1), (IH H2). reflexivity.
Qed.

Lemma digits_nospace : forall l, forallb is_digit l = true -> nospace l.
Proof.
  intros l H. unfold nospace. apply (forallb_impl _ is_digit); [|exact H].
  intros c Hc. rewrite (digit_not_space c Hc). reflexivity.
Qed.

Lemma digits_plain : forall l, forallb is_digit l = true -> forallb plainb l = true.
Proof. intros l H. apply (forallb_impl _ is_digit); [exact digit_plain|exact H]. Qed.

Lemma dec_nospace : forall n, nospace (dec n).
Proof. intros n. apply digits_nospace, dec_digits. Qed.

Lemma nospace_cons : forall c l, nospace (c :: l) -> is_space c = false /\ nospace l.
Proof.
  unfold nospace. intros c l H. cbn [forallb] in H. apply andb_true_iff in H. destruct H as [H1 H2].
  split; [destruct (is_space c); [discriminate|reflexivity]|exact H2].
Qed.

(** * the tokenizer *)

Lemma fields_nospace : forall a, nospace a -> fields a = [a].
Proof.
  induction a as [|x a IH]; intros H; cbn [fields]; [reflexivity|].
  apply nospace_cons in H. destruct H as [Hx Ha]. rewrite Hx, (IH Ha). reflexivity.
Qed.

Lemma fields_app_space : forall a c b, nospace a -> is_space c = true ->
  fields (a ++ c :: b) = a :: fields b.
Proof.
  induction a as [|x a IH]; intros c b Ha Hc.
  - cbn [app fields]. rewrite Hc. reflexivity.
  - apply nospace_cons in Ha. destruct Ha as [Hx Ha].
    change ((x :: a) ++ c :: b) with (x :: (a ++ c :: b)). cbn [fields]. rewrite Hx, (IH c b Ha Hc). reflexivity.
Qed.

Lemma tokens_space : forall c b, is_space c = true -> tokens (c :: b) = tokens b.
Proof. intros c b Hc. unfold tokens. cbn [fields]. rewrite Hc. cbn [filter nonempty]. reflexivity. Qed.

Lemma tokens_blanks : forall k b, tokens (repeat 32 k ++ b) = tokens b.
Proof.
  induction k as [|k IH]; intros b; [reflexivity|].
  cbn [repeat app]. rewrite tokens_space by reflexivity. apply IH.
Qed.

Lemma tokens_word_space : forall a c b, nospace a -> a <> [] -> is_space c = true ->
  tokens (a ++ c :: b) = a :: tokens b.
Proof.
  intros a c b Ha Hne Hc. unfold tokens. rewrite (fields_app_space a c b Ha Hc).
  cbn [filter]. destruct a as [|x a]; [contradiction|]. reflexivity.
Qed.

Lemma tokens_word : forall a, nospace a -> a <> [] -> tokens a = [a].
Proof.
  intros a Ha Hne. unfold tokens. rewrite (fields_nospace a Ha). cbn [filter].
  destruct a as [|x a]; [contradiction|]. reflexivity.
Qed.

(** a word, any number of blanks, one more blank *)
Lemma tokens_word_blanks : forall a k b, nospace a -> a <> [] ->
  tokens (a ++ repeat 32 k ++ 32 :: b) = a :: tokens b.
Proof.
  intros a k b Ha Hne. destruct k as [|k].
  - cbn [repeat app]. apply tokens_word_space; [exact Ha|exact Hne|reflexivity].
  - cbn [repeat app]. rewrite tokens_word_space by (try assumption; reflexivity).
    rewrite tokens_blanks. rewrite tokens_space by reflexivity. reflexivity.
Qed.

(** a padded column that is wider than its word *)
Lemma tokens_padded : forall w a b, nospace a -> a <> [] -> (length a < w)%nat ->
  tokens (pad_right w a ++ b) = a :: tokens b.
Proof.
  intros w a b Ha Hne Hlt. unfold pad_right.
  assert (Hk : (w - length a = S (w - length a - 1))%nat) by lia.
  rewrite Hk. rewrite <- app_assoc.
  replace (repeat 32 (S (w - length a - 1)) ++ b) with (repeat 32 (w - length a - 1) ++ 32 :: b).
  - apply tokens_word_blanks; assumption.
  - change (32 :: b) with ([32] ++ b). rewrite app_assoc. f_equal.
    change [32] with (repeat 32 1). rewrite <- repeat_app. f_equal. lia.
Qed.

(** * one formatted line *)

Lemma tokens_prefix : forall rest,
  tokens (line_prefix ++ rest) = bs "INFO" :: bs "jepsen.util" :: bs "-" :: tokens rest.
Proof.
  intros rest.
  change (line_prefix ++ rest) with (bs "INFO" ++ 32 :: 32 :: (bs "jepsen.util" ++ 32 :: (bs "-" ++ 32 :: rest))).
  rewrite tokens_word_space; [|reflexivity|discriminate|reflexivity].
  rewrite tokens_space by reflexivity.
  rewrite tokens_word_space; [|reflexivity|discriminate|reflexivity].
  rewrite tokens_word_space; [|reflexivity|discriminate|reflexivity].
  reflexivity.
Qed.

Lemma res_kw_ok : forall e, nospace (res_kw e) /\ res_kw e <> [] /\ (length (res_kw e) < 8)%nat.
Proof.
  intros [t r i v]. unfold res_kw, nospace. cbn [e_type e_res].
  destruct t, r; (split; [reflexivity|split; [discriminate|cbv; lia]]).
Qed.

Lemma type_kw_ok : forall e, nospace (type_kw e) /\ type_kw e <> [] /\ (length (type_kw e) < 8)%nat.
Proof.
  intros [t r i v]. unfold type_kw, nospace. cbn [e_type].
  destruct t; (split; [reflexivity|split; [discriminate|cbv; lia]]).
Qed.

Lemma string_value_ok : forall v, nospace (string_value v) /\ string_value v <> [] /\ forallb plainb (string_value v) = true.
Proof.
  intros v. unfold string_value. destruct (v =? nilv).
  - split; [reflexivity|split; [discriminate|reflexivity]].
  - split; [apply dec_nospace|split; [apply dec_nonempty|apply digits_plain, dec_digits]].
Qed.

Lemma value_str_ok : forall e, nospace (value_str e) /\ value_str e <> [] /\ forallb plainb (value_str e) = true.
Proof.
  intros [t r i v]. unfold value_str. cbn [e_type e_res e_val].
  destruct t, r; try apply string_value_ok; (split; [reflexivity|split; [discriminate|reflexivity]]).
Qed.

Lemma tokens_format_line : forall w e,
  tokens (format_line_gen w true e) =
  [bs "INFO"; bs "jepsen.util"; bs "-"; dec (e_id e); res_kw e; type_kw e; value_str e].
Proof.
  intros w e. unfold format_line_gen. rewrite tokens_prefix.
  unfold pad_right at 1. rewrite <- app_assoc.
  change ([32] ++ ?x) with (32 :: x).
  rewrite tokens_word_blanks; [|apply dec_nospace|apply dec_nonempty].
  destruct (res_kw_ok e) as [R1 [R2 R3]]. destruct (type_kw_ok e) as [T1 [T2 T3]].
  destruct (value_str_ok e) as [V1 [V2 _]].
  rewrite tokens_padded by assumption.
  rewrite tokens_padded by assumption.
  rewrite tokens_word by assumption.
  reflexivity.
Qed.

Lemma starts_format_line : forall w sep e, starts_nonblank (format_line_gen w sep e) = true.
Proof. intros w sep e. reflexivity. Qed.

Lemma nospace_app : forall a b, nospace (a ++ b) -> nospace a /\ nospace b.
Proof. unfold nospace. intros a b H. rewrite forallb_app in H. apply andb_true_iff in H. exact H. Qed.

Lemma ends_nonblank_app : forall a v, v <> [] -> nospace v -> ends_nonblank (a ++ v) = true.
Proof.
  intros a v Hne Hv. destruct (exists_last Hne) as [v' [c Heq]]. subst v.
  apply nospace_app in Hv. destruct Hv as [_ Hc]. apply nospace_cons in Hc. destruct Hc as [Hc _].
  unfold ends_nonblank. rewrite app_assoc, rev_app_distr. cbn [rev app starts_nonblank]. rewrite Hc. reflexivity.
Qed.

Lemma ends_format_line : forall w sep e, ends_nonblank (format_line_gen w sep e) = true.
Proof.
  intros w sep e. unfold format_line_gen. rewrite !app_assoc.
  destruct (value_str_ok e) as [V1 [V2 _]]. apply ends_nonblank_app; assumption.
Qed.

Lemma parse_format_line_tokens : forall w e,
  parse_line (format_line_gen w true e) =
  match_tokens [bs "INFO"; bs "jepsen.util"; bs "-"; dec (e_id e); res_kw e; type_kw e; value_str e].
Proof.
  intros w e. unfold parse_line. rewrite starts_format_line, ends_format_line, tokens_format_line. reflexivity.
Qed.

(** digit strings are none of the keywords *)
Lemma digits_not_nil : forall l, all_digits l = true -> bytes_eqb l (bs "nil") = false.
Proof.
  intros l H. destruct l as [|c l]; [discriminate|].
  unfold all_digits in H. cbn [forallb] in H. apply andb_true_iff in H. destruct H as [Hc _].
  change (bs "nil") with [110; 105; 108]. unfold bytes_eqb. cbn [list_eqb].
  unfold is_digit in Hc. replace (c =? 110) with false by lia. reflexivity.
Qed.

Lemma printable_id : forall e, printable e = true -> e_id e <= max_int.
Proof. intros e H. unfold printable in H. apply andb_true_iff in H. destruct H as [H _]. lia. Qed.

Lemma max_int_lt_nilv : max_int < nilv.
Proof. reflexivity. Qed.

(** The line of a printable event is read back as that event, whatever the width of the id
    column, as long as a blank follows it. *)
Lemma parse_format_line : forall w e, printable e = true ->
  parse_line (format_line_gen w true e) = event_kind e.
Proof.
  intros w e Hp. rewrite parse_format_line_tokens.
  pose proof (printable_id e Hp) as Hid.
  destruct e as [t r i v]. unfold printable in Hp. cbn [e_type e_res e_id e_val] in *.
  unfold res_kw, type_kw, value_str, event_kind, match_tokens. cbn [e_type e_res e_id e_val].
  rewrite all_digits_dec, (atoi_dec i Hid).
  pose proof max_int_lt_nilv as Hmn.
  destruct t, r.
  - (* read invoked *) reflexivity.
  - (* read completed *)
    unfold string_value, ev_value.
    destruct (v =? nilv) eqn:Hn.
    + reflexivity.
    + assert (Hv : v <= max_int) by lia.
      rewrite (digits_not_nil (dec v) (all_digits_dec v)), all_digits_dec, (atoi_dec v Hv). reflexivity.
  - (* read failed *) reflexivity.
  - (* write invoked *)
    assert (Hv : v <= max_int) by lia.
    unfold string_value. replace (v =? nilv) with false by lia.
    rewrite all_digits_dec, (atoi_dec v Hv). reflexivity.
  - (* write completed *)
    assert (Hv : v <= max_int) by lia.
    unfold string_value. replace (v =? nilv) with false by lia.
    rewrite all_digits_dec. reflexivity.
  - (* write failed: ":info" matches no pattern *) reflexivity.
Qed.

(** * the file: lines *)

Lemma plain_cons : forall c l, forallb plainb (c :: l) = true -> (c =? 10) = false /\ (c =? 13) = false /\ forallb plainb l = true.
Proof.
  intros c l H. cbn [forallb] in H. apply andb_true_iff in H. destruct H as [H1 H2].
  unfold plainb in H1. split; [lia|split; [lia|exact H2]].
Qed.

Lemma split_raw_line : forall l rest, forallb plainb l = true ->
  split_raw (l ++ 10 :: rest) = (l ++ [10]) :: split_raw rest.
Proof.
  induction l as [|x l IH]; intros rest Hl.
  - reflexivity.
  - apply plain_cons in Hl. destruct Hl as [Hx [_ Hl]].
    change ((x :: l) ++ 10 :: rest) with (x :: (l ++ 10 :: rest)). cbn [split_raw].
    rewrite Hx, (IH rest Hl). reflexivity.
Qed.

Lemma chomp_line : forall l, forallb plainb l = true -> chomp (l ++ [10]) = l.
Proof.
  intros l Hl. unfold chomp. rewrite rev_app_distr. cbn [rev app].
  change (10 =? 10) with true. cbv iota.
  destruct (rev l) as [|c r] eqn:Hr.
  - apply (f_equal (@rev N)) in Hr. rewrite rev_involutive in Hr. subst l. reflexivity.
  - assert (Hc : (c =? 13) = false).
    { assert (Hin : In c l) by (apply in_rev; rewrite Hr; left; reflexivity).
      rewrite forallb_forall in Hl. specialize (Hl c Hin). unfold plainb in Hl. lia. }
    rewrite Hc, <- Hr. apply rev_involutive.
Qed.

Lemma format_line_plain : forall w sep e, forallb plainb (format_line_gen w sep e) = true.
Proof.
  intros w sep e. unfold format_line_gen, pad_right.
  destruct (res_kw_ok e) as [R1 _]. destruct (type_kw_ok e) as [T1 _]. destruct (value_str_ok e) as [_ [_ V3]].
  assert (Hrep : forall k, forallb plainb (repeat 32 k) = true).
  { induction k as [|k IH]; [reflexivity|]. cbn [repeat forallb]. rewrite IH. reflexivity. }
  assert (Hns : forall l, nospace l -> forallb plainb l = true).
  { intros l Hl. apply (forallb_impl _ (fun c => negb (is_space c))); [|exact Hl].
    intros c Hc. unfold is_space in Hc. unfold plainb. lia. }
  rewrite !forallb_app, !Hrep, (Hns _ R1), (Hns _ T1), V3, (digits_plain _ (dec_digits (e_id e))).
  destruct sep; reflexivity.
Qed.

Lemma read_lines_format : forall w sep es,
  read_lines (format_log_with (format_event_gen w sep) es) = map (format_line_gen w sep) es.
Proof.
  intros w sep es. unfold read_lines, format_log_with. induction es as [|e es IH]; [reflexivity|].
  cbn [flat_map map]. unfold format_event_gen at 1. rewrite <- app_assoc. cbn [app].
  rewrite (split_raw_line _ _ (format_line_plain w sep e)). cbn [map].
  rewrite (chomp_line _ (format_line_plain w sep e)), IH. reflexivity.
Qed.

(** * the loop: the parser's state machine run on the events' meanings = the expected history *)

Lemma fold_pstep_expected : forall es s,
  ps_rev (fold_left pstep (map event_kind es) s) =
    rev (fst (expected_from es (ps_next s) (ps_map s))) ++ ps_rev s /\
  ps_map (fold_left pstep (map event_kind es) s) = snd (expected_from es (ps_next s) (ps_map s)).
Proof.
  induction es as [|e es IH]; intros s.
  - cbn [map fold_left expected_from fst snd rev app]. split; reflexivity.
  - destruct e as [t r i v].
    cbn [map fold_left].
    destruct r, t; cbn [event_kind pstep expected_from e_type e_res e_id e_val].
    + (* invoke read *)
      specialize (IH (p_call s i Read)). cbn [p_call ps_next ps_map ps_rev] in IH.
      destruct (expected_from es (ps_next s + 1) (pm_set (ps_map s) i (ps_next s))) as [h m].
      cbn [fst snd] in *. destruct IH as [IH1 IH2]. split; [|exact IH2].
      rewrite IH1. cbn [rev]. rewrite <- app_assoc. reflexivity.
    + (* invoke write *)
      specialize (IH (p_call s i (Write (Z.of_N v)))). cbn [p_call ps_next ps_map ps_rev] in IH.
      destruct (expected_from es (ps_next s + 1) (pm_set (ps_map s) i (ps_next s))) as [h m].
      cbn [fst snd] in *. destruct IH as [IH1 IH2]. split; [|exact IH2].
      rewrite IH1. cbn [rev]. rewrite <- app_assoc. reflexivity.
    + (* completed read *)
      specialize (IH (p_ret s i (out_read (ev_value v)))). cbn [p_ret ps_next ps_map ps_rev] in IH.
      destruct (expected_from es (ps_next s) (pm_del (ps_map s) i)) as [h m].
      cbn [fst snd] in *. destruct IH as [IH1 IH2]. split; [|exact IH2].
      rewrite IH1. cbn [rev]. rewrite <- app_assoc. reflexivity.
    + (* completed write *)
      specialize (IH (p_ret s i out_plain)). cbn [p_ret ps_next ps_map ps_rev] in IH.
      destruct (expected_from es (ps_next s) (pm_del (ps_map s) i)) as [h m].
      cbn [fst snd] in *. destruct IH as [IH1 IH2]. split; [|exact IH2].
      rewrite IH1. cbn [rev]. rewrite <- app_assoc. reflexivity.
    + (* failed read *)
      specialize (IH (p_ret s i out_unknown)). cbn [p_ret ps_next ps_map ps_rev] in IH.
      destruct (expected_from es (ps_next s) (pm_del (ps_map s) i)) as [h m].
      cbn [fst snd] in *. destruct IH as [IH1 IH2]. split; [|exact IH2].
      rewrite IH1. cbn [rev]. rewrite <- app_assoc. reflexivity.
    + (* failed write *)
      exact (IH s).
Qed.

Lemma map_parse_format : forall w es, Forall (fun e => printable e = true) es ->
  map parse_line (map (format_line_gen w true) es) = map event_kind es.
Proof.
  intros w es H. induction H as [|e es He _ IH]; [reflexivity|].
  cbn [map]. rewrite (parse_format_line w e He), IH. reflexivity.
Qed.

(** the round trip, for any id column width followed by a blank *)
Lemma roundtrip_gen : forall w es, Forall (fun e => printable e = true) es ->
  parse_main (format_log_with (format_event_gen w true) es) = expected_main es /\
  parse_open (format_log_with (format_event_gen w true) es) = expected_open es.
Proof.
  intros w es H. unfold parse_main, parse_open, parse_state.
  rewrite read_lines_format, (map_parse_format w es H).
  destruct (fold_pstep_expected es ps_init) as [H1 H2]. cbn [ps_init ps_next ps_map ps_rev] in H1, H2.
  unfold expected_main, expected_open. rewrite H1, H2, app_nil_r, rev_involutive. split; reflexivity.
Qed.

Lemma roundtrip_main : forall es, Forall (fun e => printable e = true) es ->
  parse_main (format_log es) = expected_main es.
Proof. intros es H. exact (proj1 (roundtrip_gen 3 es H)). Qed.

Lemma roundtrip_open : forall es, Forall (fun e => printable e = true) es ->
  parse_open (format_log es) = expected_open es.
Proof. intros es H. exact (proj2 (roundtrip_gen 3 es H)). Qed.

Lemma roundtrip_log : forall es, Forall (fun e => printable e = true) es ->
  parse_log (format_log es) = expected_log es.
Proof. intros es H. unfold parse_log, expected_log. rewrite (roundtrip_main es H), (roundtrip_open es H). reflexivity. Qed.

Lemma roundtrip_allowed : forall es, Forall (fun e => printable e = true) es ->
  forall h, parse_allowed (format_log es) h <-> history_allowed es h.
Proof.
  intros es H h. unfold parse_allowed, history_allowed.
  rewrite (roundtrip_main es H), (roundtrip_open es H). reflexivity.
Qed.

(** the round trip, both forms: the canonical result (open operations closed in ascending order of
    their ids) and the set of results parseJepsenLog may return (Go map iteration order) *)
Theorem roundtrip : forall es, Forall (fun e => printable e = true) es ->
  parse_log (format_log es) = expected_log es /\
  (forall h, parse_allowed (format_log es) h <-> history_allowed es h).
Proof. intros es H. split; [exact (roundtrip_log es H)|exact (roundtrip_allowed es H)]. Qed.
