(** FleetProofs: the closed loop (Fleet.v) - the inductive invariant [LoopInv] of ALL executions
    (fault events included) and its consequences for C01 / C02 / C11.

    Part 1: the membership history ([hist_wf]: consecutive versions, every step one ADD of a
            never-used id or one DELETE of a member; sizes within [n, n+1]; addresses injective).
    Part 2: the invariant and its preservation, event by event.
    Part 3: executions, corollaries. *)
From stdpp Require Import gmap list numbers sorting.
From Coq Require Import ZifyN ZifyNat ZifyBool Lia.
From Drummer.Model Require Import DB Sched Fleet FleetRun.
From Drummer.Proofs Require Import DBProofs DBViewProofs DBTimeProofs.
Local Open Scope N_scope.
Notation hist_of := Fleet.hist_of.   (* DBViewProofs has another [hist_of] *)

(** * Part 1: the membership history *)

Definition mem_ok (n : nat) (M : gmap N N) : Prop :=
  (n ≤ size M ∧ size M ≤ n + 1)%nat ∧ (∀ r1 r2 a, M !! r1 = Some a → M !! r2 = Some a → r1 = r2).

Inductive hist_wf (n : nat) : list hentry → Prop :=
| hw_init v M : mem_ok n M → hist_wf n [(v, M)]
| hw_add v M x t rest :
    hist_wf n ((v, M) :: rest) → used_in ((v, M) :: rest) x = false → mem_ok n (<[x := t]> M) →
    hist_wf n ((v + 1, <[x := t]> M) :: (v, M) :: rest)
| hw_del v M y rest :
    hist_wf n ((v, M) :: rest) → is_member M y = true → mem_ok n (delete y M) →
    hist_wf n ((v + 1, delete y M) :: (v, M) :: rest).

Lemma is_member_true M r : is_member M r = true ↔ is_Some (M !! r).
Proof. unfold is_member. destruct (M !! r); split; intros H; try done; try by eexists. by destruct H. Qed.
Lemma is_member_false M r : is_member M r = false ↔ M !! r = None.
Proof. unfold is_member. destruct (M !! r); split; intros H; done. Qed.

Lemma used_in_true h r : used_in h r = true ↔ ∃ e, e ∈ h ∧ is_member e.2 r = true.
Proof.
  unfold used_in. rewrite existsb_exists. split; intros (e & He & Hm); exists e; split; auto.
  - by apply elem_of_list_In.
  - by apply elem_of_list_In.
Qed.
Lemma used_in_false h r : used_in h r = false ↔ ∀ e, e ∈ h → is_member e.2 r = false.
Proof.
  split.
  - intros Hu e He. destruct (is_member e.2 r) eqn:E; [|done].
    assert (used_in h r = true) by (apply used_in_true; eauto). congruence.
  - intros Hall. destruct (used_in h r) eqn:E; [|done]. apply used_in_true in E as (e & He & Hm).
    rewrite (Hall e He) in Hm. done.
Qed.

Lemma entry_at_Some h v M : entry_at h v = Some M → (v, M) ∈ h.
Proof.
  induction h as [|[w M'] h IH]; cbn; [done|].
  destruct (w =? v) eqn:E.
  - intros [= <-]. apply N.eqb_eq in E as ->. left.
  - intros H. right. by apply IH.
Qed.

(* versions strictly decrease along the list *)
Lemma hist_wf_nonempty n h : hist_wf n h → h ≠ [].
Proof. by destruct 1. Qed.

Lemma hist_wf_tail_lt n h : hist_wf n h → ∀ e e', h = e :: e' :: drop 2 h → True.
Proof. done. Qed.

Lemma hist_wf_versions n h : hist_wf n h → ∀ e, e ∈ tail h → e.1 < cur_version h.
Proof.
  induction 1 as [v M Hm|v M x t rest Hw IH Hu Hm|v M y rest Hw IH Hy Hm]; cbn [tail cur_version fst].
  - intros e He. by apply elem_of_nil in He.
  - intros e He. apply elem_of_cons in He as [->|He]; [cbn; lia|].
    specialize (IH e He). cbn in IH. lia.
  - intros e He. apply elem_of_cons in He as [->|He]; [cbn; lia|].
    specialize (IH e He). cbn in IH. lia.
Qed.

Lemma hist_wf_le n h : hist_wf n h → ∀ e, e ∈ h → e.1 ≤ cur_version h.
Proof.
  intros Hw e He. destruct h as [|e0 h]; [by apply elem_of_nil in He|].
  apply elem_of_cons in He as [->|He]; [cbn; lia|].
  pose proof (hist_wf_versions n _ Hw e He). lia.
Qed.

Lemma hist_wf_inv n e h : hist_wf n (e :: h) → h = [] ∨ hist_wf n h.
Proof. inversion 1; subst; auto. Qed.

Lemma hist_wf_entry_at n h : hist_wf n h → ∀ v M, (v, M) ∈ h → entry_at h v = Some M.
Proof.
  induction h as [|[w M'] h IH]; intros Hw v M Hin; [by apply elem_of_nil in Hin|].
  cbn [entry_at fst snd]. apply elem_of_cons in Hin as [[= -> ->]|Hin].
  - by rewrite N.eqb_refl.
  - pose proof (hist_wf_versions n _ Hw (v, M) Hin) as Hlt. cbn in Hlt.
    destruct (w =? v) eqn:E; [apply N.eqb_eq in E; lia|].
    destruct (hist_wf_inv _ _ _ Hw) as [->|Hw']; [by apply elem_of_nil in Hin|]. by apply IH.
Qed.

Lemma hist_wf_mem_ok n h : hist_wf n h → ∀ e, e ∈ h → mem_ok n e.2.
Proof.
  induction 1 as [v M Hm|v M x t rest Hw IH Hu Hm|v M y rest Hw IH Hy Hm]; intros e He.
  - apply elem_of_list_singleton in He as ->. done.
  - apply elem_of_cons in He as [->|He]; [done|]. by apply IH.
  - apply elem_of_cons in He as [->|He]; [done|]. by apply IH.
Qed.

(* a replica id keeps its address *)
Lemma hist_wf_addr n h : hist_wf n h →
  ∀ e e' r a a', e ∈ h → e' ∈ h → e.2 !! r = Some a → e'.2 !! r = Some a' → a = a'.
Proof.
  induction 1 as [v M Hm|v M x t rest Hw IH Hu Hm|v M y rest Hw IH Hy Hm]; intros e e' r a a' He He' Ha Ha'.
  - apply elem_of_list_singleton in He as ->. apply elem_of_list_singleton in He' as ->. cbn in *. congruence.
  - assert (Hnew : ∀ e1 b, e1 ∈ (v, M) :: rest → e1.2 !! r = Some b → (<[x := t]> M) !! r = Some b → True) by done.
    assert (Hx : ∀ e1 b, e1 ∈ (v, M) :: rest → e1.2 !! r = Some b → r ≠ x).
    { intros e1 b He1 Hb ->. apply used_in_false with (e := e1) in Hu; [|done].
      apply is_member_false in Hu. congruence. }
    apply elem_of_cons in He as [->|He]; apply elem_of_cons in He' as [->|He']; cbn [snd] in *.
    + congruence.
    + pose proof (Hx _ _ He' Ha') as Hne. rewrite lookup_insert_ne in Ha by done.
      eapply (IH (v, M) e'); [left|done|exact Ha|exact Ha'].
    + pose proof (Hx _ _ He Ha) as Hne. rewrite lookup_insert_ne in Ha' by done.
      eapply (IH e (v, M)); [done|left|exact Ha|exact Ha'].
    + exact (IH e e' r a a' He He' Ha Ha').
  - apply elem_of_cons in He as [->|He]; apply elem_of_cons in He' as [->|He']; cbn [snd] in *.
    + congruence.
    + apply lookup_delete_Some in Ha as [_ Ha]. eapply (IH (v, M) e'); [left|done|exact Ha|exact Ha'].
    + apply lookup_delete_Some in Ha' as [_ Ha']. eapply (IH e (v, M)); [done|left|exact Ha|exact Ha'].
    + exact (IH e e' r a a' He He' Ha Ha').
Qed.

(* a removed id never returns: a member at e1, not a member at the later e2 => not a member at any e3 after e2 *)
Lemma hist_wf_no_return n h : hist_wf n h →
  ∀ e1 e2 e3 r, e1 ∈ h → e2 ∈ h → e3 ∈ h → e1.1 ≤ e2.1 → e2.1 ≤ e3.1 →
    is_member e1.2 r = true → is_member e2.2 r = false → is_member e3.2 r = false.
Proof.
  induction 1 as [v M Hm|v M x t rest Hw IH Hu Hm|v M y rest Hw IH Hy Hm]; intros e1 e2 e3 r H1 H2 H3 L12 L23 M1 M2.
  - apply elem_of_list_singleton in H1 as ->. apply elem_of_list_singleton in H2 as ->. congruence.
  - pose proof (hist_wf_le n _ Hw) as Hle. cbn [cur_version fst] in Hle.
    apply elem_of_cons in H3 as [->|H3].
    + (* e3 is the new entry: members = old head + x *)
      apply elem_of_cons in H2 as [->|H2]; [done|].
      apply elem_of_cons in H1 as [->|H1]; [specialize (Hle _ H2); cbn in L12; lia|].
      assert (Hold : is_member M r = false).
      { apply (IH e1 e2 (v, M) r H1 H2); [left|exact L12|cbn; by apply Hle|exact M1|exact M2]. }
      cbn [snd]. apply is_member_false. apply is_member_false in Hold.
      assert (r ≠ x).
      { intros ->. apply used_in_false with (e := e1) in Hu; [|done]. congruence. }
      by rewrite lookup_insert_ne.
    + apply elem_of_cons in H2 as [->|H2]; [specialize (Hle _ H3); cbn in L23; lia|].
      apply elem_of_cons in H1 as [->|H1]; [specialize (Hle _ H2); cbn in L12; lia|].
      exact (IH e1 e2 e3 r H1 H2 H3 L12 L23 M1 M2).
  - pose proof (hist_wf_le n _ Hw) as Hle. cbn [cur_version fst] in Hle.
    apply elem_of_cons in H3 as [->|H3].
    + apply elem_of_cons in H2 as [->|H2]; [done|].
      apply elem_of_cons in H1 as [->|H1]; [specialize (Hle _ H2); cbn in L12; lia|].
      assert (Hold : is_member M r = false).
      { apply (IH e1 e2 (v, M) r H1 H2); [left|exact L12|cbn; by apply Hle|exact M1|exact M2]. }
      cbn [snd]. apply is_member_false. apply is_member_false in Hold.
      apply lookup_delete_None. by right.
    + apply elem_of_cons in H2 as [->|H2]; [specialize (Hle _ H3); cbn in L23; lia|].
      apply elem_of_cons in H1 as [->|H1]; [specialize (Hle _ H2); cbn in L12; lia|].
      exact (IH e1 e2 e3 r H1 H2 H3 L12 L23 M1 M2).
Qed.

(* extension by one step keeps the old entries readable *)
Lemma entry_at_cons_old n h e v M : hist_wf n (e :: h) → entry_at h v = Some M → entry_at (e :: h) v = Some M.
Proof.
  intros Hw Hv. apply entry_at_Some in Hv as Hin. apply (hist_wf_entry_at n _ Hw). by right.
Qed.

Lemma cur_in h : h ≠ [] → (cur_version h, cur_members h) ∈ h.
Proof. destruct h as [|[v M] h]; [done|]. intros _. left. Qed.

(** the history as the function of DBViewProofs *)
Definition Hf (hist : gmap N (list hentry)) : history := λ s v, entry_at (hist_of hist s) v.

Definition hists_wf (size_of : N → nat) (hist : gmap N (list hentry)) : Prop :=
  ∀ s h, hist !! s = Some h → hist_wf (size_of s) h.

Lemma Hf_hist_ok size_of hist : hists_wf size_of hist → hist_ok (Hf hist).
Proof.
  intros Hw. split.
  - intros s v m r1 r2 a Hv H1 H2. unfold Hf, hist_of in Hv.
    destruct (hist !! s) as [h|] eqn:E; [|done]. cbn in Hv.
    apply entry_at_Some in Hv. destruct (hist_wf_mem_ok _ _ (Hw _ _ E) _ Hv) as [_ Hinj]. eauto.
  - intros s v v' m m' r a a' Hv Hv' H1 H2. unfold Hf, hist_of in Hv, Hv'.
    destruct (hist !! s) as [h|] eqn:E; [|done]. cbn in Hv, Hv'.
    apply entry_at_Some in Hv, Hv'. eapply (hist_wf_addr _ _ (Hw _ _ E) (v, m) (v', m')); eauto.
Qed.

(** * Part 2: the invariant *)

(* replica [rid] was a member at some version not newer than [vc] (the version of Drummer's view) *)
Definition born (h : list hentry) (vc rid : N) : Prop :=
  ∃ a M, entry_at h a = Some M ∧ is_member M rid = true ∧ a ≤ vc.

Definition rep_ok (d : db) (hist : gmap N (list hentry)) (k : N * N) (lr : lrep) : Prop :=
  ∃ h c, hist !! k.1 = Some h ∧ d_view d !! k.1 = Some c ∧
         (lr_ver lr = 0 ∨ is_Some (entry_at h (lr_ver lr))) ∧ born h (s_cci c) k.2.

Definition info_ok (d : db) (hist : gmap N (list hentry)) (ci : shard_info) : Prop :=
  DBViewProofs.entry_ok (Hf hist) ci ∧
  ∃ h c, hist !! si_shard ci = Some h ∧ d_view d !! si_shard ci = Some c ∧ born h (s_cci c) (si_replica ci).

(* the id was used and is not a current member (stable: a used id is never added again) *)
Definition dead_id (hist : gmap N (list hentry)) (s y : N) : Prop :=
  ∀ h, hist !! s = Some h → used_in h y = true ∧ is_member (cur_members h) y = false.

Definition req_ok (d : db) (hist : gmap N (list hentry)) (seen : gset N) (q : request) : Prop :=
  valid_req q = true ∧
  match q_type q with
  | RCreate =>
    q_join q = negb (q_restore q) ∧
    (q_join q = true → ∃ h c, hist !! q_shard q = Some h ∧ d_view d !! q_shard q = Some c ∧ born h (s_cci c) (q_inst q))
  | RAdd =>
    ∃ x t, q_members q = [x] ∧ q_addrs q = [t] ∧ x ∈ seen ∧
      ∀ h, hist !! q_shard q = Some h →
        (∃ M, entry_at h (q_ccid q) = Some M ∧ (size M ≤ shard_size d (q_shard q))%nat ∧ ∀ r, M !! r ≠ Some t) ∧
        (used_in h x = true → q_ccid q < cur_version h)
  | RDelete =>
    ∃ y, q_members q = [y] ∧
      ∀ h, hist !! q_shard q = Some h → ∃ M, entry_at h (q_ccid q) = Some M ∧ (shard_size d (q_shard q) < size M)%nat
  | RKill => ∃ y, q_members q = [y] ∧ dead_id hist (q_shard q) y
  end.

(* where requests live: the two replicated mailboxes, the host queues, and (during an execution) the
   part of the queue not yet executed *)
Definition in_box (d : db) (hosts : gmap N fhost) (extra : list request) (q : request) : Prop :=
  (∃ a qs, d_requests d !! a = Some qs ∧ q ∈ qs) ∨ (∃ a qs, d_outgoing d !! a = Some qs ∧ q ∈ qs) ∨
  (∃ a fh, hosts !! a = Some fh ∧ q ∈ fh_queue fh) ∨ q ∈ extra.

Definition hosts_synced (d : db) : Prop :=
  ∀ a h, d_hosts d !! a = Some h →
    h_addr h = a ∧ ∀ s c, d_view d !! s = Some c → a ∈ addrs_of (s_reps c) → s ∈ h_shards h.

Record LI (d : db) (hosts : gmap N fhost) (hist : gmap N (list hentry)) (seen : gset N) (extra : list request) : Prop := mkLI {
  li_failed : d_failed d = false;
  li_deadline : d_deadline d = 0;
  li_hist : hists_wf (shard_size d) hist;
  li_cover : ∀ s, is_Some (hist !! s) → is_Some (d_view d !! s);
  li_view : view_inv (Hf hist) (d_view d);
  li_synced : hosts_synced d;
  li_reps : ∀ a fh k lr, hosts !! a = Some fh → fh_reps fh !! k = Some lr → rep_ok d hist k lr;
  li_out : ∀ a fh r, hosts !! a = Some fh → fh_out fh = Some r → Forall (info_ok d hist) (rp_infos r);
  li_reqs : ∀ q, in_box d hosts extra q → req_ok d hist seen q;
  li_adds : ∀ q q', in_box d hosts extra q → in_box d hosts extra q' → is_add q = true → is_add q' = true →
              q_shard q = q_shard q' → q_members q = q_members q' → q_ccid q = q_ccid q';
  li_kill : ∀ k, k ∈ d_kill d → dead_id hist (k_shard k) (k_replica k);
  li_seen : ∀ s h rid, hist !! s = Some h → used_in h rid = true → rid ∈ seen }.

Definition LoopInv (st : fstate) : Prop := LI (f_db st) (f_hosts st) (f_hist st) (f_seen st) [].

(** the [fresh_id] hypothesis on the random source: the replica ids of the ADD requests of a round are
    pairwise distinct and were never seen before (non-zero is enforced by validateNodeHostRequest) *)
Definition fresh_ok (st : fstate) (ev : event) : Prop :=
  match ev with
  | ESchedule (OBatch b) => NoDup (add_ids b) ∧ ∀ x, x ∈ add_ids b → x ∉ f_seen st
  | _ => True
  end.

(** ** frame lemmas *)
Lemma LI_db_frame d d' hosts hist seen extra :
  d_failed d' = d_failed d → d_deadline d' = d_deadline d → d_shards d' = d_shards d → d_view d' = d_view d →
  d_hosts d' = d_hosts d → d_kill d' = d_kill d → d_requests d' = d_requests d → d_outgoing d' = d_outgoing d →
  LI d hosts hist seen extra → LI d' hosts hist seen extra.
Proof.
  intros E1 E2 E3 E4 E5 E6 E7 E8 [].
  assert (Hsz : shard_size d' = shard_size d) by (unfold shard_size; by rewrite E3).
  assert (Hbox : ∀ q, in_box d' hosts extra q ↔ in_box d hosts extra q) by (intros q; unfold in_box; by rewrite E7, E8).
  assert (Hreq : ∀ q, req_ok d' hist seen q ↔ req_ok d hist seen q) by (intros q; unfold req_ok; by rewrite E4, Hsz).
  split.
  - congruence.
  - congruence.
  - by rewrite Hsz.
  - by rewrite E4.
  - by rewrite E4.
  - unfold hosts_synced. by rewrite E5, E4.
  - intros a fh k lr Ha Hk. unfold rep_ok. rewrite E4. exact (li_reps0 a fh k lr Ha Hk).
  - intros a fh r Ha Hr. eapply Forall_impl; [exact (li_out0 a fh r Ha Hr)|]. intros ci Hci. unfold info_ok. rewrite E4. exact Hci.
  - intros q Hq. apply Hreq, li_reqs0, Hbox, Hq.
  - intros q q' Hq Hq'. apply li_adds0; by apply Hbox.
  - by rewrite E6.
  - done.
Qed.

(* the hosts change, but every replica / report in flight / queued request of the new hosts is justified *)
Lemma LI_hosts_frame d hosts hosts' hist seen extra extra' :
  (∀ a fh k lr, hosts' !! a = Some fh → fh_reps fh !! k = Some lr → rep_ok d hist k lr) →
  (∀ a fh r, hosts' !! a = Some fh → fh_out fh = Some r → Forall (info_ok d hist) (rp_infos r)) →
  (∀ q, in_box d hosts' extra' q → in_box d hosts extra q) →
  LI d hosts hist seen extra → LI d hosts' hist seen extra'.
Proof.
  intros Hreps Hout Hbox []. split; try done.
  - intros q Hq. apply li_reqs0, Hbox, Hq.
  - intros q q' Hq Hq'. apply li_adds0; by apply Hbox.
Qed.

(* one host is replaced *)
Lemma in_box_insert_host d hosts a fh fh' extra q :
  hosts !! a = Some fh → (∀ q, q ∈ fh_queue fh' → q ∈ fh_queue fh) →
  in_box d (<[a := fh']> hosts) extra q → in_box d hosts extra q.
Proof.
  intros Ha Hq [H|[H|[(a0 & fh0 & H0 & Hin)|H]]]; [by left|by right; left| |by right; right; right].
  right; right; left. destruct (decide (a0 = a)) as [->|Hne].
  - rewrite lookup_insert in H0. injection H0 as <-. exists a, fh. split; [done|]. by apply Hq.
  - rewrite lookup_insert_ne in H0 by done. eauto.
Qed.

Lemma LI_set_host d hosts hist seen a fh fh' :
  hosts !! a = Some fh →
  (∀ k lr, fh_reps fh' !! k = Some lr → rep_ok d hist k lr) →
  (∀ r, fh_out fh' = Some r → Forall (info_ok d hist) (rp_infos r)) →
  (∀ q, q ∈ fh_queue fh' → q ∈ fh_queue fh) →
  LI d hosts hist seen [] → LI d (<[a := fh']> hosts) hist seen [].
Proof.
  intros Ha Hreps Hout Hq HI. eapply LI_hosts_frame; [| | |exact HI].
  - intros a0 fh0 k lr H0 Hk. destruct (decide (a0 = a)) as [->|Hne].
    + rewrite lookup_insert in H0. injection H0 as <-. eauto.
    + rewrite lookup_insert_ne in H0 by done. eapply li_reps; eauto.
  - intros a0 fh0 r H0 Hr. destruct (decide (a0 = a)) as [->|Hne].
    + rewrite lookup_insert in H0. injection H0 as <-. eauto.
    + rewrite lookup_insert_ne in H0 by done. eapply li_out; eauto.
  - intros q. by apply in_box_insert_host with (fh := fh).
Qed.

(** ** the report a host builds is justified *)
Lemma rep_info_ok d hist vers k lr : rep_ok d hist k lr → info_ok d hist (rep_info vers hist k lr).
Proof.
  intros (h & c & Hh & Hc & Hver & Hb). unfold rep_info.
  destruct (lr_ver lr =? 0) eqn:E0.
  { split; [intros Hcomp; done|]. cbn. eauto 6. }
  destruct (match vers !! k.1 with Some dv => lr_ver lr <=? dv | None => false end) eqn:Einc.
  { split; [intros Hcomp; done|]. cbn. eauto 6. }
  split; [|cbn; eauto 6].
  intros _. cbn. unfold Hf, hist_of. rewrite Hh. cbn.
  destruct Hver as [Hz|[M HM]]; [apply N.eqb_neq in E0; done|]. by rewrite HM.
Qed.

Lemma sorted_reps_elem reps kv : kv ∈ sorted_reps reps → reps !! kv.1 = Some kv.2.
Proof.
  unfold sorted_reps. rewrite merge_sort_Permutation. destruct kv as [k lr]. by rewrite elem_of_map_to_list.
Qed.

Lemma host_report_ok d hosts hist seen extra a fh plog :
  LI d hosts hist seen extra → hosts !! a = Some fh →
  Forall (info_ok d hist) (rp_infos (host_report d hist a fh plog)).
Proof.
  intros HI Ha. unfold host_report. cbn [rp_infos]. apply Forall_fmap, Forall_forall.
  intros kv Hkv. apply elem_of_list_filter in Hkv as [_ Hkv]. apply sorted_reps_elem in Hkv.
  cbn. apply rep_info_ok. eapply li_reps; eauto.
Qed.

(** ** the DB side of a report *)
Lemma report_result_all d r view' kill' :
  d_deadline d = 0 →
  let d' := report_result d r view' kill' in
  d_failed d' = d_failed d ∧ d_deadline d' = 0 ∧ d_shards d' = d_shards d ∧ d_view d' = view' ∧ d_kill d' = kill' ∧
  d_hosts d' = sync_shard_info (host_update (d_hosts d) r (d_tick d)) view' ∧
  (∀ a qs, d_requests d' !! a = Some qs → d_requests d !! a = Some qs) ∧
  (∀ a qs, d_outgoing d' !! a = Some qs → d_outgoing d !! a = Some qs ∨ d_requests d !! a = Some qs).
Proof.
  intros Hd. unfold report_result, on_updated_shard_info, pickup. cbn.
  destruct (d_requests d !! rp_addr r) as [qs0|] eqn:E; cbn; rewrite Hd; cbn.
  - repeat split; try done.
    + intros a qs Hl. apply lookup_delete_Some in Hl as [_ Hl]. done.
    + intros a qs Hl. destruct (decide (a = rp_addr r)) as [->|Hne].
      * rewrite lookup_insert in Hl. injection Hl as <-. by right.
      * rewrite lookup_insert_ne in Hl by done. apply lookup_delete_Some in Hl as [_ Hl]. by left.
  - repeat split; try done.
    intros a qs Hl. apply lookup_delete_Some in Hl as [_ Hl]. by left.
Qed.

Lemma sync_host_update_synced hosts r tick view' :
  (∀ a h, hosts !! a = Some h → h_addr h = a) →
  ∀ a h, sync_shard_info (host_update hosts r tick) view' !! a = Some h →
    h_addr h = a ∧ ∀ s c, view' !! s = Some c → a ∈ addrs_of (s_reps c) → s ∈ h_shards h.
Proof.
  intros Hkey a h Hl. unfold sync_shard_info in Hl. rewrite lookup_fmap in Hl.
  destruct (host_update hosts r tick !! a) as [h1|] eqn:E1; [|done]. cbn in Hl. injection Hl as <-. cbn [h_addr h_shards].
  assert (Ha : h_addr h1 = a).
  { unfold host_update in E1. destruct (hosts !! rp_addr r) as [h0|] eqn:E0.
    - destruct (decide (a = rp_addr r)) as [->|Hne].
      + rewrite lookup_insert in E1. injection E1 as <-. cbn. by apply Hkey.
      + rewrite lookup_insert_ne in E1 by done. by apply Hkey.
    - destruct (decide (a = rp_addr r)) as [->|Hne].
      + rewrite lookup_insert in E1. by injection E1 as <-.
      + rewrite lookup_insert_ne in E1 by done. by apply Hkey. }
  split; [done|]. intros s c Hs Hin. apply elem_of_union_r. unfold shards_on. rewrite Ha.
  apply elem_of_dom. exists c. apply map_filter_lookup_Some. split; [done|]. exact Hin.
Qed.

(* which entries end up on the kill list *)
Lemma update_entry_tokill tick view tk ci view' tk' :
  update_entry tick (view, tk) ci = Some (view', tk') →
  tk' = tk ∨ (tk' = tk ++ [ci] ∧ ∃ ec, view' !! si_shard ci = Some ec ∧ kill_required ec ci = true).
Proof.
  unfold update_entry.
  assert (Hpart : ∀ x : option (gmap N shard * list shard_info),
            x = match view !! si_shard ci with
                | Some ec => if negb (bool_decide (size (s_reps ec) = 0%nat)) && (0 <? s_cci ec) && kill_required ec ci
                             then Some (view, tk ++ [ci]) else Some (view, tk)
                | None => Some (view, tk)
                end → x = Some (view', tk') →
            tk' = tk ∨ (tk' = tk ++ [ci] ∧ ∃ ec, view' !! si_shard ci = Some ec ∧ kill_required ec ci = true)).
  { intros x ->. destruct (view !! si_shard ci) as [ec|] eqn:Ev; [|intros [= <- <-]; by left].
    destruct (_ && _ && _) eqn:Ec; intros [= <- <-]; [|by left].
    right. split; [done|]. exists ec. split; [done|]. apply andb_true_iff in Ec as [_ Ec]. done. }
  destruct (si_pending ci); [intros Hp; eapply Hpart; [reflexivity|exact Hp]|].
  destruct (si_incomplete ci); cbn [negb]; [intros Hp; eapply Hpart; [reflexivity|exact Hp]|].
  clear Hpart. destruct (view !! si_shard ci) as [ec|] eqn:Ev; [|intros [= <- <-]; by left].
  destruct (sync_shard ec ci tick) as [[ec' rej]|] eqn:Es; [|done].
  destruct (rej && kill_required ec' ci) eqn:Ec; intros [= <- <-]; [|by left].
  right. split; [done|]. exists ec'. rewrite lookup_insert. split; [done|]. apply andb_true_iff in Ec as [_ Ec]. done.
Qed.

Lemma update_entries_tokill H tick cis : ∀ view tk view' tk',
  view_inv H view → Forall (DBViewProofs.entry_ok H) cis → update_entries tick (view, tk) cis = Some (view', tk') →
  ∀ ci, ci ∈ tk' → ci ∈ tk ∨
    (ci ∈ cis ∧ ∃ vm ec, view_inv H vm ∧ ver_mono view vm ∧ vm !! si_shard ci = Some ec ∧ kill_required ec ci = true).
Proof.
  induction cis as [|c0 cis IH]; intros view tk view' tk' Hinv HQ Hu ci Hci.
  - cbn in Hu. injection Hu as <- <-. by left.
  - cbn [update_entries] in Hu. destruct (update_entry tick (view, tk) c0) as [[view1 tk1]|] eqn:E1; [|done].
    apply Forall_cons_1 in HQ as [HQ1 HQ].
    pose proof (update_entry_inv H tick view tk c0 view1 tk1 Hinv HQ1 E1) as Hinv1.
    pose proof (update_entry_mono tick view tk c0 view1 tk1 E1) as Hm1.
    destruct (IH view1 tk1 view' tk' Hinv1 HQ Hu ci Hci) as [Hin|(Hin & vm & ec & Hvi & Hvm & Hl & Hk)].
    + apply update_entry_tokill in E1 as [->|(-> & ec & Hl & Hk)]; [by left|].
      apply elem_of_app in Hin as [Hin|Hin]; [by left|]. apply elem_of_list_singleton in Hin as ->.
      right. split; [left|]. exists view1, ec. done.
    + right. split; [by right|]. exists vm, ec. split; [done|]. split; [|done]. eapply ver_mono_trans; eauto.
Qed.

(* monotonicity of the justifications in Drummer's view version *)
Lemma born_mono h vc vc' rid : born h vc rid → vc ≤ vc' → born h vc' rid.
Proof. intros (a & M & Ha & Hm & Hle) Hc. exists a, M. split; [done|]. split; [done|lia]. Qed.

Definition view_le (view view' : gmap N shard) : Prop :=
  ∀ s c, view !! s = Some c → ∃ c', view' !! s = Some c' ∧ s_cci c ≤ s_cci c'.

Lemma ver_mono_view_le view view' : ver_mono view view' → view_le view view'.
Proof.
  intros Hm s c Hs. destruct (Hm s (s_cci c)) as (v' & Hv' & Hle); [unfold ver; by rewrite Hs|].
  unfold ver in Hv'. destruct (view' !! s) as [c'|]; [|done]. injection Hv' as <-. by exists c'.
Qed.

Lemma rep_ok_mono d d' hist k lr : view_le (d_view d) (d_view d') → rep_ok d hist k lr → rep_ok d' hist k lr.
Proof.
  intros Hle (h & c & Hh & Hc & Hv & Hb). destruct (Hle _ _ Hc) as (c' & Hc' & Hcc).
  exists h, c'. repeat split; try done. by eapply born_mono.
Qed.
Lemma info_ok_mono d d' hist ci : view_le (d_view d) (d_view d') → info_ok d hist ci → info_ok d' hist ci.
Proof.
  intros Hle (He & h & c & Hh & Hc & Hb). destruct (Hle _ _ Hc) as (c' & Hc' & Hcc).
  split; [done|]. exists h, c'. repeat split; try done. by eapply born_mono.
Qed.
Lemma req_ok_mono d d' hist seen q :
  view_le (d_view d) (d_view d') → d_shards d' = d_shards d → req_ok d hist seen q → req_ok d' hist seen q.
Proof.
  intros Hle Hs [Hv Hq]. split; [done|]. unfold shard_size in *. rewrite Hs. destruct (q_type q); try done.
  destruct Hq as [Hj Hb]. split; [done|]. intros Hjt. destruct (Hb Hjt) as (h & c & Hh & Hc & Hbo).
  destruct (Hle _ _ Hc) as (c' & Hc' & Hcc). exists h, c'. repeat split; try done. by eapply born_mono.
Qed.

Lemma dead_from_born n h vc v M rid :
  hist_wf n h → born h vc rid → vc ≤ v → entry_at h v = Some M → is_member M rid = false →
  used_in h rid = true ∧ is_member (cur_members h) rid = false.
Proof.
  intros Hw (a & Ma & Ha & Hm & Hle) Hvc Hv HM.
  apply entry_at_Some in Ha, Hv.
  split; [apply used_in_true; by exists (a, Ma)|].
  assert (Hne : h ≠ []) by (intros ->; by apply elem_of_nil in Hv).
  apply (hist_wf_no_return n h Hw (a, Ma) (v, M) (cur_version h, cur_members h) rid); try done.
  - by apply cur_in.
  - cbn. lia.
  - cbn. apply (hist_wf_le n h Hw (v, M) Hv).
Qed.

(** ** what an allowed batch consists of (Sched.allowed, read backwards) *)
Section Allowed.
Context (P : params) (C : sctx).

Inductive req_origin (b : list request) (q : request) : Prop :=
| ro_kill k : k ∈ c_kill C → q = kill_req k → req_origin b q
| ro_group c : c ∈ entries C → is_kill q = false → q_shard q = s_id c →
               group_allowed P C c (group_of c (take (length b - length (kills C)) b)) = true →
               q ∈ group_of c (take (length b - length (kills C)) b) → req_origin b q.

Lemma allowed_batch_origin b q : allowed P C (OBatch b) = true → q ∈ b → valid_req q = true ∧ req_origin b q.
Proof.
  cbn [allowed]. intros Ha Hq. apply andb_true_iff in Ha as [Hpre Hval].
  split. { rewrite forallb_forall in Hval. apply Hval. by apply elem_of_list_In. }
  unfold pre_allowed in Hpre. set (npre := (length b - length (kills C))%nat) in *.
  repeat (apply andb_true_iff in Hpre as [Hpre ?]).
  rename H into Hgroups, H0 into Hnodup, H1 into Hnd, H2 into Hshards, H3 into Hnokill.
  apply bool_decide_eq_true in Hpre. apply bool_decide_eq_true in Hshards.
  rewrite <- (take_drop npre b) in Hq. apply elem_of_app in Hq as [Hq|Hq].
  - rewrite Forall_forall in Hshards. pose proof (Hshards q Hq) as Hs.
    apply elem_of_list_fmap in Hs as (c & Hsc & Hc).
    rewrite forallb_forall in Hnokill. pose proof (Hnokill q) as Hk. rewrite <- elem_of_list_In in Hk. specialize (Hk Hq).
    apply negb_true_iff in Hk.
    rewrite forallb_forall in Hgroups. pose proof (Hgroups c) as Hg. rewrite <- elem_of_list_In in Hg. specialize (Hg Hc).
    eapply ro_group; eauto. unfold group_of. apply elem_of_list_filter. done.
  - rewrite Hpre in Hq. unfold kills in Hq. apply elem_of_list_fmap in Hq as (k & -> & Hk). by eapply ro_kill.
Qed.

(* the three classes partition the members *)
Lemma filter3_length {A} (f g w : A → bool) (l : list A) :
  (∀ x, (f x = true ∧ g x = false ∧ w x = false) ∨ (f x = false ∧ g x = true ∧ w x = false) ∨ (f x = false ∧ g x = false ∧ w x = true)) →
  (length (filter (λ x, f x = true) l) + length (filter (λ x, g x = true) l) + length (filter (λ x, w x = true) l) = length l)%nat.
Proof.
  intros Hx. induction l as [|x l IH]; [done|]. rewrite !filter_cons.
  destruct (Hx x) as [(-> & -> & ->)|[(-> & -> & ->)|(-> & -> & ->)]];
    repeat (destruct (decide _) as [?|?]; try done); cbn [length]; lia.
Qed.

Lemma classes_sum (c : shard) :
  (n_failed P C c + n_ok P C c + n_wait P C c = size (s_reps c))%nat.
Proof.
  unfold n_failed, n_ok, n_wait, sr_failed, sr_ok, sr_wait, failed_replicas, ok_replicas, waiting_replicas.
  unfold size, map_size. unfold mvals. rewrite <- (fmap_length snd (map_to_list (s_reps c))).
  apply filter3_length. intros n. unfold replica_ok, replica_waiting.
  destruct (replica_failed P n (now C)); destruct (r_tick n =? 0); cbn; auto.
Qed.
Lemma repair_action_delete c : repair_action P C c = ADelete →
  ∃ sd, c_defs C !! s_id c = Some sd ∧ delete_required P C c (length (sd_members sd)) = true.
Proof.
  unfold repair_action. destruct (_ || _); [done|]. destruct (c_defs C !! s_id c) as [sd|]; [|done].
  destruct (delete_required P C c _) eqn:E; [intros _; eauto|].
  destruct (create_required P C c); [done|]. by destruct (add_required P C c).
Qed.
Lemma repair_action_add c : repair_action P C c = AAdd →
  ∃ sd, c_defs C !! s_id c = Some sd ∧ delete_required P C c (length (sd_members sd)) = false ∧
        create_required P C c = false ∧ add_required P C c = true.
Proof.
  unfold repair_action. destruct (_ || _); [done|]. destruct (c_defs C !! s_id c) as [sd|]; [|done].
  destruct (delete_required P C c _) eqn:E; [done|].
  destruct (create_required P C c) eqn:E2; [done|]. destruct (add_required P C c) eqn:E3; [|done]. intros _. eauto.
Qed.

(* size consequences of the chain: DELETE only above the defined size, ADD only at or below it *)
Lemma delete_required_size c n : delete_required P C c n = true → (n < size (s_reps c))%nat.
Proof.
  unfold delete_required. intros H. apply andb_true_iff in H as [_ H]. apply bool_decide_eq_true in H.
  pose proof (classes_sum c). lia.
Qed.
Lemma add_required_size c n :
  delete_required P C c n = false → create_required P C c = false → add_required P C c = true → (size (s_reps c) ≤ n)%nat.
Proof.
  unfold delete_required, create_required, add_required. intros Hd Hc Ha.
  apply bool_decide_eq_false in Hc.
  apply andb_true_iff in Ha as [Ha Hav]. apply andb_true_iff in Ha as [Hf Hw].
  rewrite Hav, Hf in Hd. cbn in Hd. apply bool_decide_eq_false in Hd.
  pose proof (classes_sum c). lia.
Qed.

(* a replacement host does not host the shard *)
Lemma candidates_not_hosting n h : h ∈ candidates P C n → h ∈ host_list C ∧ not_hosting (r_shard n) h = true.
Proof.
  unfold candidates. intros Hh.
  assert (Hany : h ∈ cand_any P C (r_shard n)).
  { destruct (cand_region P C (r_shard n) (region_of C (r_addr n))) as [|h0 l] eqn:E; [done|].
    rewrite <- E in Hh. unfold cand_region in Hh. by apply elem_of_list_filter in Hh as [_ Hh]. }
  unfold cand_any in Hany. apply elem_of_list_filter in Hany as [[_ Hnh] Hl]. done.
Qed.
End Allowed.

Lemma mvals_elem {A} (m : gmap N A) x : x ∈ mvals m ↔ ∃ k, m !! k = Some x.
Proof.
  unfold mvals. rewrite elem_of_list_fmap. split.
  - intros ([k y] & -> & Hin). apply elem_of_map_to_list in Hin. by exists k.
  - intros [k Hk]. exists (k, x). split; [done|]. by apply elem_of_map_to_list.
Qed.

Lemma view_entry_facts d hist c :
  view_inv (Hf hist) (d_view d) → c ∈ entries (ctx_of_db d) →
  ∃ h, hist !! s_id c = Some h ∧ d_view d !! s_id c = Some c ∧ entry_at h (s_cci c) = Some (r_addr <$> s_reps c) ∧
       ∀ rid n, s_reps c !! rid = Some n → r_id n = rid ∧ r_shard n = s_id c.
Proof.
  intros Hv Hc. unfold entries, ctx_of_db in Hc. cbn [c_view] in Hc. apply mvals_elem in Hc as [s Hs].
  destruct (Hv _ _ Hs) as (Hid & HH & Hids). subst s. unfold Hf, hist_of in HH.
  destruct (hist !! s_id c) as [h|] eqn:Eh; [|done]. cbn in HH. exists h. done.
Qed.

Section SchedStep.
Variable P : params.

Lemma group_req_ok d hosts hist seen b c q g :
  LI d hosts hist seen [] →
  c ∈ entries (ctx_of_db d) → is_kill q = false → q_shard q = s_id c →
  group_allowed P (ctx_of_db d) c g = true → q ∈ g → valid_req q = true →
  q ∈ b → (∀ x, x ∈ add_ids b → x ∉ seen) →
  req_ok d hist (seen ∪ list_to_set (add_ids b)) q ∧ is_launch_req q = false.
Proof.
  intros HI Hc Hnk Hs Hg Hq Hval Hb Hfresh. set (C := ctx_of_db d) in *.
  destruct (view_entry_facts d hist c (li_view _ _ _ _ _ HI) Hc) as (h & Hh & Hvc & Hent & Hids).
  unfold group_allowed in Hg. destruct (has_restore P C c) eqn:Hr.
  { (* restore *)
    destruct (c_defs C !! s_id c) as [sd|]; [|done]. unfold restore_group_ok in Hg.
    apply bool_decide_eq_true in Hg as [_ Hall]. rewrite Forall_forall in Hall.
    destruct (Hall q Hq) as (Hcr & _ & _ & _ & _ & _ & Hj & Hre & _).
    unfold is_create in Hcr. unfold req_ok, is_launch_req. destruct (q_type q); try done.
    rewrite Hj, Hre. split; [|done]. split; [done|]. split; [done|]. done. }
  destruct (repair_action P C c) as [| |sd| |] eqn:Ea; try done.
  - apply bool_decide_eq_true in Hg. subst g. by apply elem_of_nil in Hq.
  - (* DELETE *)
    destruct g as [|q0 [|? ?]]; try done. apply elem_of_list_singleton in Hq as ->.
    unfold delete_req_ok in Hg. apply bool_decide_eq_true in Hg as (Hd & _ & Hcc & Hm & _).
    apply repair_action_delete in Ea as (sd & Hsd & Hdr). apply delete_required_size in Hdr.
    unfold is_delete in Hd. unfold req_ok, is_launch_req. destruct (q_type q0); try done. split; [|done]. split; [done|].
    apply Exists_exists in Hm as (n & _ & Hm). exists (r_id n). split; [done|].
    intros h0 Hh0. rewrite Hs in Hh0. assert (h0 = h) as -> by congruence.
    exists (r_addr <$> s_reps c). rewrite Hcc. split; [done|]. rewrite map_size_fmap.
    unfold shard_size. rewrite Hs. unfold C, ctx_of_db in Hsd. cbn [c_defs] in Hsd. rewrite Hsd. done.
  - (* join CREATE *)
    destruct g as [|q0 [|? ?]]; try done. apply elem_of_list_singleton in Hq as ->.
    unfold join_req_ok in Hg. apply bool_decide_eq_true in Hg as [(Hcr & _ & _ & _ & _ & _ & Hj & Hre & _) Hex].
    unfold is_create in Hcr. unfold req_ok, is_launch_req. destruct (q_type q0); try done. rewrite Hj, Hre.
    split; [|done]. split; [done|]. split; [done|]. intros _.
    apply Exists_exists in Hex as (n & Hn & Hi & _).
    unfold sr_wait, waiting_replicas in Hn. apply elem_of_list_filter in Hn as [_ Hn]. apply mvals_elem in Hn as [rid Hrid].
    destruct (Hids _ _ Hrid) as [Hrid' _].
    exists h, c. rewrite Hs. split; [done|]. split; [done|].
    exists (s_cci c), (r_addr <$> s_reps c). split; [done|]. split; [|lia].
    apply is_member_true. rewrite lookup_fmap, Hi, Hrid', Hrid. by eexists.
  - (* ADD *)
    destruct g as [|q0 [|? ?]]; try done. apply elem_of_list_singleton in Hq as ->.
    unfold add_req_ok in Hg. apply bool_decide_eq_true in Hg as (Had & _ & Hcc & Hlen & _ & Hcand & _).
    apply repair_action_add in Ea as (sd & Hsd & Hdr & Hcr & Har).
    pose proof (add_required_size P C c _ Hdr Hcr Har) as Hsz.
    pose proof Had as Had'. unfold is_add in Had. unfold req_ok, is_launch_req. destruct (q_type q0); try done. split; [|done]. split; [done|].
    destruct (q_members q0) as [|x [|? ?]] eqn:Em; try done.
    apply Exists_exists in Hcand as (n & Hn & Hcand). apply Exists_exists in Hcand as (hh & Hhh & Haddr).
    assert (Hx : x ∈ add_ids b).
    { unfold add_ids. apply elem_of_list_In, in_concat. exists [x]. split; [|by left].
      apply elem_of_list_In, elem_of_list_fmap. exists q0. split; [done|]. apply elem_of_list_filter. done. }
    exists x, (h_addr hh). split; [done|]. split; [done|]. split; [set_solver|].
    intros h0 Hh0. rewrite Hs in Hh0. assert (h0 = h) as -> by congruence. split.
    + exists (r_addr <$> s_reps c). rewrite Hcc. split; [done|]. rewrite map_size_fmap. split.
      * unfold shard_size. rewrite Hs. unfold C, ctx_of_db in Hsd. cbn [c_defs] in Hsd. by rewrite Hsd.
      * intros r Hrr. rewrite lookup_fmap in Hrr. destruct (s_reps c !! r) as [n'|] eqn:En'; [|done]. injection Hrr as Hrr.
        apply candidates_not_hosting in Hhh as [Hhl Hnh]. unfold host_list, C, ctx_of_db in Hhl. cbn [c_hosts] in Hhl.
        apply mvals_elem in Hhl as [a Ha]. destruct (li_synced _ _ _ _ _ HI a hh Ha) as [Haa Hsh].
        unfold sr_failed, failed_replicas in Hn. apply elem_of_list_filter in Hn as [_ Hn]. apply mvals_elem in Hn as [rid Hrid].
        destruct (Hids _ _ Hrid) as [_ Hshard]. unfold not_hosting in Hnh. apply bool_decide_eq_true in Hnh.
        apply Hnh. rewrite Hshard. apply (Hsh _ _ Hvc). rewrite <- Haa, <- Hrr. unfold addrs_of.
        apply elem_of_list_fmap. exists n'. split; [done|]. apply mvals_elem. by exists r.
    + intros Hu. exfalso. apply (Hfresh x Hx). eapply li_seen; eauto.
Qed.
Lemma sched_batch_ok d hosts hist seen b :
  LI d hosts hist seen [] → allowed P (ctx_of_db d) (OBatch b) = true → (∀ x, x ∈ add_ids b → x ∉ seen) →
  ∀ q, q ∈ b → req_ok d hist (seen ∪ list_to_set (add_ids b)) q ∧ is_launch_req q = false.
Proof.
  intros HI Ha Hfresh q Hq. destruct (allowed_batch_origin P _ b q Ha Hq) as [Hval [k Hk ->|c Hc Hnk Hs Hg Hin]].
  - split; [|done]. split; [done|]. cbn. exists (k_replica k). split; [done|].
    apply (li_kill _ _ _ _ _ HI). unfold ctx_of_db in Hk. exact Hk.
  - eapply group_req_ok; eauto.
Qed.
End SchedStep.

Lemma put_requests_in m b a qs : put_requests m b !! a = Some qs → m !! a = Some qs ∨ ∀ q, q ∈ qs → q ∈ b.
Proof.
  unfold put_requests. generalize (addrs_in b). intros l. revert m. induction l as [|x l IH]; intros m; cbn [foldl]; [by left|].
  intros H. destruct (IH _ H) as [H1|H1]; [|by right].
  destruct (decide (a = x)) as [->|Hne].
  - rewrite lookup_insert in H1. injection H1 as <-. right. intros q Hq. by apply elem_of_list_filter in Hq as [_ Hq].
  - rewrite lookup_insert_ne in H1 by done. by left.
Qed.

Lemma req_ok_seen_mono d hist (seen seen' : gset N) q : seen ⊆ seen' → req_ok d hist seen q → req_ok d hist seen' q.
Proof.
  intros Hsub [Hv Hq]. split; [done|]. destruct (q_type q); try done.
  destruct Hq as (x & t & Hm & Ha & Hx & Hrest). exists x, t.
  split; [done|]. split; [done|]. split; [|done]. by apply Hsub.
Qed.

Lemma nodup_concat_unique {A B} (f : A → list B) (l : list A) :
  NoDup (concat (f <$> l)) → ∀ a a' x, a ∈ l → a' ∈ l → x ∈ f a → x ∈ f a' → a = a'.
Proof.
  induction l as [|a0 l IH]; intros Hnd a a' x Ha Ha' Hx Hx'; [by apply elem_of_nil in Ha|].
  cbn in Hnd. apply NoDup_app in Hnd as (_ & Hdisj & Hnd).
  assert (Hin : ∀ b, b ∈ l → x ∈ f b → x ∈ concat (f <$> l)).
  { intros b Hb Hxb. apply elem_of_list_In, in_concat. exists (f b). split; [|by apply elem_of_list_In].
    apply elem_of_list_In, elem_of_list_fmap. by exists b. }
  apply elem_of_cons in Ha as [->|Ha]; apply elem_of_cons in Ha' as [->|Ha'].
  - done.
  - exfalso. apply (Hdisj x Hx). by apply (Hin a').
  - exfalso. apply (Hdisj x Hx'). by apply (Hin a).
  - by apply (IH Hnd a a' x).
Qed.


(** ** executing requests *)
Lemma LI_shrink d hosts hist seen extra extra' :
  (∀ q, q ∈ extra' → q ∈ extra) → LI d hosts hist seen extra → LI d hosts hist seen extra'.
Proof.
  intros Hsub HI. eapply LI_hosts_frame; [| | |exact HI].
  - apply (li_reps _ _ _ _ _ HI).
  - apply (li_out _ _ _ _ _ HI).
  - intros q [H|[H|[H|H]]]; [by left|by right; left|by right; right; left|right; right; right; by apply Hsub].
Qed.

Lemma LI_set_reps d hosts hist seen extra h fh reps' :
  hosts !! h = Some fh → (∀ k lr, reps' !! k = Some lr → rep_ok d hist k lr) →
  LI d hosts hist seen extra → LI d (set_reps hosts h reps') hist seen extra.
Proof.
  intros Eh Hreps HI. unfold set_reps. rewrite Eh. eapply LI_hosts_frame; [| | |exact HI].
  - intros a fh0 k lr H0 Hk. destruct (decide (a = h)) as [->|Hne].
    + rewrite lookup_insert in H0. injection H0 as <-. cbn in Hk. eauto.
    + rewrite lookup_insert_ne in H0 by done. eapply li_reps; eauto.
  - intros a fh0 r H0 Hr. destruct (decide (a = h)) as [->|Hne].
    + rewrite lookup_insert in H0. injection H0 as <-. cbn in Hr. eapply li_out; eauto.
    + rewrite lookup_insert_ne in H0 by done. eapply li_out; eauto.
  - intros q [H|[H|[(a & fh0 & H0 & Hin)|H]]]; [by left|by right; left| |by right; right; right].
    right; right; left. destruct (decide (a = h)) as [->|Hne].
    + rewrite lookup_insert in H0. injection H0 as <-. cbn in Hin. eauto.
    + rewrite lookup_insert_ne in H0 by done. eauto.
Qed.

Lemma used_in_cons e h r : used_in (e :: h) r = is_member e.2 r || used_in h r.
Proof. reflexivity. Qed.

(* one more entry in the history of shard s *)
Lemma LI_hist_step d hosts hist seen extra s hs e' :
  LI d hosts hist seen extra → hist !! s = Some hs → hist_wf (shard_size d s) (e' :: hs) →
  (∀ rid, is_member e'.2 rid = true →
     is_member (cur_members hs) rid = true ∨
     (used_in hs rid = false ∧ rid ∈ seen ∧
      ∀ q, in_box d hosts extra q → is_add q = true → q_shard q = s → q_members q = [rid] → q_ccid q < e'.1)) →
  LI d hosts (<[s := e' :: hs]> hist) seen extra.
Proof.
  intros HI Hs Hw Hmem.
  assert (Hext : ∀ v M, entry_at hs v = Some M → entry_at (e' :: hs) v = Some M).
  { intros v M. by apply (entry_at_cons_old _ _ _ _ _ Hw). }
  assert (Hlook : ∀ s0 h0, <[s := e' :: hs]> hist !! s0 = Some h0 →
            (s0 = s ∧ h0 = e' :: hs) ∨ (s0 ≠ s ∧ hist !! s0 = Some h0)).
  { intros s0 h0 Hl. destruct (decide (s0 = s)) as [->|Hne].
    - rewrite lookup_insert in Hl. injection Hl as <-. by left.
    - rewrite lookup_insert_ne in Hl by done. by right. }
  assert (HfExt : ∀ s0 v M, Hf hist s0 v = Some M → Hf (<[s := e' :: hs]> hist) s0 v = Some M).
  { intros s0 v M. unfold Hf, hist_of. destruct (decide (s0 = s)) as [->|Hne].
    - rewrite lookup_insert, Hs. cbn. apply Hext.
    - by rewrite lookup_insert_ne. }
  assert (Hborn : ∀ vc rid, born hs vc rid → born (e' :: hs) vc rid).
  { intros vc rid (a & M & Ha & Hm & Hle). exists a, M. split; [by apply Hext|done]. }
  assert (Hhs : hs ≠ []).
  { intros ->. pose proof (li_hist _ _ _ _ _ HI s [] Hs) as Hbad. by apply hist_wf_nonempty in Hbad. }
  assert (Hvlt : cur_version hs < e'.1).
  { pose proof (hist_wf_versions _ _ Hw (cur_version hs, cur_members hs)) as Hlt. cbn in Hlt. apply Hlt. by apply cur_in. }
  assert (Hdead : ∀ y, used_in hs y = true → is_member (cur_members hs) y = false → is_member e'.2 y = false).
  { intros y Hu Hc. destruct (is_member e'.2 y) eqn:E; [|done]. destruct (Hmem y E) as [Hm|(Hnu & _)]; congruence. }
  assert (Hdeadid : ∀ s0 y, dead_id hist s0 y → dead_id (<[s := e' :: hs]> hist) s0 y).
  { intros s0 y Hd h0 Hl. destruct (Hlook _ _ Hl) as [[-> ->]|[Hne Hl0]]; [|by apply Hd].
    destruct (Hd hs Hs) as [Hu Hc]. split; [rewrite used_in_cons, Hu; by rewrite orb_true_r|]. cbn. by apply Hdead. }
  split.
  - exact (li_failed _ _ _ _ _ HI).
  - exact (li_deadline _ _ _ _ _ HI).
  - intros s0 h0 Hl. destruct (Hlook _ _ Hl) as [[-> ->]|[Hne Hl0]]; [done|]. by apply (li_hist _ _ _ _ _ HI).
  - intros s0 Hs0. apply (li_cover _ _ _ _ _ HI). destruct (decide (s0 = s)) as [->|Hne]; [by eexists|].
    by rewrite lookup_insert_ne in Hs0.
  - intros s0 c Hc. destruct (li_view _ _ _ _ _ HI s0 c Hc) as (Hid & HH & Hids). split; [done|]. split; [|done]. by apply HfExt.
  - exact (li_synced _ _ _ _ _ HI).
  - intros a fh k lr Ha Hk. destruct (li_reps _ _ _ _ _ HI a fh k lr Ha Hk) as (h0 & c & Hh0 & Hc & Hv & Hb).
    destruct (decide (k.1 = s)) as [Heq|Hne].
    + rewrite Heq in Hh0. assert (h0 = hs) as -> by congruence.
      exists (e' :: hs), c. rewrite Heq, lookup_insert. split; [done|]. split; [by rewrite <- Heq|].
      split; [|by apply Hborn]. destruct Hv as [Hz|[M HM]]; [by left|right]. exists M. by apply Hext.
    + exists h0, c. rewrite lookup_insert_ne by done. done.
  - intros a fh r Ha Hr. eapply Forall_impl; [eapply li_out; eauto|]. intros ci (He & h0 & c & Hh0 & Hc & Hb). split.
    + intros Hcomp. apply HfExt. by apply He.
    + destruct (decide (si_shard ci = s)) as [Heq|Hne].
      * rewrite Heq in Hh0. assert (h0 = hs) as -> by congruence. exists (e' :: hs), c. rewrite Heq, lookup_insert.
        split; [done|]. split; [by rewrite <- Heq|]. by apply Hborn.
      * exists h0, c. rewrite lookup_insert_ne by done. done.
  - intros q Hq. pose proof (li_reqs _ _ _ _ _ HI q Hq) as [Hv Hr]. split; [done|].
    pose proof (li_adds _ _ _ _ _ HI) as Hadds.
    remember (q_type q) as ty eqn:Ety. destruct ty.
    + destruct Hr as [Hj Hb]. split; [done|]. intros Hjt. destruct (Hb Hjt) as (h0 & c & Hh0 & Hc & Hbo).
      destruct (decide (q_shard q = s)) as [Heq|Hne].
      * rewrite Heq in Hh0. assert (h0 = hs) as -> by congruence. exists (e' :: hs), c. rewrite Heq, lookup_insert.
        split; [done|]. split; [by rewrite <- Heq|]. by apply Hborn.
      * exists h0, c. rewrite lookup_insert_ne by done. done.
    + destruct Hr as (y & Hm & Hrest). exists y. split; [done|]. intros h0 Hl.
      destruct (Hlook _ _ Hl) as [[Heq ->]|[Hne Hl0]]; [|by apply Hrest].
      destruct (Hrest hs) as (M & HM & Hsz); [by rewrite Heq|]. exists M. split; [by apply Hext|done].
    + destruct Hr as (x & t & Hm & Ha & Hx & Hrest). exists x, t. split; [done|]. split; [done|]. split; [done|].
      intros h0 Hl. destruct (Hlook _ _ Hl) as [[Heq ->]|[Hne Hl0]]; [|by apply Hrest].
      destruct (Hrest hs) as [(M & HM & Hsz) Hused]; [by rewrite Heq|]. split.
      * exists M. split; [by apply Hext|done].
      * intros Hu. cbn [cur_version]. rewrite used_in_cons in Hu. apply orb_true_iff in Hu as [Hu|Hu].
        -- destruct (used_in hs x) eqn:Eu; [specialize (Hused eq_refl); lia|].
           destruct (Hmem x Hu) as [Hc|(_ & _ & Hf')].
           ++ exfalso. assert (used_in hs x = true); [|congruence]. apply used_in_true.
              exists (cur_version hs, cur_members hs). split; [by apply cur_in|done].
           ++ apply Hf'; try done. unfold is_add. by rewrite <- Ety.
        -- specialize (Hused Hu). lia.
    + destruct Hr as (y & Hm & Hd). exists y. split; [done|]. by apply Hdeadid.
  - exact (li_adds _ _ _ _ _ HI).
  - intros k Hk. apply Hdeadid. by apply (li_kill _ _ _ _ _ HI).
  - intros s0 h0 rid Hl Hu. destruct (Hlook _ _ Hl) as [[-> ->]|[Hne Hl0]]; [|by eapply li_seen].
    rewrite used_in_cons in Hu. apply orb_true_iff in Hu as [Hu|Hu]; [|by eapply li_seen].
    destruct (Hmem rid Hu) as [Hc|(_ & Hsn & _)]; [|done].
    eapply (li_seen _ _ _ _ _ HI s hs); [done|]. apply used_in_true.
    exists (cur_version hs, cur_members hs). split; [by apply cur_in|done].
Qed.

Lemma start_existing_inv d hosts hist seen extra h fh s rid lr :
  hosts !! h = Some fh → fh_reps fh !! (s, rid) = Some lr → LI d hosts hist seen extra →
  LI d (start_existing h (hosts, hist) (fh_reps fh) s rid lr).1 (start_existing h (hosts, hist) (fh_reps fh) s rid lr).2 seen extra.
Proof.
  intros Eh Ek HI. unfold start_existing. cbn [fst snd]. destruct (_ || _); [done|]. cbn [fst snd].
  eapply LI_set_reps; [exact Eh| |exact HI].
  intros k lr' Hk. destruct (decide (k = (s, rid))) as [->|Hne].
  - rewrite lookup_insert in Hk. injection Hk as <-. exact (li_reps _ _ _ _ _ HI _ _ _ _ Eh Ek).
  - rewrite lookup_insert_ne in Hk by done. eapply li_reps; eauto.
Qed.

Lemma learn_local_lookup reps s M v k lr' :
  learn_local reps s M v !! k = Some lr' →
  ∃ lr, reps !! k = Some lr ∧ (lr' = lr ∨ (k.1 = s ∧ lr' = mkLRep true v)).
Proof.
  unfold learn_local. rewrite map_lookup_imap. destruct (reps !! k) as [lr|]; [|done]. cbn.
  destruct (bool_decide (k.1 = s)) eqn:E; cbn [andb]; [|intros [= <-]; eauto].
  apply bool_decide_eq_true in E. destruct (lr_running lr && is_member M k.2); intros [= <-]; eauto.
Qed.

(* after the history of shard s got its new head (version v), the proposer's replicas may know v *)
Lemma learn_local_ok d hosts hist seen extra h fh s M v e' hs :
  LI d hosts (<[s := e' :: hs]> hist) seen extra → hosts !! h = Some fh → e'.1 = v →
  ∀ k lr, learn_local (fh_reps fh) s M v !! k = Some lr → rep_ok d (<[s := e' :: hs]> hist) k lr.
Proof.
  intros HI Eh Hv k lr' Hk. apply learn_local_lookup in Hk as (lr & Hk & [->|[Hs ->]]).
  - eapply li_reps; eauto.
  - destruct (li_reps _ _ _ _ _ HI _ _ _ _ Eh Hk) as (h0 & c & Hh0 & Hc & _ & Hb).
    exists h0, c. split; [done|]. split; [done|]. split; [|done]. right. cbn [lr_ver].
    rewrite Hs, lookup_insert in Hh0. injection Hh0 as <-. cbn. rewrite Hv, N.eqb_refl. by eexists.
Qed.

Lemma exec_req_inv d hosts hist seen q rest h ccok x' :
  LI d hosts hist seen (q :: rest) → exec_req h ccok (hosts, hist) q = Some x' → LI d x'.1 x'.2 seen rest.
Proof.
  intros HI. assert (Hsub : ∀ q0, q0 ∈ rest → q0 ∈ q :: rest) by (intros; by right).
  assert (Hqbox : in_box d hosts (q :: rest) q) by (right; right; right; left).
  pose proof (li_reqs _ _ _ _ _ HI q Hqbox) as [Hval Hreq].
  unfold exec_req. cbn [fst snd]. destruct (hosts !! h) as [fh|] eqn:Eh.
  2:{ intros [= <-]. cbn. exact (LI_shrink _ _ _ _ _ _ Hsub HI). }
  remember (q_type q) as ty eqn:Ety. destruct ty.
  - (* CREATE *)
    destruct Hreq as [Hj Hborn].
    destruct (q_join q) eqn:Ej, (q_restore q) eqn:Er; cbn in Hj; try done.
    + (* join *)
      destruct (fh_reps fh !! (q_shard q, q_inst q)) as [lr|] eqn:Ek; intros [= <-].
      * eapply LI_shrink; [exact Hsub|]. by apply start_existing_inv.
      * destruct (busy (fh_reps fh) (q_shard q)); cbn [fst snd]; [exact (LI_shrink _ _ _ _ _ _ Hsub HI)|].
        eapply LI_shrink; [exact Hsub|]. eapply LI_set_reps; [exact Eh| |exact HI].
        intros k lr' Hk. destruct (decide (k = (q_shard q, q_inst q))) as [->|Hne].
        -- rewrite lookup_insert in Hk. injection Hk as <-. destruct (Hborn eq_refl) as (h0 & c & Hh0 & Hc & Hb).
           exists h0, c. cbn. split; [done|]. split; [done|]. split; [by left|done].
        -- rewrite lookup_insert_ne in Hk by done. eapply li_reps; eauto.
    + (* restore *)
      destruct (fh_reps fh !! (q_shard q, q_inst q)) as [lr|] eqn:Ek; intros [= <-].
      * eapply LI_shrink; [exact Hsub|]. by apply start_existing_inv.
      * cbn. exact (LI_shrink _ _ _ _ _ _ Hsub HI).
  - (* DELETE *)
    destruct Hreq as (y & Hm & Hrest). rewrite Hm. intros [= <-].
    destruct (hist_of hist (q_shard q)) as [|[v M] hs0] eqn:Ehs; cbn [fst snd]; [exact (LI_shrink _ _ _ _ _ _ Hsub HI)|].
    match goal with |- context [if ?b then _ else _] => destruct b eqn:Ec end; cbn [fst snd] in *;
      [|exact (LI_shrink _ _ _ _ _ _ Hsub HI)].
    apply andb_true_iff in Ec as [Hcc Hmem]. unfold cc_ready in Hcc.
    apply andb_true_iff in Hcc as [Hcc _]. apply andb_true_iff in Hcc as [_ Hfence]. apply N.eqb_eq in Hfence.
    assert (Hs : hist !! q_shard q = Some ((v, M) :: hs0)).
    { unfold hist_of in Ehs. destruct (hist !! q_shard q) as [h0|]; cbn in Ehs; [by subst|done]. }
    pose proof (li_hist _ _ _ _ _ HI _ _ Hs) as Hw.
    destruct (Hrest _ Hs) as (M0 & HM0 & Hsz). rewrite Hfence in HM0. cbn in HM0. rewrite N.eqb_refl in HM0. injection HM0 as <-.
    destruct (hist_wf_mem_ok _ _ Hw (v, M)) as [[Hlo Hhi] Hinj]; [left|]. cbn [snd] in *.
    assert (Hw' : hist_wf (shard_size d (q_shard q)) ((v + 1, delete y M) :: (v, M) :: hs0)).
    { apply hw_del; [done|done|]. split.
      - rewrite map_size_delete_Some by (by apply is_member_true). lia.
      - intros r1 r2 a H1 H2. apply lookup_delete_Some in H1 as [_ H1]. apply lookup_delete_Some in H2 as [_ H2]. eauto. }
    eapply LI_shrink; [exact Hsub|].
    assert (HI' : LI d hosts (<[q_shard q := (v + 1, delete y M) :: (v, M) :: hs0]> hist) seen (q :: rest)).
    { apply LI_hist_step; [done|done|done|]. intros rid Hr. left. cbn in Hr |- *.
      apply is_member_true in Hr as [a Ha]. apply lookup_delete_Some in Ha as [_ Ha]. apply is_member_true. by eexists. }
    eapply LI_set_reps; [exact Eh| |exact HI'].
    intros k lr Hk. apply lookup_delete_Some in Hk as [_ Hk].
    by eapply (learn_local_ok _ _ _ _ _ _ _ _ _ _ _ _ HI' Eh).
  - (* ADD *)
    destruct Hreq as (x & t & Hm & Ha & Hx & Hrest). rewrite Hm, Ha. intros [= <-].
    destruct (hist_of hist (q_shard q)) as [|[v M] hs0] eqn:Ehs; cbn [fst snd]; [exact (LI_shrink _ _ _ _ _ _ Hsub HI)|].
    match goal with |- context [if ?b then _ else _] => destruct b eqn:Ec end; cbn [fst snd] in *;
      [|exact (LI_shrink _ _ _ _ _ _ Hsub HI)].
    apply andb_true_iff in Ec as [Hcc Hnu]. apply negb_true_iff in Hnu. unfold cc_ready in Hcc.
    apply andb_true_iff in Hcc as [Hcc _]. apply andb_true_iff in Hcc as [_ Hfence]. apply N.eqb_eq in Hfence.
    assert (Hs : hist !! q_shard q = Some ((v, M) :: hs0)).
    { unfold hist_of in Ehs. destruct (hist !! q_shard q) as [h0|]; cbn in Ehs; [by subst|done]. }
    pose proof (li_hist _ _ _ _ _ HI _ _ Hs) as Hw.
    destruct (Hrest _ Hs) as [(M0 & HM0 & Hsz & Hnot) _]. rewrite Hfence in HM0. cbn in HM0. rewrite N.eqb_refl in HM0. injection HM0 as <-.
    destruct (hist_wf_mem_ok _ _ Hw (v, M)) as [[Hlo Hhi] Hinj]; [left|]. cbn [snd] in *.
    assert (HMx : M !! x = None).
    { apply is_member_false. apply (proj1 (used_in_false _ _) Hnu (v, M)). left. }
    assert (Hw' : hist_wf (shard_size d (q_shard q)) ((v + 1, <[x := t]> M) :: (v, M) :: hs0)).
    { apply hw_add; [done|done|]. split.
      - rewrite map_size_insert_None by done. lia.
      - intros r1 r2 a H1 H2. destruct (decide (r1 = x)) as [->|N1]; destruct (decide (r2 = x)) as [->|N2]; [done| | |].
        + rewrite lookup_insert in H1. injection H1 as <-. rewrite lookup_insert_ne in H2 by done. by destruct (Hnot r2).
        + rewrite lookup_insert in H2. injection H2 as <-. rewrite lookup_insert_ne in H1 by done. by destruct (Hnot r1).
        + rewrite lookup_insert_ne in H1, H2 by done. eauto. }
    eapply LI_shrink; [exact Hsub|].
    assert (HI' : LI d hosts (<[q_shard q := (v + 1, <[x := t]> M) :: (v, M) :: hs0]> hist) seen (q :: rest)).
    { apply LI_hist_step; [done|done|done|]. intros rid Hr. cbn in Hr |- *.
      destruct (decide (rid = x)) as [->|Hne].
      + right. split; [done|]. split; [done|]. intros q' Hq' Hadd' Hs' Hm'.
        assert (q_ccid q' = q_ccid q) as ->; [|lia].
        apply (li_adds _ _ _ _ _ HI q' q); try done; [unfold is_add; by rewrite <- Ety|congruence].
      + left. apply is_member_true in Hr as [a Hr]. rewrite lookup_insert_ne in Hr by done. apply is_member_true. by eexists. }
    eapply LI_set_reps; [exact Eh| |exact HI'].
    intros k lr Hk. by eapply (learn_local_ok _ _ _ _ _ _ _ _ _ _ _ _ HI' Eh).
  - (* KILL *)
    destruct Hreq as (y & Hm & _). rewrite Hm. intros [= <-].
    destruct (fh_reps fh !! (q_shard q, y)) as [lr|] eqn:Ek; [|cbn; exact (LI_shrink _ _ _ _ _ _ Hsub HI)].
    destruct (lr_running lr); cbn [fst snd]; [|exact (LI_shrink _ _ _ _ _ _ Hsub HI)].
    eapply LI_shrink; [exact Hsub|]. eapply LI_set_reps; [exact Eh| |exact HI].
    intros k lr' Hk. apply lookup_delete_Some in Hk as [_ Hk]. eapply li_reps; eauto.
Qed.

Lemma exec_req_no_panic d hosts hist seen q rest h ccok :
  LI d hosts hist seen (q :: rest) → exec_req h ccok (hosts, hist) q ≠ None.
Proof.
  intros HI. assert (Hqbox : in_box d hosts (q :: rest) q) by (right; right; right; left).
  pose proof (li_reqs _ _ _ _ _ HI q Hqbox) as [Hval Hreq].
  unfold exec_req. cbn [fst snd]. destruct (hosts !! h) as [fh|]; [|done].
  destruct (q_type q).
  - destruct Hreq as [Hj _]. destruct (q_join q), (q_restore q); cbn in Hj; try done;
      by destruct (fh_reps fh !! (q_shard q, q_inst q)).
  - destruct Hreq as (y & -> & _). done.
  - destruct Hreq as (x & t & -> & -> & _). done.
  - destruct Hreq as (y & -> & _). done.
Qed.

Lemma exec_all_inv d seen h ccok qs : ∀ hosts hist x',
  LI d hosts hist seen qs → exec_all h ccok (hosts, hist) qs = Some x' → LI d x'.1 x'.2 seen [].
Proof.
  induction qs as [|q qs IH]; intros hosts hist x' HI; cbn [exec_all].
  - by intros [= <-].
  - destruct (exec_req h ccok (hosts, hist) q) as [[hosts1 hist1]|] eqn:E; [|done].
    intros Hx. apply (IH hosts1 hist1 x'); [|done]. by apply (exec_req_inv _ _ _ _ _ _ _ _ _ HI E).
Qed.

Lemma exec_all_no_panic d seen h ccok qs : ∀ hosts hist,
  LI d hosts hist seen qs → exec_all h ccok (hosts, hist) qs ≠ None.
Proof.
  induction qs as [|q qs IH]; intros hosts hist HI; cbn [exec_all]; [done|].
  destruct (exec_req h ccok (hosts, hist) q) as [[hosts1 hist1]|] eqn:E.
  - apply IH. by apply (exec_req_inv _ _ _ _ _ _ _ _ _ HI E).
  - by apply (exec_req_no_panic _ _ _ _ _ _ _ _ HI) in E.
Qed.

Section Steps.
Variable P : params.

(** ** tick *)
Lemma step_tick st st' : LoopInv st → fstep P st ETick = FOk st' → LoopInv st'.
Proof.
  intros HI. pose proof (li_failed _ _ _ _ _ HI) as Hf. pose proof (li_deadline _ _ _ _ _ HI) as Hd.
  cbn [fstep]. unfold db_step. rewrite Hf. unfold apply_tick. cbn [d_deadline set_tick]. rewrite Hd. cbn [N.ltb andb].
  intros [= <-]. unfold LoopInv. cbn [set_db f_db f_hosts f_hist f_seen].
  eapply LI_db_frame; [..|exact HI]; reflexivity.
Qed.

Lemma step_tick_no_panic st : LoopInv st → fstep P st ETick ≠ FPanic.
Proof.
  intros HI. pose proof (li_failed _ _ _ _ _ HI) as Hf. pose proof (li_deadline _ _ _ _ _ HI) as Hd.
  cbn [fstep]. unfold db_step. rewrite Hf. unfold apply_tick. cbn [d_deadline set_tick]. rewrite Hd. cbn [N.ltb andb]. done.
Qed.
(** ** a host builds a report *)
Lemma step_snap st st' h plog : LoopInv st → fstep P st (ESnap h plog) = FOk st' → LoopInv st'.
Proof.
  intros HI. cbn [fstep]. destruct (f_hosts st !! h) as [fh|] eqn:Eh; [|done].
  destruct (fh_up fh); [|done]. intros [= <-]. unfold LoopInv, set_host. cbn [f_db f_hosts f_hist f_seen].
  eapply LI_set_host; [exact Eh| | | |exact HI]; cbn [fh_reps fh_out fh_queue].
  - intros k lr Hk. eapply li_reps; eauto.
  - intros r [= <-]. eapply host_report_ok; eauto.
  - done.
Qed.

(** ** crash, restart *)
Lemma step_crash st st' h : LoopInv st → fstep P st (ECrash h) = FOk st' → LoopInv st'.
Proof.
  intros HI. cbn [fstep]. destruct (f_hosts st !! h) as [fh|] eqn:Eh; [|done].
  destruct (fh_up fh); [|done]. intros [= <-]. unfold LoopInv, set_host. cbn [f_db f_hosts f_hist f_seen].
  eapply LI_set_host; [exact Eh| | | |exact HI]; cbn [fh_reps fh_out fh_queue].
  - intros k lr Hk. rewrite lookup_fmap in Hk. destruct (fh_reps fh !! k) as [lr0|] eqn:E0; [|done].
    injection Hk as <-. pose proof (li_reps _ _ _ _ _ HI _ _ _ _ Eh E0) as Hr. exact Hr.
  - done.
  - intros q Hq. by apply elem_of_nil in Hq.
Qed.

Lemma step_restart st st' h : LoopInv st → fstep P st (ERestart h) = FOk st' → LoopInv st'.
Proof.
  intros HI. cbn [fstep]. destruct (f_hosts st !! h) as [fh|] eqn:Eh; [|done].
  destruct (fh_up fh); [done|]. intros [= <-]. unfold LoopInv, set_host. cbn [f_db f_hosts f_hist f_seen].
  eapply LI_set_host; [exact Eh| | | |exact HI]; cbn [fh_reps fh_out fh_queue].
  - intros k lr Hk. eapply li_reps; eauto.
  - intros r Hr. eapply li_out; eauto.
  - done.
Qed.

(** ** a replica learns a version *)
Lemma step_learn st st' h s r v : LoopInv st → fstep P st (ELearn h s r v) = FOk st' → LoopInv st'.
Proof.
  intros HI. cbn [fstep]. destruct (f_hosts st !! h) as [fh|] eqn:Eh; [|done].
  destruct (fh_reps fh !! (s, r)) as [lr|] eqn:Er; [|done].
  destruct (_ && _ && _ && _) eqn:Ec; [|done]. intros [= <-].
  apply andb_true_iff in Ec as [_ Hv]. apply bool_decide_eq_true in Hv.
  unfold LoopInv, set_host. cbn [f_db f_hosts f_hist f_seen].
  eapply LI_set_host; [exact Eh| | | |exact HI]; cbn [fh_reps fh_out fh_queue].
  - intros k lr' Hk. destruct (decide (k = (s, r))) as [->|Hne].
    + rewrite lookup_insert in Hk. injection Hk as <-.
      destruct (li_reps _ _ _ _ _ HI _ _ _ _ Eh Er) as (h0 & c & Hh & Hc & _ & Hb).
      exists h0, c. split; [done|]. split; [done|]. split; [|done]. right. cbn [lr_ver].
      unfold hist_of in Hv. cbn in Hh. by rewrite Hh in Hv.
    + rewrite lookup_insert_ne in Hk by done. eapply li_reps; eauto.
  - intros r0 Hr. eapply li_out; eauto.
  - done.
Qed.
(** ** a report is delivered *)
Lemma deliver_db st r d' v :
  LoopInv st → Forall (info_ok (f_db st) (f_hist st)) (rp_infos r) → db_step P (f_db st) (CReport r) = SOk d' v →
  LI d' (f_hosts st) (f_hist st) (f_seen st) [] ∧
  (∀ a qs, d_outgoing d' !! a = Some qs → ∀ q, q ∈ qs → in_box (f_db st) (f_hosts st) [] q).
Proof.
  destruct st as [d hosts hist seen]. unfold LoopInv. cbn [f_db f_hosts f_hist f_seen]. intros HI Hr Hstep.
  pose proof (li_failed _ _ _ _ _ HI) as Hfl. pose proof (li_deadline _ _ _ _ _ HI) as Hd.
  pose proof (li_view _ _ _ _ _ HI) as Hview. pose proof (li_hist _ _ _ _ _ HI) as Hhist.
  assert (Hn : next P d (CReport r) = Some d') by (unfold next; by rewrite Hstep).
  pose proof (step_ver_mono P d _ d' Hn) as Hmono. apply ver_mono_view_le in Hmono as Hle.
  apply next_cases in Hn as [[Hf' _]|[_ (view' & kill' & Hvu & ->)]]; [congruence|].
  assert (Hrok : report_ok (Hf hist) (stamp d r)).
  { unfold report_ok. cbn [stamp rp_infos]. eapply Forall_impl; [exact Hr|]. by intros ci [He _]. }
  pose proof (view_update_inv (Hf hist) _ _ _ _ _ _ Hview Hrok Hvu) as Hview'.
  destruct (report_result_all d (stamp d r) view' kill' Hd) as (E1 & E2 & E3 & E4 & E5 & E6 & E7 & E8).
  split.
  2:{ intros a qs Hl q Hq. destruct (E8 _ _ Hl) as [Ho|Ho]; [right; left|left]; eauto. }
  assert (Hsz : shard_size (report_result d (stamp d r) view' kill') = shard_size d) by (unfold shard_size; by rewrite E3).
  rewrite E4 in Hle.
  split.
  - congruence.
  - done.
  - rewrite Hsz. exact Hhist.
  - intros s Hs. rewrite E4. destruct (li_cover _ _ _ _ _ HI s Hs) as [c Hc]. destruct (Hle _ _ Hc) as (c' & Hc' & _). by eexists.
  - by rewrite E4.
  - unfold hosts_synced. rewrite E6, E4. apply sync_host_update_synced.
    intros a h Ha. by destruct (li_synced _ _ _ _ _ HI a h Ha).
  - intros a fh k lr Ha Hk. apply (rep_ok_mono d); [by rewrite E4|]. eapply li_reps; eauto.
  - intros a fh r0 Ha Hr0. eapply Forall_impl; [eapply li_out; eauto|]. intros ci. apply (info_ok_mono d). by rewrite E4.
  - intros q Hq. apply (req_ok_mono d); [by rewrite E4|exact E3|]. apply (li_reqs _ _ _ _ _ HI).
    destruct Hq as [(a & qs & Hl & Hin)|[(a & qs & Hl & Hin)|Hq]].
    + left. eauto.
    + destruct (E8 _ _ Hl) as [Ho|Ho]; [right; left|left]; eauto.
    + right; right. exact Hq.
  - assert (Hb : ∀ q, in_box (report_result d (stamp d r) view' kill') hosts [] q → in_box d hosts [] q).
    { intros q [(a & qs & Hl & Hin)|[(a & qs & Hl & Hin)|Hq]].
      - left. eauto.
      - destruct (E8 _ _ Hl) as [Ho|Ho]; [right; left|left]; eauto.
      - right; right. exact Hq. }
    intros q q' Hq Hq'. apply (li_adds _ _ _ _ _ HI); by apply Hb.
  - (* the kill list *)
    rewrite E5. intros k Hk. unfold view_update in Hvu.
    destruct (update_entries (d_tick d) (d_view d, []) (rp_infos (stamp d r))) as [[view1 tokill]|] eqn:Eu; [|done].
    injection Hvu as _ <-. apply elem_of_app in Hk as [Hk|Hk].
    + apply elem_of_list_filter in Hk as [_ Hk]. by apply (li_kill _ _ _ _ _ HI).
    + apply elem_of_list_fmap in Hk as (ci & -> & Hci). cbn [k_shard k_replica].
      destruct (update_entries_tokill (Hf hist) _ _ _ _ _ _ Hview Hrok Eu ci Hci) as [Hnil|(Hin & vm & ec & Hvi & Hvm & Hl & Hkr)];
        [by apply elem_of_nil in Hnil|].
      cbn [stamp rp_infos] in Hin. rewrite Forall_forall in Hr. destruct (Hr ci Hin) as (_ & h & c & Hh & Hc & Hb).
      intros h0 Hh0. assert (h0 = h) as -> by congruence.
      destruct (ver_mono_view_le _ _ Hvm _ _ Hc) as (c' & Hc' & Hcc). assert (c' = ec) as -> by congruence.
      destruct (Hvi _ _ Hl) as (_ & HH & _). unfold Hf, hist_of in HH. rewrite Hh in HH. cbn in HH.
      eapply dead_from_born; [apply (Hhist _ _ Hh)|exact Hb|exact Hcc|exact HH|].
      apply is_member_false. rewrite lookup_fmap. unfold kill_required in Hkr.
      destruct (s_cci ec <=? si_cci ci); [done|]. by destruct (s_reps ec !! si_replica ci).
  - exact (li_seen _ _ _ _ _ HI).
Qed.

Lemma step_deliver st st' h lost : LoopInv st → fstep P st (EDeliver h lost) = FOk st' → LoopInv st'.
Proof.
  intros HI. cbn [fstep]. destruct (f_hosts st !! h) as [fh|] eqn:Eh; [|done].
  destruct (fh_up fh); [|done]. destruct (fh_out fh) as [r|] eqn:Er; [|done].
  destruct (db_step P (f_db st) (CReport r)) as [d' v| |] eqn:Es; try done. intros [= <-].
  destruct (deliver_db st r d' v HI (li_out _ _ _ _ _ HI _ _ _ Eh Er) Es) as [HI' Hout].
  unfold LoopInv. cbn [f_db f_hosts f_hist f_seen].
  eapply LI_hosts_frame; [| | |exact HI'].
  - intros a fh0 k lr H0 Hk. destruct (decide (a = h)) as [->|Hne].
    + rewrite lookup_insert in H0. injection H0 as <-. cbn in Hk. eapply (li_reps _ _ _ _ _ HI'); eauto.
    + rewrite lookup_insert_ne in H0 by done. eapply (li_reps _ _ _ _ _ HI'); eauto.
  - intros a fh0 r0 H0 Hr0. destruct (decide (a = h)) as [->|Hne].
    + rewrite lookup_insert in H0. injection H0 as <-. done.
    + rewrite lookup_insert_ne in H0 by done. eapply (li_out _ _ _ _ _ HI'); eauto.
  - intros q [Hq|[Hq|[(a & fh0 & H0 & Hin)|Hq]]]; [by left|by right; left| |by right; right; right].
    destruct (decide (a = h)) as [->|Hne].
    + rewrite lookup_insert in H0. injection H0 as <-. cbn in Hin. apply elem_of_app in Hin as [Hin|Hin].
      * right; right; left. eauto.
      * destruct lost; [by apply elem_of_nil in Hin|]. unfold lookup_requests in Hin.
        destruct (d_outgoing d' !! h) as [qs|] eqn:Eo; [|by apply elem_of_nil in Hin]. cbn in Hin.
        right; left. eauto.
    + rewrite lookup_insert_ne in H0 by done. right; right; left. eauto.
Qed.

Lemma step_deliver_no_panic st h lost : LoopInv st → fstep P st (EDeliver h lost) ≠ FPanic.
Proof.
  intros HI. cbn [fstep]. destruct (f_hosts st !! h) as [fh|] eqn:Eh; [|done].
  destruct (fh_up fh); [|done]. destruct (fh_out fh) as [r|] eqn:Er; [|done].
  unfold db_step. rewrite (li_failed _ _ _ _ _ HI). unfold apply_report.
  destruct (view_update_no_panic (Hf (f_hist st)) (Hf_hist_ok _ _ (li_hist _ _ _ _ _ HI)) (d_view (f_db st)) (d_kill (f_db st))
              (stamp (f_db st) r) (d_tick (f_db st)) (li_view _ _ _ _ _ HI)) as [[view' kill'] ->]; [|done].
  unfold report_ok. cbn [stamp rp_infos]. eapply Forall_impl; [eapply li_out; eauto|]. by intros ci [He _].
Qed.
(** ** a scheduling round *)
Lemma schedule_db st b :
  LoopInv st → allowed P (ctx_of_db (f_db st)) (OBatch b) = true → (∀ x, x ∈ add_ids b → x ∉ f_seen st) →
  db_step P (f_db st) (CRequests b) =
    SOk (set_requests (f_db st) (put_requests (d_requests (f_db st)) b)) (N.of_nat (length b)).
Proof.
  intros HI Ha Hfresh. unfold db_step. rewrite (li_failed _ _ _ _ _ HI).
  assert (Hz : launch_count b = 0%nat).
  { unfold launch_count. apply length_zero_iff_nil, elem_of_nil_inv. intros q Hq.
    apply elem_of_list_filter in Hq as [Hq1 Hq2].
    destruct (sched_batch_ok P _ _ _ _ b HI Ha Hfresh q Hq2) as [_ Hnl]. congruence. }
  destruct (requests_cases P (f_db st) b) as [[[Hm _] _]|[_ [(Hl & _)|[(Hl & _)|(_ & ->)]]]]; [| | |done];
    unfold is_launch_batch in *; lia.
Qed.
Lemma step_schedule st st' o :
  LoopInv st → fresh_ok st (ESchedule o) → fstep P st (ESchedule o) = FOk st' → LoopInv st'.
Proof.
  intros HI Hfr. cbn [fstep]. destruct (allowed P (ctx_of_db (f_db st)) o) eqn:Ha; [|done].
  destruct o as [b| |]; [|by intros [= <-]|by intros [= <-]].
  destruct b as [|q0 b0]; [by intros [= <-]|]. set (b := q0 :: b0) in *.
  destruct Hfr as [Hnd Hfresh].
  rewrite (schedule_db st b HI Ha Hfresh). intros [= <-].
  destruct st as [d hosts hist seen]. unfold LoopInv in *. cbn [f_db f_hosts f_hist f_seen] in *.
  set (seen' := seen ∪ list_to_set (add_ids b)).
  pose proof (sched_batch_ok P d hosts hist seen b HI Ha Hfresh) as Hnew.
  assert (Hbox : ∀ q, in_box (set_requests d (put_requests (d_requests d) b)) hosts [] q → in_box d hosts [] q ∨ q ∈ b).
  { intros q [(a & qs & Hl & Hin)|[Hq|Hq]]; [|left; right; by left|left; right; by right].
    cbn [d_requests set_requests] in Hl. destruct (put_requests_in _ _ _ _ Hl) as [Ho|Ho]; [left; left; eauto|right; eauto]. }
  assert (Hold : ∀ q, in_box d hosts [] q → is_add q = true → ∀ x, q_members q = [x] → x ∈ seen).
  { intros q Hq Hadd x Hx. destruct (li_reqs _ _ _ _ _ HI q Hq) as [_ Hr]. unfold is_add in Hadd.
    destruct (q_type q); try done. destruct Hr as (x' & t & Hm & _ & Hs & _). congruence. }
  assert (Hnewx : ∀ q, q ∈ b → is_add q = true → ∃ x, q_members q = [x] ∧ x ∈ add_ids b).
  { intros q Hq Hadd. destruct (Hnew q Hq) as [[_ Hr] _]. pose proof Hadd as Hadd'. unfold is_add in Hadd.
    destruct (q_type q); try done. destruct Hr as (x & t & Hm & _). exists x. split; [done|].
    unfold add_ids. apply elem_of_list_In, in_concat. exists [x]. split; [|by left].
    apply elem_of_list_In, elem_of_list_fmap. exists q. split; [done|]. by apply elem_of_list_filter. }
  split.
  - exact (li_failed _ _ _ _ _ HI).
  - exact (li_deadline _ _ _ _ _ HI).
  - exact (li_hist _ _ _ _ _ HI).
  - exact (li_cover _ _ _ _ _ HI).
  - exact (li_view _ _ _ _ _ HI).
  - exact (li_synced _ _ _ _ _ HI).
  - exact (li_reps _ _ _ _ _ HI).
  - exact (li_out _ _ _ _ _ HI).
  - intros q Hq. destruct (Hbox q Hq) as [Ho|Hn].
    + apply (req_ok_seen_mono d hist seen); [set_solver|]. by apply (li_reqs _ _ _ _ _ HI).
    + by destruct (Hnew q Hn).
  - intros q q' Hq Hq' Hadd Hadd' Hs Hm.
    destruct (Hbox q Hq) as [Ho|Hn]; destruct (Hbox q' Hq') as [Ho'|Hn'].
    + by apply (li_adds _ _ _ _ _ HI).
    + exfalso. destruct (Hnewx q' Hn' Hadd') as (x & Hx & Hin). apply (Hfresh x Hin). apply (Hold q Ho Hadd). congruence.
    + exfalso. destruct (Hnewx q Hn Hadd) as (x & Hx & Hin). apply (Hfresh x Hin). apply (Hold q' Ho' Hadd'). congruence.
    + destruct (Hnewx q Hn Hadd) as (x & Hx & Hin).
      assert (q = q') as ->; [|done].
      apply (nodup_concat_unique q_members (filter (λ q, is_add q = true) b) Hnd q q' x).
      * by apply elem_of_list_filter.
      * by apply elem_of_list_filter.
      * rewrite Hx. by left.
      * rewrite <- Hm, Hx. by left.
  - exact (li_kill _ _ _ _ _ HI).
  - intros s h rid Hh Hu. apply elem_of_union_l. eapply li_seen; eauto.
Qed.

Lemma step_schedule_no_panic st o :
  LoopInv st → fresh_ok st (ESchedule o) → fstep P st (ESchedule o) ≠ FPanic.
Proof.
  intros HI Hfr. cbn [fstep]. destruct (allowed P (ctx_of_db (f_db st)) o) eqn:Ha; [|done].
  destruct o as [b| |]; [|done|done]. destruct b as [|q0 b0]; [done|]. destruct Hfr as [Hnd Hfresh].
  by rewrite (schedule_db st _ HI Ha Hfresh).
Qed.
(** ** a host executes its queue *)
Lemma exec_start st h fh :
  LoopInv st → f_hosts st !! h = Some fh →
  LI (f_db st) (<[h := mkFHost true (fh_region fh) (fh_reps fh) [] (fh_out fh)]> (f_hosts st)) (f_hist st) (f_seen st) (fh_queue fh).
Proof.
  intros HI Eh. eapply LI_hosts_frame; [| | |exact HI].
  - intros a fh0 k lr H0 Hk. destruct (decide (a = h)) as [->|Hne].
    + rewrite lookup_insert in H0. injection H0 as <-. cbn in Hk. eapply li_reps; eauto.
    + rewrite lookup_insert_ne in H0 by done. eapply li_reps; eauto.
  - intros a fh0 r H0 Hr. destruct (decide (a = h)) as [->|Hne].
    + rewrite lookup_insert in H0. injection H0 as <-. cbn in Hr. eapply li_out; eauto.
    + rewrite lookup_insert_ne in H0 by done. eapply li_out; eauto.
  - intros q [H|[H|[(a & fh0 & H0 & Hin)|H]]]; [by left|by right; left| |].
    + destruct (decide (a = h)) as [->|Hne].
      * rewrite lookup_insert in H0. injection H0 as <-. cbn in Hin. by apply elem_of_nil in Hin.
      * rewrite lookup_insert_ne in H0 by done. right; right; left. eauto.
    + right; right; left. eauto.
Qed.

Lemma step_exec st st' h ccok : LoopInv st → fstep P st (EExec h ccok) = FOk st' → LoopInv st'.
Proof.
  intros HI. cbn [fstep]. destruct (f_hosts st !! h) as [fh|] eqn:Eh; [|done].
  destruct (fh_up fh); [|done].
  destruct (exec_all _ _ _ _) as [x|] eqn:Ex; [|done]. intros [= <-].
  unfold LoopInv. cbn [f_db f_hosts f_hist f_seen].
  eapply exec_all_inv; [|exact Ex]. by apply exec_start.
Qed.

Lemma step_exec_no_panic st h ccok : LoopInv st → fstep P st (EExec h ccok) ≠ FPanic.
Proof.
  intros HI. cbn [fstep]. destruct (f_hosts st !! h) as [fh|] eqn:Eh; [|done].
  destruct (fh_up fh); [|done].
  destruct (exec_all _ _ _ _) as [x|] eqn:Ex; [done|].
  exfalso. eapply exec_all_no_panic; [|exact Ex]. by apply exec_start.
Qed.
End Steps.

(** * Part 3: all events, executions, consequences *)
Section Main.
Variable P : params.

Theorem step_inv st ev st' : LoopInv st → fresh_ok st ev → fstep P st ev = FOk st' → LoopInv st'.
Proof.
  intros HI Hfr Hs. destruct ev as [|h plog|h lost|o|h ccok|h|h|h s r v].
  - by eapply step_tick.
  - by eapply step_snap.
  - by eapply step_deliver.
  - by eapply step_schedule.
  - by eapply step_exec.
  - by eapply step_crash.
  - by eapply step_restart.
  - by eapply step_learn.
Qed.

Theorem step_no_panic st ev : LoopInv st → fresh_ok st ev → fstep P st ev ≠ FPanic.
Proof.
  intros HI Hfr. destruct ev as [|h plog|h lost|o|h ccok|h|h|h s r v].
  - by apply step_tick_no_panic.
  - cbn. destruct (f_hosts st !! h) as [fh|]; [|done]. by destruct (fh_up fh).
  - by apply step_deliver_no_panic.
  - by apply step_schedule_no_panic.
  - by apply step_exec_no_panic.
  - cbn. destruct (f_hosts st !! h) as [fh|]; [|done]. by destruct (fh_up fh).
  - cbn. destruct (f_hosts st !! h) as [fh|]; [|done]. by destruct (fh_up fh).
  - cbn. destruct (f_hosts st !! h) as [fh|]; [|done]. destruct (fh_reps fh !! (s, r)); [|done]. by destruct (_ && _ && _ && _).
Qed.

(** the [fresh_id] hypothesis along an execution (events that are not enabled are skipped, as in [steps]) *)
Fixpoint fresh_run (st : fstate) (evs : list event) : Prop :=
  match evs with
  | [] => True
  | ev :: evs' =>
    fresh_ok st ev ∧
    match fstep P st ev with
    | FOk st' => fresh_run st' evs'
    | FDisabled => fresh_run st evs'
    | FPanic => True
    end
  end.

Theorem run_inv evs : ∀ st, LoopInv st → fresh_run st evs → ∃ st', steps P st evs = Some st' ∧ LoopInv st'.
Proof.
  induction evs as [|ev evs IH]; intros st HI Hfr; cbn [steps]; [by exists st|].
  destruct Hfr as [Hf1 Hfr]. pose proof (step_no_panic st ev HI Hf1) as Hnp.
  destruct (fstep P st ev) as [st1| |] eqn:E; [|by apply IH|done].
  apply IH; [|done]. by eapply step_inv.
Qed.
End Main.

(** ** the state the loop starts from: the initial launch has completed *)
Record init_ok (st : fstate) : Prop := mkInitOk {
  io_failed : d_failed (f_db st) = false;
  io_deadline : d_deadline (f_db st) = 0;
  io_defined : ∀ s, is_Some (d_shards (f_db st) !! s) → is_Some (f_hist st !! s);
  io_shards : ∀ s h, f_hist st !! s = Some h →
    ∃ sd e c, d_shards (f_db st) !! s = Some sd ∧ h = [e] ∧ d_view (f_db st) !! s = Some c ∧
              s_cci c = e.1 ∧ r_addr <$> s_reps c = e.2 ∧ mem_ok (length (sd_members sd)) e.2 ∧
              ∀ rid, is_member e.2 rid = true → rid ∈ f_seen st;
  io_view : ∀ s c, d_view (f_db st) !! s = Some c →
    is_Some (f_hist st !! s) ∧ s_id c = s ∧ ∀ rid n, s_reps c !! rid = Some n → r_id n = rid ∧ r_shard n = s;
  io_synced : hosts_synced (f_db st);
  io_reps : ∀ a fh k lr, f_hosts st !! a = Some fh → fh_reps fh !! k = Some lr →
    ∃ e, f_hist st !! k.1 = Some [e] ∧ is_member e.2 k.2 = true ∧ lr_ver lr = e.1;
  io_quiet : ∀ a fh, f_hosts st !! a = Some fh → fh_queue fh = [] ∧ fh_out fh = None;
  io_boxes : d_requests (f_db st) = ∅ ∧ d_outgoing (f_db st) = ∅ ∧ d_kill (f_db st) = [] }.

Theorem init_inv st : init_ok st → LoopInv st.
Proof.
  intros [Hfl Hd Hdef Hsh Hview Hsync Hreps Hquiet (Hrq & Hout & Hkill)].
  assert (Hnobox : ∀ q, ¬ in_box (f_db st) (f_hosts st) [] q).
  { intros q [(a & qs & Hl & _)|[(a & qs & Hl & _)|[(a & fh & Ha & Hin)|Hin]]].
    - rewrite Hrq in Hl. by rewrite lookup_empty in Hl.
    - rewrite Hout in Hl. by rewrite lookup_empty in Hl.
    - destruct (Hquiet _ _ Ha) as [Hq _]. rewrite Hq in Hin. by apply elem_of_nil in Hin.
    - by apply elem_of_nil in Hin. }
  split.
  - done.
  - done.
  - intros s h Hs. destruct (Hsh s h Hs) as (sd & e & c & Hsd & -> & _ & _ & _ & Hm & _).
    destruct e as [v M]. apply hw_init. unfold shard_size. by rewrite Hsd.
  - intros s [h Hs]. destruct (Hsh s h Hs) as (sd & e & c & _ & _ & Hc & _). by eexists.
  - intros s c Hc. destruct (Hview s c Hc) as ([h Hs] & Hid & Hids).
    destruct (Hsh s h Hs) as (sd & e & c' & _ & -> & Hc' & Hcci & Haddr & _). assert (c' = c) as -> by congruence.
    split; [done|]. split; [|done]. unfold Hf, hist_of. rewrite Hs. cbn. rewrite Hcci, N.eqb_refl. by rewrite Haddr.
  - done.
  - intros a fh k lr Ha Hk. destruct (Hreps a fh k lr Ha Hk) as (e & Hs & Hm & Hver).
    destruct (Hsh _ _ Hs) as (sd & e' & c & _ & [= <-] & Hc & Hcci & _).
    exists [e], c. split; [done|]. split; [done|]. split.
    + right. rewrite Hver. cbn. rewrite N.eqb_refl. by eexists.
    + exists e.1, e.2. cbn. rewrite N.eqb_refl. split; [done|]. split; [done|]. lia.
  - intros a fh r Ha Hr. destruct (Hquiet _ _ Ha) as [_ Ho]. congruence.
  - intros q Hq. by destruct (Hnobox q).
  - intros q q' Hq. by destruct (Hnobox q).
  - intros k Hk. rewrite Hkill in Hk. by apply elem_of_nil in Hk.
  - intros s h rid Hs Hu. destruct (Hsh s h Hs) as (sd & e & c & _ & -> & _ & _ & _ & _ & Hseen).
    apply Hseen. unfold used_in in Hu. cbn in Hu. by rewrite orb_false_r in Hu.
Qed.

(** ** consequences (C02 / C11, closed loop) *)
Lemma inv_surplus st s h e :
  LoopInv st → f_hist st !! s = Some h → e ∈ h →
  (shard_size (f_db st) s ≤ size e.2 ∧ size e.2 ≤ shard_size (f_db st) s + 1)%nat.
Proof. intros HI Hs He. by destruct (hist_wf_mem_ok _ _ (li_hist _ _ _ _ _ HI s h Hs) e He) as [Hsz _]. Qed.

Lemma inv_no_colocation st s h e r1 r2 a :
  LoopInv st → f_hist st !! s = Some h → e ∈ h → e.2 !! r1 = Some a → e.2 !! r2 = Some a → r1 = r2.
Proof. intros HI Hs He. destruct (hist_wf_mem_ok _ _ (li_hist _ _ _ _ _ HI s h Hs) e He) as [_ Hinj]. apply Hinj. Qed.

Definition boxed (st : fstate) (q : request) : Prop := in_box (f_db st) (f_hosts st) [] q.

Lemma inv_never_member st q y :
  LoopInv st → boxed st q → is_kill q = true → y ∈ q_members q →
  is_member (cur_members (hist_of (f_hist st) (q_shard q))) y = false.
Proof.
  intros HI Hq Hk Hy. destruct (li_reqs _ _ _ _ _ HI q Hq) as [_ Hr]. unfold is_kill in Hk.
  destruct (q_type q); try done. destruct Hr as (y' & Hm & Hd). rewrite Hm in Hy. apply elem_of_list_singleton in Hy as ->.
  unfold hist_of. destruct (f_hist st !! q_shard q) as [h|] eqn:E; [|done]. cbn. by destruct (Hd h E).
Qed.

Lemma inv_kill_list st k :
  LoopInv st → k ∈ d_kill (f_db st) → is_member (cur_members (hist_of (f_hist st) (k_shard k))) (k_replica k) = false.
Proof.
  intros HI Hk. pose proof (li_kill _ _ _ _ _ HI k Hk) as Hd.
  unfold hist_of. destruct (f_hist st !! k_shard k) as [h|] eqn:E; [|done]. cbn. by destruct (Hd h E).
Qed.

(** ** the fence: a membership change computed from an older membership has no effect *)
Lemma fence_effect h ccok hosts hist q :
  (is_add q = true ∨ is_delete q = true) → q_ccid q ≠ cur_version (hist_of hist (q_shard q)) →
  exec_req h ccok (hosts, hist) q = Some (hosts, hist) ∨ exec_req h ccok (hosts, hist) q = None.
Proof.
  intros Hty Hne. unfold exec_req. cbn [fst snd]. destruct (hosts !! h) as [fh|]; [|by left].
  remember (hist_of hist (q_shard q)) as hs eqn:E.
  assert (Hcc : ∀ e hs0 M, hs = e :: hs0 → cc_ready ccok hosts (fh_reps fh) (q_shard q) e.1 M (q_ccid q) = false).
  { intros e hs0 M ->. unfold cc_ready. cbn in Hne. apply N.eqb_neq in Hne. rewrite Hne. by rewrite andb_false_r. }
  unfold is_add, is_delete in Hty. destruct (q_type q); try (by destruct Hty).
  - destruct (q_members q) as [|rid ?]; [by right|]. left.
    destruct hs as [|e hs0]; [done|]. by rewrite (Hcc e hs0).
  - destruct (q_members q) as [|rid ?]; [by right|]. destruct (q_addrs q) as [|t ?]; [by right|]. left.
    destruct hs as [|e hs0]; [done|]. by rewrite (Hcc e hs0).
Qed.

(** ** the boolean form of [init_ok] evaluated on every replayed run (FleetRun.init_okb) is sound *)
Lemma forallb_map_to_list {K A} `{Countable K} (f : K * A → bool) (m : gmap K A) :
  forallb f (map_to_list m) = true → ∀ k x, m !! k = Some x → f (k, x) = true.
Proof.
  intros Hall k x Hk. rewrite forallb_forall in Hall. apply Hall. apply elem_of_list_In. by apply elem_of_map_to_list.
Qed.

Lemma NoDup_snd_inj (M : gmap N N) r1 r2 a :
  NoDup ((map_to_list M).*2) → M !! r1 = Some a → M !! r2 = Some a → r1 = r2.
Proof.
  intros Hnd H1 H2. apply elem_of_map_to_list in H1, H2.
  assert (Hgen : ∀ l : list (N * N), NoDup (l.*2) → (r1, a) ∈ l → (r2, a) ∈ l → r1 = r2).
  { clear. intros l. induction l as [|[k b] l IH]; intros Hnd H1 H2; [by apply elem_of_nil in H1|].
    cbn in Hnd. apply NoDup_cons in Hnd as [Hnotin Hnd].
    apply elem_of_cons in H1 as [E1|H1]; apply elem_of_cons in H2 as [E2|H2].
    - congruence.
    - injection E1 as -> ->. exfalso. apply Hnotin. apply elem_of_list_fmap. by exists (r2, b).
    - injection E2 as -> ->. exfalso. apply Hnotin. apply elem_of_list_fmap. by exists (r1, b).
    - by apply IH. }
  by apply (Hgen (map_to_list M)).
Qed.

Lemma entry_okb_sound n M : entry_okb n M = true → mem_ok n M.
Proof.
  unfold entry_okb. intros H. apply andb_true_iff in H as [H H3]. apply andb_true_iff in H as [H1 H2].
  apply bool_decide_eq_true in H1, H2, H3. split; [lia|]. intros r1 r2 a. by apply NoDup_snd_inj.
Qed.

Theorem init_okb_sound st : init_okb st = true → init_ok st.
Proof.
  unfold init_okb. intros H.
  repeat (apply andb_true_iff in H as [H ?]).
  rename H0 into Hkill, H1 into Hout, H2 into Hreq, H3 into Hhosts, H4 into Hsync, H5 into Hview, H6 into Hsh, H7 into Hdef, H8 into Hdl.
  apply negb_true_iff in H. apply N.eqb_eq in Hdl. apply bool_decide_eq_true in Hkill, Hout, Hreq.
  split; try done.
  - intros s [sd Hs]. pose proof (forallb_map_to_list _ _ Hdef s sd Hs) as Hx. by apply bool_decide_eq_true in Hx.
  - intros s h Hs. pose proof (forallb_map_to_list _ _ Hsh s h Hs) as Hx. cbn [fst snd] in Hx.
    destruct h as [|e [|? ?]]; try done. destruct (d_shards (f_db st) !! s) as [sd|]; [|done].
    destruct (d_view (f_db st) !! s) as [c|]; [|done].
    repeat (apply andb_true_iff in Hx as [Hx ?]). apply N.eqb_eq in Hx. apply bool_decide_eq_true in H2.
    exists sd, e, c. split; [done|]. split; [done|]. split; [done|]. split; [done|]. split; [done|].
    split; [by apply entry_okb_sound|].
    intros rid Hm. apply is_member_true in Hm as [a Ha].
    pose proof (forallb_map_to_list _ _ H0 rid a Ha) as Hy. by apply bool_decide_eq_true in Hy.
  - intros s c Hc. pose proof (forallb_map_to_list _ _ Hview s c Hc) as Hx. cbn [fst snd] in Hx.
    repeat (apply andb_true_iff in Hx as [Hx ?]). apply bool_decide_eq_true in Hx. apply N.eqb_eq in H1.
    split; [done|]. split; [done|]. intros rid n Hn. pose proof (forallb_map_to_list _ _ H0 rid n Hn) as Hy. cbn in Hy.
    apply andb_true_iff in Hy as [Hy1 Hy2]. apply N.eqb_eq in Hy1, Hy2. done.
  - intros a h Ha. pose proof (forallb_map_to_list _ _ Hsync a h Ha) as Hx. cbn [fst snd] in Hx.
    apply andb_true_iff in Hx as [Hx1 Hx2]. apply N.eqb_eq in Hx1. split; [done|].
    intros s c Hc Hin. pose proof (forallb_map_to_list _ _ Hx2 s c Hc) as Hy. cbn in Hy.
    apply orb_true_iff in Hy as [Hy|Hy]; [|by apply bool_decide_eq_true in Hy].
    apply negb_true_iff, bool_decide_eq_false in Hy. done.
  - intros a fh k lr Ha Hk. pose proof (forallb_map_to_list _ _ Hhosts a fh Ha) as Hx. cbn [fst snd] in Hx.
    repeat (apply andb_true_iff in Hx as [Hx ?]).
    pose proof (forallb_map_to_list _ _ Hx k lr Hk) as Hy. cbn [fst snd] in Hy.
    destruct (f_hist st !! k.1) as [[|e [|? ?]]|]; try done. apply andb_true_iff in Hy as [Hy1 Hy2]. apply N.eqb_eq in Hy2.
    by exists e.
  - intros a fh Ha. pose proof (forallb_map_to_list _ _ Hhosts a fh Ha) as Hx. cbn [fst snd] in Hx.
    repeat (apply andb_true_iff in Hx as [Hx ?]). apply bool_decide_eq_true in H0, H1. done.
Qed.

(** ** ticks_ordered: every stored report time is at most the DB's logical time (no underflow in the
    failure detector), along every execution; needs no other invariant (DBTimeProofs.step_time_ok) *)
Lemma fstep_time_ok P st ev st' : fstep P st ev = FOk st' → time_ok (f_db st) → time_ok (f_db st').
Proof.
  assert (Hdb : ∀ d c d' v, db_step P d c = SOk d' v → time_ok d → time_ok d').
  { intros d c d' v Hs. apply (step_time_ok P d c d'). unfold next. by rewrite Hs. }
  destruct ev as [|h plog|h lost|o|h ccok|h|h|h s r v]; cbn [fstep].
  - destruct (db_step P (f_db st) CTick) as [d' v| |] eqn:E; try done. intros [= <-]. cbn. by eapply Hdb.
  - destruct (f_hosts st !! h) as [fh|]; [|done]. destruct (fh_up fh); [|done]. by intros [= <-].
  - destruct (f_hosts st !! h) as [fh|]; [|done]. destruct (fh_up fh); [|done]. destruct (fh_out fh) as [r|]; [|done].
    destruct (db_step P (f_db st) (CReport r)) as [d' v| |] eqn:E; try done. intros [= <-]. cbn. by eapply Hdb.
  - destruct (allowed P (ctx_of_db (f_db st)) o); [|done]. destruct o as [b| |]; [|by intros [= <-]|by intros [= <-]].
    destruct b as [|q0 b0]; [by intros [= <-]|].
    destruct (db_step P (f_db st) (CRequests (q0 :: b0))) as [d' v| |] eqn:E; try done. intros [= <-]. cbn. by eapply Hdb.
  - destruct (f_hosts st !! h) as [fh|]; [|done]. destruct (fh_up fh); [|done].
    destruct (exec_all _ _ _ _) as [x|]; [|done]. by intros [= <-].
  - destruct (f_hosts st !! h) as [fh|]; [|done]. destruct (fh_up fh); [|done]. by intros [= <-].
  - destruct (f_hosts st !! h) as [fh|]; [|done]. destruct (fh_up fh); [done|]. by intros [= <-].
  - destruct (f_hosts st !! h) as [fh|]; [|done]. destruct (fh_reps fh !! (s, r)); [|done].
    destruct (_ && _ && _ && _); [|done]. by intros [= <-].
Qed.

Theorem run_time_ok P evs : ∀ st st', time_ok (f_db st) → steps P st evs = Some st' → time_ok (f_db st').
Proof.
  induction evs as [|ev evs IH]; intros st st' Ht; cbn [steps]; [by intros [= <-]|].
  destruct (fstep P st ev) as [st1| |] eqn:E; [|by apply IH|done].
  apply IH. by eapply fstep_time_ok.
Qed.

(** * Part 4: what a scheduling round does (decision level, any scheduler context) *)
Section Rounds.
Context (P : params) (C : sctx).

Lemma has_restore_nil c : has_restore P C c = false ↔ restore_set P C c = [].
Proof. unfold has_restore. destruct (restore_set P C c); split; intros H; done. Qed.

(* level-triggered: every view entry that needs work gets its request in EVERY allowed batch *)
Lemma round_acts b c :
  allowed P C (OBatch b) = true → c ∈ entries C →
  (has_restore P C c = true ∨ repair_action P C c ≠ ANone) →
  ∃ q, q ∈ b ∧ q_shard q = s_id c ∧ is_kill q = false.
Proof.
  cbn [allowed]. intros Ha Hc Hneed. apply andb_true_iff in Ha as [Hpre _].
  unfold pre_allowed in Hpre. set (npre := (length b - length (kills C))%nat) in *.
  repeat (apply andb_true_iff in Hpre as [Hpre ?]).
  rename H into Hgroups, H3 into Hnokill.
  rewrite forallb_forall in Hgroups. pose proof (Hgroups c) as Hg. rewrite <- elem_of_list_In in Hg. specialize (Hg Hc).
  assert (Hne : group_of c (take npre b) ≠ []).
  { intros Hnil. rewrite Hnil in Hg. unfold group_allowed in Hg. destruct (has_restore P C c) eqn:Hr.
    - destruct (c_defs C !! s_id c); [|done]. unfold restore_group_ok in Hg. apply bool_decide_eq_true in Hg as [Hperm _].
      cbn in Hperm. symmetry in Hperm. apply Permutation_nil_r in Hperm. apply fmap_nil_inv in Hperm.
      apply has_restore_nil in Hperm. congruence.
    - destruct Hneed as [?|Hact]; [done|]. destruct (repair_action P C c); done. }
  destruct (group_of c (take npre b)) as [|q g] eqn:Eg; [done|].
  assert (Hq : q ∈ group_of c (take npre b)) by (rewrite Eg; left).
  unfold group_of in Hq. apply elem_of_list_filter in Hq as [Hs Hq].
  exists q. split; [|split; [done|]].
  - rewrite <- (take_drop npre b). apply elem_of_app. by left.
  - rewrite forallb_forall in Hnokill. pose proof (Hnokill q) as Hk. rewrite <- elem_of_list_In in Hk.
    specialize (Hk Hq). by apply negb_true_iff in Hk.
Qed.

(* quiescence: when Drummer's view shows every member healthy and the kill list is empty, the one and only
   allowed outcome of a round is the empty batch *)
Definition view_healthy : Prop :=
  c_kill C = [] ∧ ∀ c, c ∈ entries C → n_failed P C c = 0%nat ∧ n_wait P C c = 0%nat.

Lemma healthy_entry c : view_healthy → c ∈ entries C → has_restore P C c = false ∧ repair_action P C c = ANone.
Proof.
  intros [_ Hall] Hc. destruct (Hall c Hc) as [Hf Hw]. split.
  - apply has_restore_nil.
    assert (Hnil : sr_failed P C c = []) by (by apply length_zero_iff_nil).
    unfold restore_set, restorable. rewrite Hnil. cbn. by destruct (need_restore P C c); [destruct (bool_decide _)|].
  - unfold repair_action, in_repair. rewrite Hf, Hw. by rewrite !bool_decide_eq_true_2.
Qed.

Lemma quiescent_round o : view_healthy → allowed P C o = true → o = OBatch [].
Proof.
  intros Hh Ha. pose proof Hh as [Hk Hall].
  assert (Hkills : kills C = []) by (unfold kills; by rewrite Hk).
  destruct o as [b| |]; cbn [allowed] in Ha.
  - f_equal. apply andb_true_iff in Ha as [Hpre _]. unfold pre_allowed in Hpre. rewrite Hkills in Hpre. cbn [length] in Hpre.
    rewrite Nat.sub_0_r, firstn_all, drop_all in Hpre.
    repeat (apply andb_true_iff in Hpre as [Hpre ?]).
    rename H into Hgroups, H2 into Hshards. apply bool_decide_eq_true in Hshards.
    destruct b as [|q b]; [done|]. exfalso.
    rewrite Forall_forall in Hshards. pose proof (Hshards q) as Hs. specialize (Hs ltac:(left)).
    apply elem_of_list_fmap in Hs as (c & Hsc & Hc).
    rewrite forallb_forall in Hgroups. pose proof (Hgroups c) as Hg. rewrite <- elem_of_list_In in Hg. specialize (Hg Hc).
    destruct (healthy_entry c Hh Hc) as [Hr Hact]. unfold group_allowed in Hg. rewrite Hr, Hact in Hg.
    apply bool_decide_eq_true in Hg. unfold group_of in Hg.
    assert (q ∈ filter (λ q0, q_shard q0 = s_id c) (q :: b)) as Hin by (apply elem_of_list_filter; split; [done|left]).
    rewrite Hg in Hin. by apply elem_of_nil in Hin.
  - exfalso. apply andb_true_iff in Ha as [_ Ha]. rewrite existsb_exists in Ha. destruct Ha as (c & Hc & He).
    apply elem_of_list_In in Hc. destruct (healthy_entry c Hh Hc) as [_ Hact]. unfold err_entry in He. by rewrite Hact in He.
  - exfalso. apply orb_true_iff in Ha as [Ha|Ha]; [apply orb_true_iff in Ha as [Ha|Ha]|].
    + unfold restore_crash in Ha. rewrite existsb_exists in Ha. destruct Ha as (c & Hc & He).
      apply elem_of_list_In in Hc. destruct (healthy_entry c Hh Hc) as [Hr _]. by rewrite Hr in He.
    + rewrite existsb_exists in Ha. destruct Ha as (c & Hc & He).
      apply elem_of_list_In in Hc. destruct (healthy_entry c Hh Hc) as [_ Hact]. unfold crash_entry in He. by rewrite Hact in He.
    + apply andb_true_iff in Ha as [_ Ha]. unfold may_invalid in Ha. rewrite Hkills in Ha. cbn [existsb orb] in Ha.
      rewrite existsb_exists in Ha. destruct Ha as (c & Hc & He).
      apply elem_of_list_In in Hc. destruct (healthy_entry c Hh Hc) as [Hr Hact]. unfold entry_may_invalid in He.
      by rewrite Hr, Hact in He.
Qed.
End Rounds.

(* in the closed loop: a round in such a state issues no request and changes nothing *)
Lemma quiescent_step P st o st' :
  view_healthy P (ctx_of_db (f_db st)) → fstep P st (ESchedule o) = FOk st' → o = OBatch [] ∧ st' = st.
Proof.
  intros Hh. cbn [fstep]. destruct (allowed P (ctx_of_db (f_db st)) o) eqn:Ha; [|done].
  apply (quiescent_round P _ o Hh) in Ha as ->. by intros [= <-].
Qed.
