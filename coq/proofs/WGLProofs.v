(** WGLProofs: the WGL search of theories/WGL.v decides linearizability (C06).

    Structure (DESIGN.md Appendix H.1)
    - head lemmas: a non-empty well-formed history is linearizable from [st] iff
      some call [i] in front of the first return can be stepped and the history
      with [i] lifted is linearizable from the new state ([head_sound], [head_complete]);
    - [search_sound]: a [true] verdict yields a linearization (the cache plays no role);
    - [search_complete]: a [false] verdict means no linearization exists. Invariant
      [CI]: every cached configuration (S, st) is dead (the remaining history
      [rem S] is not linearizable from [st]) or S is included in the current
      linearized set, i.e. it belongs to an ancestor on the recursion path; a cache
      hit is on a strictly larger set, hence dead;
    - renumbering: [renumber h = rename g h] for a [g] injective on the ids of [h];
      [renumber (rename f h) = renumber h] for injective [f]. *)
From Drummer.Model Require Import Base Register WGL.
From Drummer.Proofs Require Import RegisterProofs.
From Coq Require Import ZArith Permutation.

Local Notation callsP := (Forall (fun e => is_call e = true)).

(** * lift *)

Lemma call_ids_filter : forall (p : N -> bool) l,
  call_ids (filter (fun e => p (ev_id e)) l) = filter p (call_ids l).
Proof.
  intros p. induction l as [|e l IH]; simpl; [reflexivity|].
  destruct e as [id i | id o]; simpl; destruct (p id); simpl; rewrite IH; reflexivity.
Qed.

Lemma ret_ids_filter : forall (p : N -> bool) l,
  ret_ids (filter (fun e => p (ev_id e)) l) = filter p (ret_ids l).
Proof.
  intros p. induction l as [|e l IH]; simpl; [reflexivity|].
  destruct e as [id i | id o]; simpl; destruct (p id); simpl; rewrite IH; reflexivity.
Qed.

Lemma wf_filter : forall (p : N -> bool) l, wf l -> wf (filter (fun e => p (ev_id e)) l).
Proof.
  intros p l [H1 [H2 [H3 H4]]]. unfold wf. rewrite call_ids_filter, ret_ids_filter. repeat split.
  - apply NoDup_filter. exact H1.
  - apply NoDup_filter. exact H2.
  - intros id Hid. apply filter_In in Hid. destruct Hid as [Hid Hp]. apply filter_In. split; auto.
  - intros h1 id o h2 E.
    assert (Hp : p id = true).
    { assert (Hin : In (Ret id o) (filter (fun e => p (ev_id e)) l)) by (rewrite E; apply in_elt).
      apply filter_In in Hin. exact (proj2 Hin). }
    apply filter_split in E. destruct E as [l1 [l2 [E [F1 F2]]]]. subst h1.
    rewrite call_ids_filter. apply filter_In. split; [|exact Hp]. eapply H4. exact E.
Qed.

Lemma lift_pred : forall id l, lift id l = filter (fun e => (fun j => negb (j =? id)) (ev_id e)) l.
Proof. reflexivity. Qed.

Lemma wf_lift : forall id l, wf l -> wf (lift id l).
Proof. intros id l H. exact (wf_filter (fun j => negb (j =? id)) l H). Qed.

Lemma call_ids_lift : forall id l, call_ids (lift id l) = filter (fun j => negb (j =? id)) (call_ids l).
Proof. intros id l. exact (call_ids_filter (fun j => negb (j =? id)) l). Qed.

Lemma In_call_ids_lift : forall id l j, In j (call_ids (lift id l)) <-> In j (call_ids l) /\ j <> id.
Proof.
  intros id l j. rewrite call_ids_lift, filter_In, negb_true_iff, N.eqb_neq. reflexivity.
Qed.

Lemma call_of_lift : forall id l j, j <> id -> call_of (lift id l) j = call_of l j.
Proof.
  intros id. induction l as [|e l IH]; intros j Hj; simpl; [reflexivity|].
  destruct e as [id' i' | id' o']; simpl.
  - destruct (N.eqb_spec id' id) as [E | NE]; simpl.
    + subst id'. destruct (N.eqb_spec id j) as [E | NE]; [congruence | apply IH; exact Hj].
    + rewrite IH by exact Hj. reflexivity.
  - destruct (N.eqb_spec id' id) as [E | NE]; simpl; apply IH; exact Hj.
Qed.

Lemma ret_of_lift : forall id l j, j <> id -> ret_of (lift id l) j = ret_of l j.
Proof.
  intros id. induction l as [|e l IH]; intros j Hj; simpl; [reflexivity|].
  destruct e as [id' i' | id' o']; simpl.
  - destruct (N.eqb_spec id' id) as [E | NE]; simpl; apply IH; exact Hj.
  - destruct (N.eqb_spec id' id) as [E | NE]; simpl.
    + subst id'. destruct (N.eqb_spec id j) as [E | NE]; [congruence | apply IH; exact Hj].
    + rewrite IH by exact Hj. reflexivity.
Qed.

Lemma accepts_lift : forall id l sigma st, ~ In id sigma -> accepts (lift id l) st sigma = accepts l st sigma.
Proof.
  intros id l. induction sigma as [|j sigma IH]; intros st Hn; simpl; [reflexivity|].
  assert (Hj : j <> id) by (intro E; apply Hn; simpl; auto).
  rewrite call_of_lift, ret_of_lift by exact Hj.
  destruct (call_of l j) as [i|]; [|reflexivity].
  destruct (ret_of l j) as [o|]; [|reflexivity].
  destruct (step st i o) as [ok st']. rewrite IH; [reflexivity|].
  intro Hin. apply Hn. simpl. auto.
Qed.

Lemma precedes_lift : forall id l a b, precedes (lift id l) a b <-> precedes l a b /\ a <> id /\ b <> id.
Proof.
  intros id l a b. unfold precedes. split.
  - intros [o [i H]]. unfold lift in H. apply ob_filter in H. simpl in H. destruct H as [H [Ha Hb]].
    apply negb_true_iff, N.eqb_neq in Ha. apply negb_true_iff, N.eqb_neq in Hb.
    repeat split; auto. exists o, i. exact H.
  - intros [[o [i H]] [Ha Hb]]. exists o, i. unfold lift. apply ob_filter. simpl.
    repeat split; [exact H | |]; apply negb_true_iff, N.eqb_neq; assumption.
Qed.

Lemma perm_remove : forall (id : N) cs, NoDup cs -> In id cs ->
  Permutation (id :: filter (fun j => negb (j =? id)) cs) cs.
Proof.
  intros id. induction cs as [|x cs IH]; intros Hnd Hin; simpl in *.
  - contradiction.
  - inversion Hnd as [|? ? Hx Hcs]; subst. destruct (N.eqb_spec x id) as [E | NE]; simpl.
    + subst x. apply perm_skip.
      assert (Hf : filter (fun j => negb (j =? id)) cs = cs).
      { clear IH Hnd Hin Hcs. induction cs as [|y cs IH]; simpl; [reflexivity|].
        destruct (N.eqb_spec y id) as [E | NE]; simpl.
        - subst y. exfalso. apply Hx. simpl. auto.
        - rewrite IH; [reflexivity|]. intro H. apply Hx. simpl. auto. }
      rewrite Hf. apply Permutation_refl.
    + destruct Hin as [E | Hin]; [congruence|].
      eapply perm_trans; [apply perm_swap|]. apply perm_skip. apply IH; assumption.
Qed.

(** * candidates: calls in front of the first return *)

Lemma cand_call_of : forall pre id i rest,
  NoDup (call_ids (pre ++ Call id i :: rest)) -> call_of (pre ++ Call id i :: rest) id = Some i.
Proof.
  induction pre as [|e pre IH]; intros id i rest Hnd; simpl in *.
  - rewrite N.eqb_refl. reflexivity.
  - destruct e as [id' i' | id' o']; simpl in *.
    + inversion Hnd as [|? ? Hx Hl]; subst. destruct (N.eqb_spec id' id) as [E | NE].
      * subst id'. exfalso. apply Hx. rewrite call_ids_app. apply in_or_app. right. simpl. auto.
      * apply IH. exact Hl.
    + apply IH. exact Hnd.
Qed.

Lemma cand_ret_of : forall pre id i rest,
  callsP pre -> ret_of (pre ++ Call id i :: rest) id = ret_of rest id.
Proof.
  induction pre as [|e pre IH]; intros id i rest Hc; simpl.
  - reflexivity.
  - inversion Hc as [|? ? He Hpre]; subst. destruct e as [id' i' | id' o']; simpl in *.
    + apply IH. exact Hpre.
    + discriminate He.
Qed.

Lemma cand_not_preceded : forall pre id i rest a,
  callsP pre -> NoDup (call_ids (pre ++ Call id i :: rest)) -> ~ precedes (pre ++ Call id i :: rest) a id.
Proof.
  induction pre as [|e pre IH]; intros id i rest a Hc Hnd [o [i' H]]; simpl in *.
  - apply ob_cons in H. destruct H as [[E _] | H]; [discriminate E|].
    apply ob_In in H. destruct H as [_ H]. inversion Hnd as [|? ? Hx Hl]; subst.
    apply Hx. apply In_call_ids. exists i'. exact H.
  - inversion Hc as [|? ? He Hpre]; subst. destruct e as [id' x | id' x]; [|discriminate He].
    apply ob_cons in H. destruct H as [[E _] | H]; [discriminate E|].
    simpl in Hnd. inversion Hnd as [|? ? Hx Hl]; subst.
    apply (IH id i rest a Hpre Hl). exists o, i'. exact H.
Qed.

(* the maximal call prefix contains every call that has only calls in front of it *)
Lemma cand_in_prefix : forall p c q x r,
  p ++ c = q ++ x :: r -> callsP q -> is_call x = true ->
  (c = [] \/ exists id o c', c = Ret id o :: c') -> In x p.
Proof.
  induction p as [|a p IH]; intros c q x r E Hq Hx Hc; simpl in E.
  - exfalso. destruct Hc as [Hc | [id [o [c' Hc]]]]; rewrite Hc in E.
    + destruct q; discriminate E.
    + destruct q as [|b q]; simpl in E; injection E as E0 E1.
      * subst x. discriminate Hx.
      * subst b. inversion Hq as [|? ? Hb _]. discriminate Hb.
  - destruct q as [|b q]; simpl in E; injection E as E0 E1.
    + left. exact E0.
    + right. inversion Hq as [|? ? _ Hq']; subst. apply (IH c q x r E1 Hq' Hx Hc).
Qed.

(** * The head lemmas *)

Lemma lin_nil : forall st, linearizable_from [] st.
Proof.
  intros st. exists []. repeat split.
  - apply perm_nil.
  - intros a b [o [i H]]. destruct (ob_nil _ _ H).
Qed.

Lemma head_sound : forall l st pre id i rest o st',
  NoDup (call_ids l) -> l = pre ++ Call id i :: rest -> callsP pre ->
  ret_of rest id = Some o -> step st i o = (true, st') ->
  linearizable_from (lift id l) st' -> linearizable_from l st.
Proof.
  intros l st pre id i rest o st' Hnd El Hpre Hret Hstep [sigma [Hperm [Hprec Hacc]]].
  assert (Hid : In id (call_ids l)).
  { subst l. rewrite call_ids_app. apply in_or_app. right. simpl. auto. }
  assert (Hnot : ~ In id sigma).
  { intro Hin. apply (Permutation_in _ Hperm) in Hin. apply In_call_ids_lift in Hin. destruct Hin as [_ Hne]. congruence. }
  exists (id :: sigma). repeat split.
  - eapply perm_trans; [apply perm_skip; exact Hperm|]. rewrite call_ids_lift. apply perm_remove; assumption.
  - intros a b Hp. unfold before. apply ob_cons.
    assert (Hb : b <> id).
    { intro E. subst b. subst l. exact (cand_not_preceded _ _ _ _ _ Hpre Hnd Hp). }
    destruct (N.eq_dec a id) as [Ea | Na].
    + left. split; [congruence|]. apply (Permutation_in _ (Permutation_sym Hperm)).
      apply In_call_ids_lift. split; [|exact Hb].
      destruct Hp as [o' [i' H]]. apply ob_In in H. apply In_call_ids. exists i'. exact (proj2 H).
    + right. apply Hprec. apply precedes_lift. repeat split; assumption.
  - assert (Hc : call_of l id = Some i) by (rewrite El; apply cand_call_of; rewrite <- El; exact Hnd).
    assert (Hr : ret_of l id = Some o) by (rewrite El, cand_ret_of by exact Hpre; exact Hret).
    simpl. rewrite Hc, Hr, Hstep. simpl.
    rewrite <- (accepts_lift id l sigma st' Hnot). exact Hacc.
Qed.

Lemma head_complete : forall l st, wf l -> l <> [] -> linearizable_from l st ->
  exists pre id i rest o st',
    l = pre ++ Call id i :: rest /\ callsP pre /\ ret_of rest id = Some o /\
    step st i o = (true, st') /\ linearizable_from (lift id l) st'.
Proof.
  intros l st Hwf Hne [sigma [Hperm [Hprec Hacc]]].
  assert (Hnd : NoDup (call_ids l)) by exact (proj1 Hwf).
  destruct l as [|e t]; [congruence|].
  pose proof (wf_head_call _ _ Hwf) as He.
  destruct sigma as [|id sigma].
  { exfalso. destruct e as [j x | j x]; [|discriminate He]. simpl in Hperm.
    apply Permutation_nil in Hperm. discriminate Hperm. }
  assert (Hnds : NoDup (id :: sigma)) by (apply (Permutation_NoDup (Permutation_sym Hperm)); exact Hnd).
  inversion Hnds as [|? ? Hnot _]; subst.
  remember (e :: t) as l eqn:El.
  simpl in Hacc.
  destruct (call_of l id) as [i|] eqn:Hcall; [|discriminate Hacc].
  destruct (ret_of l id) as [o|] eqn:Hret; [|discriminate Hacc].
  destruct (step st i o) as [ok st'] eqn:Hstep.
  apply andb_true_iff in Hacc. destruct Hacc as [Hok Hacc]. subst ok.
  destruct (call_of_split _ _ _ Hcall) as [pre [rest [Epr Hnpre]]].
  assert (Hpre : callsP pre).
  { apply Forall_forall. intros x Hx. destruct x as [a xa | a xo]; [reflexivity|]. exfalso.
    apply in_split in Hx. destruct Hx as [p1 [p2 Ep]].
    assert (Hp : precedes l a id).
    { exists xo, i. exists p1, p2, rest. rewrite Epr, Ep. rewrite <- app_assoc. reflexivity. }
    apply Hprec in Hp. unfold before in Hp. apply ob_cons in Hp. destruct Hp as [[_ Hin] | Hp].
    - contradiction.
    - apply ob_In in Hp. destruct Hp as [_ Hin]. contradiction. }
  exists pre, id, i, rest, o, st'. repeat split; auto.
  - rewrite <- Hret. rewrite Epr. symmetry. apply cand_ret_of. exact Hpre.
  - exists sigma. repeat split.
    + rewrite call_ids_lift. apply Permutation_cons_inv with (a := id).
      eapply perm_trans; [exact Hperm|]. apply Permutation_sym. apply perm_remove; [exact Hnd|].
      apply (Permutation_in _ Hperm). simpl. auto.
    + intros a b Hp. apply precedes_lift in Hp. destruct Hp as [Hp [Ha Hb]].
      apply Hprec in Hp. unfold before in *. apply ob_cons in Hp. destruct Hp as [[E _] | Hp]; [congruence | exact Hp].
    + rewrite accepts_lift by exact Hnot. exact Hacc.
Qed.

(** * Soundness of the search *)

Section Sound.
  Variable rec : entries -> Z -> list N -> cache -> bool * cache.
  Variable l : entries.
  Variable st : Z.
  Variable lin : list N.
  Hypothesis Hnd : NoDup (call_ids l).
  Hypothesis Hrec : forall l' st' lin' c c', NoDup (call_ids l') ->
    rec l' st' lin' c = (true, c') -> linearizable_from l' st'.

  Lemma scan_sound : forall cands pre c c',
    l = pre ++ cands -> callsP pre ->
    scan rec l st lin cands c = (true, c') -> linearizable_from l st.
  Proof.
    induction cands as [|e cands IH]; intros pre c c' El Hpre H; simpl in H.
    - discriminate H.
    - destruct e as [id i | id o]; [|discriminate H].
      assert (El' : l = (pre ++ [Call id i]) ++ cands) by (rewrite <- app_assoc; exact El).
      assert (Hpre' : callsP (pre ++ [Call id i])) by (apply Forall_app; split; [exact Hpre | repeat constructor]).
      destruct (ret_of cands id) as [o|] eqn:Hret; [|discriminate H].
      destruct (step st i o) as [ok st'] eqn:Hstep. destruct ok.
      + destruct (cache_contains c (id :: lin) st').
        * exact (IH _ _ _ El' Hpre' H).
        * destruct (rec (lift id l) st' (id :: lin) ((id :: lin, st') :: c)) as [r c2] eqn:Hr. destruct r.
          -- apply (head_sound l st pre id i cands o st' Hnd El Hpre Hret Hstep).
             eapply Hrec; [|exact Hr]. rewrite call_ids_lift. apply NoDup_filter. exact Hnd.
          -- exact (IH _ _ _ El' Hpre' H).
      + exact (IH _ _ _ El' Hpre' H).
  Qed.
End Sound.

Lemma search_sound : forall fuel l st lin c c', NoDup (call_ids l) ->
  search fuel l st lin c = (true, c') -> linearizable_from l st.
Proof.
  induction fuel as [|f IH]; intros l st lin c c' Hnd H.
  - destruct l as [|e t]; simpl in H; [apply lin_nil | discriminate H].
  - destruct l as [|e t]; [apply lin_nil|].
    change (scan (search f) (e :: t) st lin (e :: t) c = (true, c')) in H.
    apply (scan_sound (search f) (e :: t) st lin Hnd) with (cands := e :: t) (pre := []) (c := c) (c' := c').
    + intros l' st' lin' c0 c0' Hnd' H'. exact (IH _ _ _ _ _ Hnd' H').
    + reflexivity.
    + constructor.
    + exact H.
Qed.

(** * Completeness of the search *)

Lemma set_eqb_spec : forall a b, set_eqb a b = true -> forall x, In x a <-> In x b.
Proof.
  intros a b H. unfold set_eqb in H. rewrite andb_true_iff, !forallb_forall in H.
  destruct H as [H1 H2]. intros x. split; intro Hx; apply mem_id_In; auto.
Qed.

Lemma cache_contains_spec : forall c lin st, cache_contains c lin st = true ->
  exists e, In e c /\ (forall x, In x lin <-> In x (fst e)) /\ st = snd e.
Proof.
  intros c lin st H. unfold cache_contains in H. apply existsb_exists in H.
  destruct H as [e [He H]]. apply andb_true_iff in H. destruct H as [H1 H2].
  exists e. split; [exact He|]. split; [apply set_eqb_spec; exact H1 | apply Z.eqb_eq; exact H2].
Qed.

Lemma filter_all {A} (p : A -> bool) : forall l, (forall x, p x = true) -> filter p l = l.
Proof.
  intros l H. induction l as [|z l IH]; simpl; [reflexivity|]. rewrite H, IH. reflexivity.
Qed.

Section Complete.
  (* the entries handed to checkSingle *)
  Variable h0 : history.

  (* the entries still linked when the operations in S have been lifted *)
  Definition rem (S : list N) : history := filter (fun e => negb (mem_id (ev_id e) S)) h0.

  Lemma rem_nil : rem [] = h0.
  Proof.
    unfold rem. apply filter_all. intros e. reflexivity.
  Qed.

  Lemma lift_rem : forall id S, lift id (rem S) = rem (id :: S).
  Proof.
    intros id S. unfold lift, rem. rewrite filter_filter. apply filter_ext. intros e.
    simpl. rewrite negb_orb. apply andb_comm.
  Qed.

  Lemma rem_ext : forall S T, (forall x, In x S <-> In x T) -> rem S = rem T.
  Proof.
    intros S T H. unfold rem. apply filter_ext. intros e. f_equal.
    apply eq_true_iff_eq. rewrite !mem_id_In. apply H.
  Qed.

  Lemma rem_ids : forall S id, In id (map ev_id (rem S)) -> ~ In id S.
  Proof.
    intros S id H. apply in_map_iff in H. destruct H as [e [E He]]. unfold rem in He.
    apply filter_In in He. destruct He as [_ He]. apply negb_true_iff, mem_id_false in He. congruence.
  Qed.

  (* a configuration from which no linearization of the remaining entries exists *)
  Definition dead (e : list N * Z) : Prop := ~ linearizable_from (rem (fst e)) (snd e).

  (* cache invariant relative to the current linearized set S *)
  Definition CI (c : cache) (S : list N) : Prop := forall e, In e c -> dead e \/ incl (fst e) S.

  Section ScanC.
    Variable rec : entries -> Z -> list N -> cache -> bool * cache.
    Variable S : list N.
    Variable st : Z.
    Hypothesis Hwf : wf (rem S).
    Hypothesis Hne : rem S <> [].
    Hypothesis Hrec : forall id i st' c c', In (Call id i) (rem S) -> CI c (id :: S) ->
      rec (rem (id :: S)) st' (id :: S) c = (false, c') ->
      dead (id :: S, st') /\ (forall e, In e c' -> In e c \/ dead e).

    Definition rejected (id : N) (i : input) : Prop :=
      forall o st', ret_of (rem S) id = Some o -> step st i o = (true, st') -> dead (id :: S, st').

    Lemma scan_end : forall cands pre,
      rem S = pre ++ cands -> callsP pre ->
      (forall id i, In (Call id i) pre -> rejected id i) ->
      (cands = [] \/ exists id o c', cands = Ret id o :: c') ->
      dead (S, st).
    Proof.
      intros cands pre El Hpre Hrej Hend Hlin. simpl in Hlin.
      destruct (head_complete _ _ Hwf Hne Hlin) as [pre1 [id [i [rest1 [o [st' [E1 [Hp1 [Hret [Hstep Hl]]]]]]]]]].
      assert (Hin : In (Call id i) pre).
      { apply (cand_in_prefix pre cands pre1 (Call id i) rest1); auto. rewrite <- El. exact E1. }
      assert (Hr : ret_of (rem S) id = Some o) by (rewrite E1, cand_ret_of by exact Hp1; exact Hret).
      apply (Hrej id i Hin o st' Hr Hstep). simpl. rewrite <- lift_rem. exact Hl.
    Qed.

    Lemma scan_complete : forall cands pre c c',
      rem S = pre ++ cands -> callsP pre ->
      (forall id i, In (Call id i) pre -> rejected id i) ->
      CI c S ->
      scan rec (rem S) st S cands c = (false, c') ->
      dead (S, st) /\ (forall e, In e c' -> In e c \/ dead e).
    Proof.
      induction cands as [|ev cands IH]; intros pre c c' El Hpre Hrej HCI H; simpl in H.
      - injection H as H. subst c'. split; [|intros e He; left; exact He].
        apply (scan_end [] pre El Hpre Hrej). left. reflexivity.
      - destruct ev as [id i | id o].
        2:{ injection H as H. subst c'. split; [|intros e He; left; exact He].
            apply (scan_end (Ret id o :: cands) pre El Hpre Hrej). right. exists id, o, cands. reflexivity. }
        assert (El' : rem S = (pre ++ [Call id i]) ++ cands) by (rewrite <- app_assoc; exact El).
        assert (Hpre' : callsP (pre ++ [Call id i])) by (apply Forall_app; split; [exact Hpre | repeat constructor]).
        assert (Hin : In (Call id i) (rem S)) by (rewrite El; apply in_elt).
        assert (Hret_l : ret_of (rem S) id = ret_of cands id) by (rewrite El; apply cand_ret_of; exact Hpre).
        assert (Hstepcase : rejected id i ->
                  forall id0 i0, In (Call id0 i0) (pre ++ [Call id i]) -> rejected id0 i0).
        { intros Hr id0 i0 Hin0. apply in_app_or in Hin0. destruct Hin0 as [Hin0 | [E | []]].
          - apply Hrej. exact Hin0.
          - injection E as E1 E2. subst. exact Hr. }
        destruct (ret_of cands id) as [o|] eqn:Hret.
        2:{ exfalso. destruct Hwf as [_ [_ [H3 _]]].
            assert (Hc : In id (call_ids (rem S))) by (apply In_call_ids; exists i; exact Hin).
            apply H3, ret_of_In in Hc. destruct Hc as [o Ho]. congruence. }
        destruct (step st i o) as [ok st'] eqn:Hstep. destruct ok.
        + destruct (cache_contains c (id :: S) st') eqn:Hhit.
          * (* cache hit: the cached configuration has a strictly larger set than S, hence is dead *)
            apply (IH _ _ _ El' Hpre'); auto. apply Hstepcase.
            intros o' st'' Ho' Hs'. rewrite Hret_l in Ho'. injection Ho' as Ho'. subst o'.
            rewrite Hstep in Hs'. injection Hs' as Hs'. subst st''.
            apply cache_contains_spec in Hhit. destruct Hhit as [e [He [Hset Hst]]].
            destruct (HCI e He) as [Hd | Hincl].
            -- unfold dead in *. simpl. rewrite (rem_ext _ _ Hset), Hst. exact Hd.
            -- exfalso. apply (rem_ids S id).
               ++ apply in_map_iff. exists (Call id i). split; [reflexivity | exact Hin].
               ++ apply Hincl. apply Hset. simpl. auto.
          * rewrite lift_rem in H.
            destruct (rec (rem (id :: S)) st' (id :: S) ((id :: S, st') :: c)) as [r c2] eqn:Hr. destruct r.
            -- discriminate H.
            -- assert (HCI1 : CI ((id :: S, st') :: c) (id :: S)).
               { intros e [E | He].
                 - right. subst e. simpl. apply incl_refl.
                 - destruct (HCI e He) as [Hd | Hincl]; [left; exact Hd | right].
                   apply incl_tl. exact Hincl. }
               destruct (Hrec id i st' _ _ Hin HCI1 Hr) as [Hdead Hc2].
               assert (HCI2 : CI c2 S).
               { intros e He. destruct (Hc2 e He) as [[E | Hc] | Hd].
                 - left. subst e. exact Hdead.
                 - apply HCI. exact Hc.
                 - left. exact Hd. }
               assert (Hrj : rejected id i).
               { intros o' st'' Ho' Hs'. rewrite Hret_l in Ho'. injection Ho' as Ho'. subst o'.
                 rewrite Hstep in Hs'. injection Hs' as Hs'. subst st''. exact Hdead. }
               destruct (IH _ _ _ El' Hpre' (Hstepcase Hrj) HCI2 H) as [Hd Hc'].
               split; [exact Hd|]. intros e He. destruct (Hc' e He) as [H2 | Hd2]; [|right; exact Hd2].
               destruct (Hc2 e H2) as [[E | Hc] | Hd3].
               ++ right. subst e. exact Hdead.
               ++ left. exact Hc.
               ++ right. exact Hd3.
        + apply (IH _ _ _ El' Hpre'); auto. apply Hstepcase.
          intros o' st'' Ho' Hs'. rewrite Hret_l in Ho'. injection Ho' as Ho'. subst o'.
          rewrite Hstep in Hs'. discriminate Hs'.
    Qed.
  End ScanC.

  Lemma search_complete : forall fuel S st c c',
    wf (rem S) -> (length (rem S) <= fuel)%nat -> CI c S ->
    search fuel (rem S) st S c = (false, c') ->
    dead (S, st) /\ (forall e, In e c' -> In e c \/ dead e).
  Proof.
    induction fuel as [|f IH]; intros S st c c' Hwf Hlen HCI H.
    - exfalso. destruct (rem S) as [|e t]; simpl in *; [discriminate H | lia].
    - assert (Hne : rem S <> []).
      { intro E. rewrite E in H. simpl in H. discriminate H. }
      assert (Hs : search (Datatypes.S f) (rem S) st S c = scan (search f) (rem S) st S (rem S) c).
      { destruct (rem S) as [|e t]; [contradiction | reflexivity]. }
      rewrite Hs in H.
      apply (scan_complete (search f) S st Hwf Hne) with (cands := rem S) (pre := []) (c := c); auto.
      + intros id i st' c0 c0' Hin HCI0 Hr. apply (IH (id :: S) st' c0 c0'); auto.
        * rewrite <- lift_rem. apply wf_lift. exact Hwf.
        * rewrite <- lift_rem.
          assert (Hlt : (length (lift id (rem S)) < length (rem S))%nat).
          { unfold lift. apply filter_length_lt with (x := Call id i); [exact Hin|]. simpl. rewrite N.eqb_refl. reflexivity. }
          lia.
      + intros id i [].
  Qed.
End Complete.

Theorem checkSingle_exact : forall l, wf l -> (checkSingle l = true <-> linearizable l).
Proof.
  intros l Hwf. unfold checkSingle, linearizable.
  destruct (search (length l) l nil_state [] []) as [r c'] eqn:H. simpl. split.
  - intro E. subst r. eapply search_sound; [exact (proj1 Hwf) | exact H].
  - intro Hlin. destruct r; [reflexivity|]. exfalso.
    pose proof (search_complete l (length l) [] nil_state [] c') as Hc.
    rewrite (rem_nil l) in Hc.
    destruct (Hc Hwf (le_n _)) as [Hd _]; [intros e [] | exact H |].
    unfold dead in Hd. simpl in Hd. rewrite (rem_nil l) in Hd. contradiction.
Qed.

(** * renumber *)

Fixpoint final_map (m : list (N * N)) (next : N) (h : history) : list (N * N) :=
  match h with
  | [] => m
  | e :: t =>
      match lookup (ev_id e) m with
      | Some _ => final_map m next t
      | None => final_map ((ev_id e, next) :: m) (next + 1) t
      end
  end.

Definition rn_fun (m : list (N * N)) (x : N) : N :=
  match lookup x m with Some r => r | None => 0 end.

Lemma lookup_stable : forall h m next x r,
  lookup x m = Some r -> lookup x (final_map m next h) = Some r.
Proof.
  induction h as [|e h IH]; intros m next x r H; simpl; [exact H|].
  destruct (lookup (ev_id e) m) as [r'|] eqn:He.
  - apply IH. exact H.
  - apply IH. simpl. destruct (N.eqb_spec (ev_id e) x) as [E | NE]; [congruence | exact H].
Qed.

Lemma rename_ev_set_id : forall f e, rename_ev f e = set_id e (f (ev_id e)).
Proof. intros f e. destruct e; reflexivity. Qed.

Lemma renumber_aux_rename : forall h m next,
  renumber_aux m next h = rename (rn_fun (final_map m next h)) h.
Proof.
  induction h as [|e h IH]; intros m next; simpl; [reflexivity|].
  rewrite rename_ev_set_id. destruct (lookup (ev_id e) m) as [r|] eqn:He.
  - rewrite IH. f_equal. unfold rn_fun. rewrite (lookup_stable h m next _ _ He). reflexivity.
  - rewrite IH. f_equal. unfold rn_fun.
    rewrite (lookup_stable h ((ev_id e, next) :: m) (next + 1) (ev_id e) next); [reflexivity|].
    simpl. rewrite N.eqb_refl. reflexivity.
Qed.

Definition minj (m : list (N * N)) (next : N) : Prop :=
  (forall k v, lookup k m = Some v -> v < next) /\
  (forall k1 k2 v, lookup k1 m = Some v -> lookup k2 m = Some v -> k1 = k2).

Lemma final_map_inj : forall h m next, minj m next ->
  forall k1 k2 v, lookup k1 (final_map m next h) = Some v -> lookup k2 (final_map m next h) = Some v -> k1 = k2.
Proof.
  induction h as [|e h IH]; intros m next Hm; simpl.
  - exact (proj2 Hm).
  - destruct (lookup (ev_id e) m) as [r|] eqn:He.
    + apply IH. exact Hm.
    + apply IH. destruct Hm as [Hlt Hinj]. split.
      * intros k v H. simpl in H. destruct (N.eqb_spec (ev_id e) k) as [E | NE].
        -- injection H as H. lia.
        -- apply Hlt in H. lia.
      * intros k1 k2 v H1 H2. simpl in H1, H2.
        destruct (N.eqb_spec (ev_id e) k1) as [E1 | NE1]; destruct (N.eqb_spec (ev_id e) k2) as [E2 | NE2].
        -- congruence.
        -- injection H1 as H1. subst v. apply Hlt in H2. lia.
        -- injection H2 as H2. subst v. apply Hlt in H1. lia.
        -- exact (Hinj _ _ _ H1 H2).
Qed.

Lemma final_map_total : forall h m next x, In x (map ev_id h) ->
  exists r, lookup x (final_map m next h) = Some r.
Proof.
  induction h as [|e h IH]; intros m next x Hx; simpl in *; [contradiction|].
  destruct (lookup (ev_id e) m) as [r|] eqn:He.
  - destruct Hx as [E | Hx]; [|apply IH; exact Hx]. subst x. exists r. apply lookup_stable. exact He.
  - destruct Hx as [E | Hx]; [|apply IH; exact Hx]. subst x. exists next. apply lookup_stable.
    simpl. rewrite N.eqb_refl. reflexivity.
Qed.

Lemma renumber_is_rename : forall h, exists g, inj_on g h /\ renumber h = rename g h.
Proof.
  intros h. exists (rn_fun (final_map [] 0 h)). split.
  - intros a b Ha Hb E. unfold rn_fun in E.
    destruct (final_map_total h [] 0 a Ha) as [ra Hra]. destruct (final_map_total h [] 0 b Hb) as [rb Hrb].
    rewrite Hra, Hrb in E. subst rb.
    apply (final_map_inj h [] 0) with (v := ra); auto.
    split; intros; simpl in *; discriminate.
  - apply renumber_aux_rename.
Qed.

Definition map_keys (f : N -> N) (m : list (N * N)) : list (N * N) :=
  map (fun kv => (f (fst kv), snd kv)) m.

Lemma lookup_map_keys : forall f m x,
  (forall k, In k (map fst m) -> f k = f x -> k = x) ->
  lookup (f x) (map_keys f m) = lookup x m.
Proof.
  intros f. induction m as [|[k v] m IH]; intros x H; simpl; [reflexivity|].
  assert (Ht : forall k0, In k0 (map fst m) -> f k0 = f x -> k0 = x) by (intros k0 Hk; apply H; simpl; auto).
  destruct (N.eqb_spec k x) as [E | NE].
  - subst k. rewrite N.eqb_refl. reflexivity.
  - destruct (N.eqb_spec (f k) (f x)) as [E | NE'].
    + exfalso. apply NE. apply H; simpl; auto.
    + apply IH. exact Ht.
Qed.

Lemma renumber_aux_rename_inv : forall f h m next,
  (forall a b, In a (map fst m ++ map ev_id h) -> In b (map fst m ++ map ev_id h) -> f a = f b -> a = b) ->
  renumber_aux (map_keys f m) next (rename f h) = renumber_aux m next h.
Proof.
  intros f. induction h as [|e h IH]; intros m next Hinj; simpl; [reflexivity|].
  assert (Eid : ev_id (rename_ev f e) = f (ev_id e)) by (destruct e; reflexivity).
  assert (Eset : forall r, set_id (rename_ev f e) r = set_id e r) by (intros r; destruct e; reflexivity).
  rewrite Eid, lookup_map_keys.
  2:{ intros k Hk E. apply Hinj; [apply in_or_app; left; exact Hk | apply in_or_app; right; simpl; auto | exact E]. }
  destruct (lookup (ev_id e) m) as [r|] eqn:He; rewrite Eset; f_equal.
  - apply IH. intros a b Ha Hb. apply Hinj.
    + apply in_app_or in Ha. apply in_or_app. destruct Ha; [left | right; simpl]; auto.
    + apply in_app_or in Hb. apply in_or_app. destruct Hb; [left | right; simpl]; auto.
  - change ((f (ev_id e), next) :: map_keys f m) with (map_keys f ((ev_id e, next) :: m)).
    apply IH. intros a b Ha Hb. apply Hinj.
    + apply in_app_or in Ha. apply in_or_app. simpl in Ha. destruct Ha as [[E | Ha] | Ha]; [right; simpl; auto | left; auto | right; simpl; auto].
    + apply in_app_or in Hb. apply in_or_app. simpl in Hb. destruct Hb as [[E | Hb] | Hb]; [right; simpl; auto | left; auto | right; simpl; auto].
Qed.

Theorem renumber_rename : forall f h, inj_on f h -> renumber (rename f h) = renumber h.
Proof.
  intros f h Hinj. unfold renumber.
  change (@nil (N * N)) with (map_keys f []) at 1. apply renumber_aux_rename_inv.
  simpl. exact Hinj.
Qed.

(** * The verdict of CheckEvents *)

Theorem check_exact : forall h, wf h -> (check h = true <-> linearizable h).
Proof.
  intros h Hwf. unfold check, convertEntries. rewrite map_id.
  destruct (renumber_is_rename h) as [g [Hg E]]. rewrite E.
  rewrite checkSingle_exact by (apply wf_rename; assumption).
  unfold linearizable. apply lin_rename. exact Hg.
Qed.

Theorem check_sound : forall h, wf h -> check h = true -> linearizable h.
Proof. intros h Hwf. apply check_exact. exact Hwf. Qed.

Theorem check_complete : forall h, wf h -> linearizable h -> check h = true.
Proof. intros h Hwf. apply check_exact. exact Hwf. Qed.

Theorem check_rename : forall f h, inj_on f h -> check (rename f h) = check h.
Proof. intros f h Hinj. unfold check. rewrite renumber_rename by exact Hinj. reflexivity. Qed.

Lemma check_nil : check [] = true.
Proof. reflexivity. Qed.
