(** FleetHealProofs: the liveness half of C01 that is proved - healing after crashes and restarts.

    [Calm]: the invariant holds; all NodeHosts are up; the membership of every shard is the one
    Drummer's view shows (no membership change in progress); every current member has its data on
    its host (running or NOT - the replicas of a restarted NodeHost are stopped until Drummer asks
    for a restore, they may lag behind); nothing but current members runs; the mailboxes and queues
    hold nothing but restore requests for current members, ADD / DELETE requests with a stale fence and
    KILL requests for non-members ([harmless]); the kill list is empty.
    This is what a [Steady] fleet looks like after ANY number of NodeHost crashes and restarts
    ([calm_bounce]), lost replies, lost reports and lagging replicas.

    Proved here, for EVERY outcome the scheduler model allows, all shards at once:
      - [calm_round]     one healthy round keeps the fleet Calm; the scheduler can only answer with a
                         batch (no error, no panic) and the batch holds restore requests only;
      - [calm_progress]  a rank (per member: time left until the failure detector fires, restore
                         scheduled, restarted, reported) strictly decreases in every healthy round
                         as long as the fleet is not healed;
      - [calm_heal]      after ttl / (nticks * step) + 3 healthy rounds the fleet is healed ([calm_heal_ge]: and
                         stays healed);
      - [calm_round_total] the round never gets stuck.
    From ANY state of the invariant: [round_no_error] - with a spare NodeHost per shard the scheduler cannot answer
    errNotEnoughNodeHost in a healthy round; [error_cause] - what that error means. *)
From stdpp Require Import gmap list numbers sorting.
From Coq Require Import ZifyN ZifyNat ZifyBool Lia.
From Drummer.Model Require Import DB Sched Fleet FleetRun MailboxSpec FleetRounds.
From Drummer.Proofs Require Import DBProofs DBViewProofs DBTimeProofs SchedProofs SchedTotal MailboxProofs FleetProofs FleetLiveProofs.
Local Open Scope N_scope.
Notation hist_of := Fleet.hist_of.

(** * the class of states *)
Definition good_restore (hist : gmap N (list hentry)) (q : request) : Prop :=
  is_restore q = true ∧ q_join q = false ∧ ∃ h a, hist !! q_shard q = Some h ∧ cur_members h !! q_inst q = Some a.

(* requests that do nothing to a calm fleet except (re)starting a stopped member: restore requests for current
   members, ADD / DELETE requests whose fence is not the current membership version (leftovers of completed
   repairs), KILL requests (for replica ids that are not current members) *)
Definition harmless (hist : gmap N (list hentry)) (q : request) : Prop :=
  good_restore hist q ∨
  (is_change q = true ∧ q_ccid q ≠ cur_version (hist_of hist (q_shard q)) ∧ q_members q ≠ [] ∧
     (is_add q = true → q_addrs q ≠ [])) ∨
  (is_kill q = true ∧ ∃ y, q_members q = [y] ∧ ∀ h, hist !! q_shard q = Some h → is_member (cur_members h) y = false).

Record Calm (st : fstate) : Prop := mkCalm {
  cm_inv : LoopInv st;
  cm_timeok : time_ok (f_db st);
  cm_time : 0 < d_tick (f_db st);
  cm_defined : ∀ s sd, d_shards (f_db st) !! s = Some sd → is_Some (f_hist st !! s) ∧ sd_members sd ≠ [] ∧ sd_app sd ≠ 0;
  cm_viewdef : ∀ s, is_Some (d_view (f_db st) !! s) → is_Some (d_shards (f_db st) !! s) ∧ is_Some (f_hist st !! s);
  cm_hosts : ∀ a fh, f_hosts st !! a = Some fh → fh_up fh = true ∧ fh_out fh = None;
  cm_kill : d_kill (f_db st) = [];
  cm_boxes : ∀ q, boxed st q → harmless (f_hist st) q;
  cm_members : ∀ s h, f_hist st !! s = Some h →
    ∃ c, d_view (f_db st) !! s = Some c ∧ s_cci c = cur_version h ∧
         ∀ rid a, cur_members h !! rid = Some a →
           rid ≠ 0 ∧ a ≠ 0 ∧ ∃ fh lr, f_hosts st !! a = Some fh ∧ fh_reps fh !! (s, rid) = Some lr;
  cm_stamped : ∀ s c rid n, d_view (f_db st) !! s = Some c → s_reps c !! rid = Some n → r_tick n ≠ 0;
  cm_home : ∀ a fh s rid lr h a', f_hosts st !! a = Some fh → fh_reps fh !! (s, rid) = Some lr →
    f_hist st !! s = Some h → cur_members h !! rid = Some a' → a' = a;
  cm_nostray : ∀ a fh s rid lr, f_hosts st !! a = Some fh → fh_reps fh !! (s, rid) = Some lr → lr_running lr = true →
    ∃ h, f_hist st !! s = Some h ∧ is_Some (cur_members h !! rid) }.

(** * generic facts *)
Lemma steps_cons P st ev evs :
  steps P st (ev :: evs) = match fstep P st ev with FOk st' => steps P st' evs | FDisabled => steps P st evs | FPanic => None end.
Proof. done. Qed.

(* the view of a shard in a calm state: its records are the current members *)
Lemma calm_view st s h c :
  LoopInv st → f_hist st !! s = Some h → d_view (f_db st) !! s = Some c → s_cci c = cur_version h →
  r_addr <$> s_reps c = cur_members h ∧ s_id c = s ∧ ∀ rid n, s_reps c !! rid = Some n → r_id n = rid ∧ r_shard n = s.
Proof.
  intros HI Hh Hc Hcc. destruct (li_view _ _ _ _ _ HI s c Hc) as (Hid & HH & Hids).
  unfold Hf, hist_of in HH. rewrite Hh in HH. cbn in HH.
  destruct (cur_entry_at _ _ _ HI Hh) as [Hcur _]. rewrite Hcc, Hcur in HH. injection HH as HH. done.
Qed.

Lemma calm_view_member st s h c rid :
  LoopInv st → f_hist st !! s = Some h → d_view (f_db st) !! s = Some c → s_cci c = cur_version h →
  (is_Some (s_reps c !! rid) ↔ is_Some (cur_members h !! rid)) ∧
  ∀ n, s_reps c !! rid = Some n → cur_members h !! rid = Some (r_addr n).
Proof.
  intros HI Hh Hc Hcc. destruct (calm_view st s h c HI Hh Hc Hcc) as (HH & _ & _). rewrite <- HH. split.
  - rewrite lookup_fmap. by rewrite fmap_is_Some.
  - intros n Hn. by rewrite lookup_fmap, Hn.
Qed.

(* a replica never knows a version newer than the current one *)
Lemma rep_ver_le st a fh s rid lr h :
  LoopInv st → f_hosts st !! a = Some fh → fh_reps fh !! (s, rid) = Some lr → f_hist st !! s = Some h →
  lr_ver lr ≤ cur_version h.
Proof.
  intros HI Ha Hk Hh. destruct (li_reps _ _ _ _ _ HI a fh (s, rid) lr Ha Hk) as (h' & c & Hh' & _ & Hver & _).
  cbn [fst] in Hh'. assert (h' = h) as -> by congruence.
  destruct Hver as [->|[M HM]]; [lia|]. apply entry_at_Some in HM.
  apply (hist_wf_le _ _ (li_hist _ _ _ _ _ HI _ _ Hh) _ HM).
Qed.

(* a current member is not recorded as removed at any version *)
Lemma member_not_removed st s h rid v :
  LoopInv st → f_hist st !! s = Some h → is_Some (cur_members h !! rid) → removed_at h rid v = false.
Proof.
  intros HI Hh Hm. pose proof (li_hist _ _ _ _ _ HI _ _ Hh) as Hw. unfold removed_at.
  destruct (entry_at h v) as [M|] eqn:Ev; [|done].
  destruct (is_member M rid) eqn:EM; [done|]. cbn [negb andb].
  apply not_true_is_false. intros Hex. apply existsb_exists in Hex as (e & He & Hx).
  apply elem_of_list_In in He. apply andb_true_iff in Hx as [Hlt Hmem]. apply N.ltb_lt in Hlt.
  apply entry_at_Some in Ev.
  destruct (cur_entry_at _ _ _ HI Hh) as [_ Hcur].
  pose proof (hist_wf_le _ _ Hw _ Ev) as Hle. cbn [fst] in Hle.
  pose proof (hist_wf_no_return _ _ Hw e (v, M) (cur_version h, cur_members h) rid He Ev Hcur) as Hnr.
  cbn [fst snd] in Hnr. specialize (Hnr ltac:(lia) Hle Hmem EM). apply is_member_true in Hm. congruence.
Qed.

(* the host side of [Calm] *)
Record HCalm (hist : gmap N (list hentry)) (hosts : gmap N fhost) : Prop := mkHCalm {
  hc_up : ∀ a fh, hosts !! a = Some fh → fh_up fh = true ∧ fh_out fh = None;
  hc_members : ∀ s h rid a, hist !! s = Some h → cur_members h !! rid = Some a →
    ∃ fh lr, hosts !! a = Some fh ∧ fh_reps fh !! (s, rid) = Some lr;
  hc_home : ∀ a fh s rid lr h a', hosts !! a = Some fh → fh_reps fh !! (s, rid) = Some lr →
    hist !! s = Some h → cur_members h !! rid = Some a' → a' = a;
  hc_nostray : ∀ a fh s rid lr, hosts !! a = Some fh → fh_reps fh !! (s, rid) = Some lr → lr_running lr = true →
    ∃ h, hist !! s = Some h ∧ is_Some (cur_members h !! rid) }.

Lemma calm_hcalm st : Calm st → HCalm (f_hist st) (f_hosts st).
Proof.
  intros HC. split.
  - apply (cm_hosts _ HC).
  - intros s h rid a Hh Hm. destruct (cm_members _ HC s h Hh) as (c & _ & _ & Hmem). destruct (Hmem rid a Hm) as (_ & _ & H). exact H.
  - apply (cm_home _ HC).
  - apply (cm_nostray _ HC).
Qed.

(* the hosts change, the DB and the histories do not *)
Lemma calm_change_hosts st st' :
  Calm st → LoopInv st' → f_db st' = f_db st → f_hist st' = f_hist st → HCalm (f_hist st) (f_hosts st') →
  (∀ q, boxed st' q → boxed st q) → Calm st'.
Proof.
  intros HC HI Ed Eh HH Hbox. split; try rewrite Ed; try rewrite Eh.
  - exact HI.
  - apply (cm_timeok _ HC).
  - apply (cm_time _ HC).
  - apply (cm_defined _ HC).
  - apply (cm_viewdef _ HC).
  - apply (hc_up _ _ HH).
  - apply (cm_kill _ HC).
  - intros q Hq. apply (cm_boxes _ HC), Hbox, Hq.
  - intros s h Hh. destruct (cm_members _ HC s h Hh) as (c & Hc & Hcc & Hmem). exists c. split; [done|]. split; [done|].
    intros rid a Hm. destruct (Hmem rid a Hm) as (H1 & H2 & _). split; [done|]. split; [done|]. by apply (hc_members _ _ HH s h).
  - apply (cm_stamped _ HC).
  - apply (hc_home _ _ HH).
  - apply (hc_nostray _ _ HH).
Qed.

Lemma busy_spec reps s : busy reps s = true ↔ ∃ rid lr, reps !! (s, rid) = Some lr ∧ lr_running lr = true.
Proof.
  unfold busy, running_of. rewrite negb_true_iff, bool_decide_eq_false. split.
  - intros Hne. destruct (filter _ (map_to_list reps)) as [|[[s0 rid] lr] l] eqn:E; [done|].
    assert (Hin : ((s0, rid), lr) ∈ filter (λ kv : N * N * lrep, kv.1.1 = s ∧ lr_running kv.2 = true) (map_to_list reps))
      by (rewrite E; left).
    apply elem_of_list_filter in Hin as [[Hs Hr] Hin]. cbn in Hs, Hr. subst s0. apply elem_of_map_to_list in Hin. eauto.
  - intros (rid & lr & Hk & Hr) Hnil. apply fmap_nil_inv in Hnil.
    assert (Hin : ((s, rid), lr) ∈ filter (λ kv : N * N * lrep, kv.1.1 = s ∧ lr_running kv.2 = true) (map_to_list reps)).
    { apply elem_of_list_filter. split; [done|]. by apply elem_of_map_to_list. }
    rewrite Hnil in Hin. by apply elem_of_nil in Hin.
Qed.

Lemma member_not_removed_wf n h rid v : hist_wf n h → is_Some (cur_members h !! rid) → removed_at h rid v = false.
Proof.
  intros Hw Hm. unfold removed_at.
  destruct (entry_at h v) as [M|] eqn:Ev; [|done].
  destruct (is_member M rid) eqn:EM; [done|]. cbn [negb andb].
  apply not_true_is_false. intros Hex. apply existsb_exists in Hex as (e & He & Hx).
  apply elem_of_list_In in He. apply andb_true_iff in Hx as [Hlt Hmem]. apply N.ltb_lt in Hlt.
  apply entry_at_Some in Ev.
  assert (Hcur : (cur_version h, cur_members h) ∈ h) by (apply cur_in; intros ->; by apply hist_wf_nonempty in Hw).
  pose proof (hist_wf_le _ _ Hw _ Ev) as Hle. cbn [fst] in Hle.
  pose proof (hist_wf_no_return _ _ Hw e (v, M) (cur_version h, cur_members h) rid He Ev Hcur) as Hnr.
  cbn [fst snd] in Hnr. specialize (Hnr ltac:(lia) Hle Hmem EM). apply is_member_true in Hm. congruence.
Qed.

(* replicas are started (or learn), nothing else changes on the hosts *)
Definition evolves (hosts hosts' : gmap N fhost) : Prop :=
  ∀ a, match hosts !! a with
       | Some fh => ∃ fh', hosts' !! a = Some fh' ∧ fh_up fh' = fh_up fh ∧ fh_queue fh' = fh_queue fh ∧ fh_out fh' = fh_out fh ∧
           ∀ k, match fh_reps fh !! k with
                | Some lr => ∃ lr', fh_reps fh' !! k = Some lr' ∧ (lr_running lr = true → lr_running lr' = true)
                | None => fh_reps fh' !! k = None
                end
       | None => hosts' !! a = None
       end.

Lemma evolves_refl hosts : evolves hosts hosts.
Proof.
  intros a. destruct (hosts !! a) as [fh|]; [|done]. exists fh. repeat (split; [done|]).
  intros k. destruct (fh_reps fh !! k) as [lr|]; [|done]. by exists lr.
Qed.

Lemma evolves_trans h1 h2 h3 : evolves h1 h2 → evolves h2 h3 → evolves h1 h3.
Proof.
  intros H12 H23 a. specialize (H12 a). specialize (H23 a). destruct (h1 !! a) as [fh1|].
  - destruct H12 as (fh2 & E2 & U2 & Q2 & O2 & R2). rewrite E2 in H23. destruct H23 as (fh3 & E3 & U3 & Q3 & O3 & R3).
    exists fh3. split; [done|]. split; [congruence|]. split; [congruence|]. split; [congruence|].
    intros k. specialize (R2 k). specialize (R3 k). destruct (fh_reps fh1 !! k) as [lr1|].
    + destruct R2 as (lr2 & K2 & M2). rewrite K2 in R3. destruct R3 as (lr3 & K3 & M3). exists lr3. split; [done|]. auto.
    + by rewrite R2 in R3.
  - by rewrite H12 in H23.
Qed.

Lemma evolves_running hosts hosts' s rid a :
  evolves hosts hosts' → member_running hosts s rid a = true → member_running hosts' s rid a = true.
Proof.
  intros He. unfold member_running. specialize (He a). destruct (hosts !! a) as [fh|]; [|done].
  destruct He as (fh' & -> & -> & _ & _ & Hr). specialize (Hr (s, rid)).
  destruct (fh_up fh); [|done]. cbn [andb]. destruct (fh_reps fh !! (s, rid)) as [lr|]; [|done].
  destruct Hr as (lr' & -> & Hm). exact Hm.
Qed.

Lemma evolves_data hosts hosts' a fh k :
  evolves hosts hosts' → hosts !! a = Some fh → is_Some (fh_reps fh !! k) →
  ∃ fh', hosts' !! a = Some fh' ∧ is_Some (fh_reps fh' !! k).
Proof.
  intros He Ha [lr Hk]. specialize (He a). rewrite Ha in He. destruct He as (fh' & E & _ & _ & _ & Hr).
  specialize (Hr k). rewrite Hk in Hr. destruct Hr as (lr' & Hlr' & _). exists fh'. split; [done|]. by eexists.
Qed.

(* a restore request for a current member: the replica runs afterwards, nothing else happens *)
Lemma exec_restore sz hist h q x :
  hists_wf sz hist → x.2 = hist → HCalm hist x.1 → good_restore hist q → is_Some (x.1 !! h) →
  ∃ x', exec_req h true x q = Some x' ∧ x'.2 = hist ∧ HCalm hist x'.1 ∧ evolves x.1 x'.1 ∧
        ∀ fh, x.1 !! h = Some fh → is_Some (fh_reps fh !! (q_shard q, q_inst q)) →
              member_running x'.1 (q_shard q) (q_inst q) h = true.
Proof.
  intros Hwf Hx2 HH (Hres & Hjoin & h0 & a & Hh0 & Hmem) [fh Hfh].
  unfold is_restore, is_create in Hres. apply andb_true_iff in Hres as [Hty Hre].
  unfold exec_req. rewrite Hfh. destruct (q_type q); try done. rewrite Hjoin, Hre.
  set (s := q_shard q) in *. set (rid := q_inst q) in *.
  destruct (fh_reps fh !! (s, rid)) as [lr|] eqn:Ek.
  2:{ exists x. split; [done|]. split; [done|]. split; [done|]. split; [apply evolves_refl|].
      intros fh' Hfh' [? Hk]. assert (fh' = fh) as -> by congruence. congruence. }
  pose proof (Hwf _ _ Hh0) as Hw.
  assert (Ha : a = h) by (eapply (hc_home _ _ HH h fh s rid lr h0 a); eauto).
  assert (Hrem : removed_at h0 rid (lr_ver lr) = false) by (apply (member_not_removed_wf _ h0 rid _ Hw); by eexists).
  unfold start_existing. unfold hist_of. rewrite Hx2, Hh0. cbn [default from_option id]. rewrite Hrem, orb_false_r.
  destruct (hc_up _ _ HH _ _ Hfh) as [Hup Hout].
  destruct (busy (fh_reps fh) s) eqn:Eb.
  - exists x. split; [done|]. split; [done|]. split; [done|]. split; [apply evolves_refl|].
    intros fh' Hfh' _. assert (fh' = fh) as -> by congruence.
    apply busy_spec in Eb as (rid' & lr' & Hk' & Hr').
    destruct (hc_nostray _ _ HH h fh s rid' lr' Hfh Hk' Hr') as (h1 & Hh1 & [a' Hm']). assert (h1 = h0) as -> by congruence.
    assert (a' = h) by (eapply (hc_home _ _ HH h fh s rid' lr' h0 a'); eauto). subst a' a.
    assert (Hcur : (cur_version h0, cur_members h0) ∈ h0) by (apply cur_in; intros ->; by apply hist_wf_nonempty in Hw).
    destruct (hist_wf_mem_ok _ _ Hw _ Hcur) as [_ Hinj]. cbn [snd] in Hinj.
    assert (rid' = rid) as -> by (eapply Hinj; eauto).
    unfold member_running. rewrite Hfh, Hup, Ek. cbn. congruence.
  - set (reps' := <[(s, rid) := mkLRep true (lr_ver lr)]> (fh_reps fh)).
    set (fh' := mkFHost (fh_up fh) (fh_region fh) reps' (fh_queue fh) (fh_out fh)).
    assert (Hset : set_reps x.1 h reps' = <[h := fh']> x.1) by (unfold set_reps; by rewrite Hfh).
    rewrite Hset. eexists. split; [done|]. cbn [fst snd]. split; [done|].
    assert (Hkeys : ∀ k, is_Some (reps' !! k) ↔ is_Some (fh_reps fh !! k)).
    { intros k. unfold reps'. destruct (decide (k = (s, rid))) as [->|Hne].
      - rewrite lookup_insert, Ek. split; by eexists.
      - by rewrite lookup_insert_ne. }
    split; [split|].
    + intros a0 fh0. destruct (decide (a0 = h)) as [->|Hne].
      * rewrite lookup_insert. intros [= <-]. done.
      * rewrite lookup_insert_ne by done. apply (hc_up _ _ HH).
    + intros s1 h1 rid1 a1 Hh1 Hm1. destruct (hc_members _ _ HH s1 h1 rid1 a1 Hh1 Hm1) as (fh1 & lr1 & Hfh1 & Hk1).
      destruct (decide (a1 = h)) as [->|Hne].
      * rewrite lookup_insert. assert (fh1 = fh) as -> by congruence.
        assert (is_Some (reps' !! (s1, rid1))) as [lr2 Hlr2] by (apply Hkeys; by eexists). by exists fh', lr2.
      * rewrite lookup_insert_ne by done. eauto.
    + intros a0 fh0 s1 rid1 lr1 h1 a1. destruct (decide (a0 = h)) as [->|Hne].
      * rewrite lookup_insert. intros [= <-] Hk1. cbn [fh' fh_reps] in Hk1.
        assert (is_Some (fh_reps fh !! (s1, rid1))) as [lr2 Hlr2] by (apply Hkeys; by eexists).
        by apply (hc_home _ _ HH h fh s1 rid1 lr2 h1 a1).
      * rewrite lookup_insert_ne by done. apply (hc_home _ _ HH).
    + intros a0 fh0 s1 rid1 lr1. destruct (decide (a0 = h)) as [->|Hne].
      * rewrite lookup_insert. intros [= <-] Hk1 Hr1. cbn [fh' fh_reps] in Hk1. unfold reps' in Hk1.
        destruct (decide ((s1, rid1) = (s, rid))) as [[= -> ->]|Hnk].
        -- exists h0. split; [done|]. by eexists.
        -- rewrite lookup_insert_ne in Hk1 by done. by apply (hc_nostray _ _ HH h fh s1 rid1 lr1).
      * rewrite lookup_insert_ne by done. apply (hc_nostray _ _ HH).
    + split.
      * intros a0. destruct (decide (a0 = h)) as [->|Hne].
        -- rewrite Hfh, lookup_insert. exists fh'. repeat (split; [done|]). intros k. cbn [fh' fh_reps]. unfold reps'.
           destruct (decide (k = (s, rid))) as [->|Hnk].
           ++ rewrite Ek, lookup_insert. by eexists.
           ++ rewrite lookup_insert_ne by done. destruct (fh_reps fh !! k) as [lr1|]; [|done]. by exists lr1.
        -- rewrite lookup_insert_ne by done. destruct (x.1 !! a0) as [fh0|]; [|done]. exists fh0. repeat (split; [done|]).
           intros k. destruct (fh_reps fh0 !! k) as [lr1|]; [|done]. by exists lr1.
      * intros fh1 Hfh1 _. unfold member_running. rewrite lookup_insert. cbn [fh' fh_up fh_reps]. unfold reps'.
        rewrite lookup_insert, Hup. done.
Qed.

(* the other harmless requests change nothing *)
Lemma exec_harmless sz hist h q x :
  hists_wf sz hist → x.2 = hist → HCalm hist x.1 → harmless hist q → is_Some (x.1 !! h) →
  ∃ x', exec_req h true x q = Some x' ∧ x'.2 = hist ∧ HCalm hist x'.1 ∧ evolves x.1 x'.1 ∧
        ∀ fh, is_restore q = true → x.1 !! h = Some fh → is_Some (fh_reps fh !! (q_shard q, q_inst q)) →
              member_running x'.1 (q_shard q) (q_inst q) h = true.
Proof.
  intros Hwf Hx2 HH Hq [fh Hfh]. destruct Hq as [Hg|[(Hch & Hfence & Hmem & Haddr)|(Hk & y & Hy & Hdead)]].
  - destruct (exec_restore sz hist h q x Hwf Hx2 HH Hg) as (x' & E & H1 & H2 & H3 & H4); [by eexists|].
    exists x'. repeat (split; [done|]). intros fh0 _. apply H4.
  - (* ADD / DELETE with a stale fence *)
    assert (Hnop : exec_req h true x q = Some x).
    { unfold exec_req. rewrite Hfh. unfold is_change, is_add, is_delete in Hch, Haddr.
      destruct (q_type q) eqn:Et; try done.
      - destruct (q_members q) as [|rid ms]; [done|]. f_equal. unfold hist_of in *. rewrite Hx2.
        destruct (default [] (hist !! q_shard q)) as [|e hs]; [done|]. cbn [cur_version] in Hfence.
        unfold cc_ready. assert ((q_ccid q =? e.1) = false) as -> by (by apply N.eqb_neq). by rewrite !andb_false_r.
      - destruct (q_members q) as [|rid ms]; [done|]. destruct (q_addrs q) as [|t ts]; [by destruct Haddr|]. f_equal.
        unfold hist_of in *. rewrite Hx2.
        destruct (default [] (hist !! q_shard q)) as [|e hs]; [done|]. cbn [cur_version] in Hfence.
        unfold cc_ready. assert ((q_ccid q =? e.1) = false) as -> by (by apply N.eqb_neq). by rewrite !andb_false_r. }
    exists x. split; [done|]. split; [done|]. split; [done|]. split; [apply evolves_refl|].
    intros fh0 Hres. unfold is_restore, is_create in Hres. unfold is_change, is_add, is_delete in Hch. by destruct (q_type q).
  - (* KILL of a replica that is not a current member: it does not run *)
    assert (Hnop : exec_req h true x q = Some x).
    { unfold exec_req. rewrite Hfh. unfold is_kill in Hk. destruct (q_type q); try done. rewrite Hy. f_equal.
      destruct (fh_reps fh !! (q_shard q, y)) as [lr|] eqn:Ek; [|done]. destruct (lr_running lr) eqn:Er; [|done]. exfalso.
      destruct (hc_nostray _ _ HH h fh (q_shard q) y lr Hfh Ek Er) as (h0 & Hh0 & Hm). apply is_member_true in Hm.
      rewrite (Hdead h0 Hh0) in Hm. done. }
    exists x. split; [done|]. split; [done|]. split; [done|]. split; [apply evolves_refl|].
    intros fh0 Hres. unfold is_restore, is_create in Hres. unfold is_kill in Hk. by destruct (q_type q).
Qed.

Lemma exec_restores sz hist h qs : ∀ x,
  hists_wf sz hist → x.2 = hist → HCalm hist x.1 → Forall (harmless hist) qs → is_Some (x.1 !! h) →
  ∃ x', exec_all h true x qs = Some x' ∧ x'.2 = hist ∧ HCalm hist x'.1 ∧ evolves x.1 x'.1 ∧
        ∀ q fh, q ∈ qs → is_restore q = true → x.1 !! h = Some fh → is_Some (fh_reps fh !! (q_shard q, q_inst q)) →
                member_running x'.1 (q_shard q) (q_inst q) h = true.
Proof.
  induction qs as [|q qs IH]; intros x Hwf Hx2 HH Hgood Hh.
  { exists x. cbn. split; [done|]. split; [done|]. split; [done|]. split; [apply evolves_refl|].
    intros q fh Hin. by apply elem_of_nil in Hin. }
  apply Forall_cons_1 in Hgood as [Hg Hgood].
  destruct (exec_harmless sz hist h q x Hwf Hx2 HH Hg Hh) as (x1 & E1 & Hx1 & HH1 & Hev1 & Heff1).
  assert (Hh1 : is_Some (x1.1 !! h)).
  { destruct Hh as [fh Hfh]. pose proof (Hev1 h) as He. rewrite Hfh in He. destruct He as (fh' & -> & _). by eexists. }
  destruct (IH x1 Hwf Hx1 HH1 Hgood Hh1) as (x2 & E2 & Hx2' & HH2 & Hev2 & Heff2).
  exists x2. cbn [exec_all]. rewrite E1. split; [done|]. split; [done|]. split; [done|].
  split; [by eapply evolves_trans|].
  intros q0 fh Hin Hres Hfh Hk. apply elem_of_cons in Hin as [->|Hin].
  - eapply evolves_running; [exact Hev2|]. by eapply Heff1.
  - destruct (evolves_data _ _ h fh _ Hev1 Hfh Hk) as (fh1 & Hfh1 & Hk1). by eapply Heff2.
Qed.

(* the same replicas run, the same requests wait *)
Definition same_run (hosts hosts' : gmap N fhost) : Prop :=
  ∀ a, match hosts !! a with
       | Some fh => ∃ fh', hosts' !! a = Some fh' ∧ fh_up fh' = fh_up fh ∧ fh_queue fh' = fh_queue fh ∧
           ∀ k, match fh_reps fh !! k with
                | Some lr => ∃ lr', fh_reps fh' !! k = Some lr' ∧ lr_running lr' = lr_running lr
                | None => fh_reps fh' !! k = None
                end
       | None => hosts' !! a = None
       end.

Lemma same_run_refl hosts : same_run hosts hosts.
Proof.
  intros a. destruct (hosts !! a) as [fh|]; [|done]. exists fh. repeat (split; [done|]).
  intros k. destruct (fh_reps fh !! k) as [lr|]; [|done]. by exists lr.
Qed.

Lemma same_run_trans h1 h2 h3 : same_run h1 h2 → same_run h2 h3 → same_run h1 h3.
Proof.
  intros H12 H23 a. specialize (H12 a). specialize (H23 a). destruct (h1 !! a) as [fh1|].
  - destruct H12 as (fh2 & E2 & U2 & Q2 & R2). rewrite E2 in H23. destruct H23 as (fh3 & E3 & U3 & Q3 & R3).
    exists fh3. split; [done|]. split; [congruence|]. split; [congruence|].
    intros k. specialize (R2 k). specialize (R3 k). destruct (fh_reps fh1 !! k) as [lr1|].
    + destruct R2 as (lr2 & K2 & M2). rewrite K2 in R3. destruct R3 as (lr3 & K3 & M3). exists lr3. split; [done|]. congruence.
    + by rewrite R2 in R3.
  - by rewrite H12 in H23.
Qed.

Lemma same_run_running hosts hosts' s rid a :
  same_run hosts hosts' → member_running hosts' s rid a = member_running hosts s rid a.
Proof.
  intros He. unfold member_running. specialize (He a). destruct (hosts !! a) as [fh|]; [|by rewrite He].
  destruct He as (fh' & -> & -> & _ & Hr). specialize (Hr (s, rid)).
  destruct (fh_reps fh !! (s, rid)) as [lr|]; [|by rewrite Hr]. destruct Hr as (lr' & -> & ->). done.
Qed.

(* the same hosts hold the same data *)
Definition same_data (hosts hosts' : gmap N fhost) : Prop :=
  ∀ a, match hosts !! a with
       | Some fh => ∃ fh', hosts' !! a = Some fh' ∧ ∀ k, is_Some (fh_reps fh !! k) ↔ is_Some (fh_reps fh' !! k)
       | None => hosts' !! a = None
       end.

Lemma same_data_refl hosts : same_data hosts hosts.
Proof. intros a. destruct (hosts !! a) as [fh|]; [|done]. by exists fh. Qed.

Lemma same_data_trans h1 h2 h3 : same_data h1 h2 → same_data h2 h3 → same_data h1 h3.
Proof.
  intros H12 H23 a. specialize (H12 a). specialize (H23 a). destruct (h1 !! a) as [fh1|].
  - destruct H12 as (fh2 & E2 & R2). rewrite E2 in H23. destruct H23 as (fh3 & E3 & R3).
    exists fh3. split; [done|]. intros k. by rewrite R2, R3.
  - by rewrite H12 in H23.
Qed.

Lemma evolves_same_data hosts hosts' : evolves hosts hosts' → same_data hosts hosts'.
Proof.
  intros He a. specialize (He a). destruct (hosts !! a) as [fh|]; [|done].
  destruct He as (fh' & E & _ & _ & _ & Hr). exists fh'. split; [done|]. intros k. specialize (Hr k).
  destruct (fh_reps fh !! k) as [lr|].
  - destruct Hr as (lr' & -> & _). split; by eexists.
  - rewrite Hr. done.
Qed.

Lemma same_run_same_data hosts hosts' : same_run hosts hosts' → same_data hosts hosts'.
Proof.
  intros He a. specialize (He a). destruct (hosts !! a) as [fh|]; [|done].
  destruct He as (fh' & E & _ & _ & Hr). exists fh'. split; [done|]. intros k. specialize (Hr k).
  destruct (fh_reps fh !! k) as [lr|].
  - destruct Hr as (lr' & -> & _). split; by eexists.
  - rewrite Hr. done.
Qed.

Lemma host_addrs_nodup st : NoDup (host_addrs st).
Proof. unfold host_addrs. rewrite merge_sort_Permutation. apply NoDup_fst_map_to_list. Qed.

(** * one host reports *)
Section Heal.
Variable P : params.

Lemma report_result_mail d r view' kill' :
  d_deadline d = 0 →
  lookup_requests (report_result d r view' kill') (rp_addr r) = default [] (d_requests d !! rp_addr r) ∧
  d_requests (report_result d r view' kill') = delete (rp_addr r) (d_requests d).
Proof.
  intros Hd. unfold report_result, on_updated_shard_info, pickup, lookup_requests. cbn.
  destruct (d_requests d !! rp_addr r) as [qs|] eqn:E; cbn; rewrite Hd; cbn.
  - by rewrite lookup_insert.
  - rewrite lookup_delete. split; [done|]. symmetry. by apply delete_notin.
Qed.

Definition runs_on (fh : fhost) (s rid : N) : bool :=
  match fh_reps fh !! (s, rid) with Some lr => lr_running lr | None => false end.

Lemma report_names_runs st a fh plog s rid :
  f_hosts st !! a = Some fh → report_names s rid (host_report (f_db st) (f_hist st) a fh plog) = runs_on fh s rid.
Proof.
  intros Ha. apply eq_true_iff_eq. rewrite (steady_report_names st a fh plog s rid Ha). unfold runs_on. split.
  - intros (lr & -> & Hr). done.
  - destruct (fh_reps fh !! (s, rid)) as [lr|]; [|done]. intros Hr. by exists lr.
Qed.

(* in a calm state every entry of a report is partial: Drummer already has the current membership *)
Lemma calm_report_incomplete st a fh plog ci :
  Calm st → f_hosts st !! a = Some fh → ci ∈ rp_infos (host_report (f_db st) (f_hist st) a fh plog) → complete ci = false.
Proof.
  intros HC Ha Hci. unfold host_report in Hci. cbn [rp_infos] in Hci.
  apply elem_of_list_fmap in Hci as ([[s rid] lr] & -> & Hin). apply elem_of_list_filter in Hin as [Hrun Hin].
  apply sorted_reps_elem in Hin. cbn in Hrun, Hin.
  destruct (cm_nostray _ HC _ _ _ _ _ Ha Hin Hrun) as (h & Hh & Hm).
  destruct (cm_members _ HC _ _ Hh) as (c & Hc & Hcci & _).
  pose proof (rep_ver_le st a fh s rid lr h (cm_inv _ HC) Ha Hin Hh) as Hle.
  unfold rep_info, complete. cbn [fst snd]. destruct (lr_ver lr =? 0); [done|].
  unfold view_vers. rewrite lookup_fmap, Hc. cbn. rewrite Hcci.
  assert ((lr_ver lr <=? cur_version h) = true) as -> by (apply N.leb_le; lia). done.
Qed.

Lemma boxed_deliver st a fh d' :
  f_hosts st !! a = Some fh → d_deadline (f_db st) = 0 →
  (∀ b qs, d_requests d' !! b = Some qs → d_requests (f_db st) !! b = Some qs) →
  (∀ b qs, d_outgoing d' !! b = Some qs → d_outgoing (f_db st) !! b = Some qs ∨ d_requests (f_db st) !! b = Some qs) →
  ∀ q, boxed (mkF d' (<[a := mkFHost true (fh_region fh) (fh_reps fh) (fh_queue fh ++ lookup_requests d' a) None]> (f_hosts st))
               (f_hist st) (f_seen st)) q → boxed st q.
Proof.
  intros Ha Hd E7 E8 q. unfold boxed, in_box. cbn [f_db f_hosts].
  intros [(b & qs & Hl & Hin)|[(b & qs & Hl & Hin)|[(b & fh0 & H0 & Hin)|Hq]]].
  - left. eauto.
  - destruct (E8 _ _ Hl) as [Ho|Ho]; [right; left|left]; eauto.
  - destruct (decide (b = a)) as [->|Hne].
    + rewrite lookup_insert in H0. injection H0 as <-. cbn in Hin. apply elem_of_app in Hin as [Hin|Hin].
      * right; right; left. eauto.
      * unfold lookup_requests in Hin. destruct (d_outgoing d' !! a) as [qs|] eqn:Eo; [|by apply elem_of_nil in Hin]. cbn in Hin.
        destruct (E8 _ _ Eo) as [Ho|Ho]; [right; left|left]; eauto.
    + rewrite lookup_insert_ne in H0 by done. right; right; left. eauto.
  - by apply elem_of_nil in Hq.
Qed.

Lemma calm_report st a fh plog :
  Calm st → f_hosts st !! a = Some fh →
  ∃ st', steps P st [ESnap a plog; EDeliver a false] = Some st' ∧ Calm st' ∧
    f_hist st' = f_hist st ∧ f_seen st' = f_seen st ∧
    d_tick (f_db st') = d_tick (f_db st) ∧ d_shards (f_db st') = d_shards (f_db st) ∧
    d_requests (f_db st') = delete a (d_requests (f_db st)) ∧
    f_hosts st' = <[a := mkFHost true (fh_region fh) (fh_reps fh) (fh_queue fh ++ default [] (d_requests (f_db st) !! a)) None]> (f_hosts st) ∧
    (∀ s, shard_core <$> d_view (f_db st') !! s = shard_core <$> d_view (f_db st) !! s) ∧
    (∀ s rid n', rec_of (d_view (f_db st')) s rid = Some n' →
       ∃ n, rec_of (d_view (f_db st)) s rid = Some n ∧
            r_tick n' = if runs_on fh s rid then d_tick (f_db st) else r_tick n) ∧
    (∃ h, d_hosts (f_db st') !! a = Some h ∧ h_tick h = d_tick (f_db st) ∧
          (plog = true → ∀ k, is_Some (fh_reps fh !! k) → k ∈ h_plog h)) ∧
    (∀ a' h, a' ≠ a → d_hosts (f_db st) !! a' = Some h →
       ∃ h', d_hosts (f_db st') !! a' = Some h' ∧ h_tick h' = h_tick h ∧ h_plog h' = h_plog h).
Proof.
  intros HC Ha. destruct (cm_hosts _ HC _ _ Ha) as (Hup & Hout).
  pose proof (cm_inv _ HC) as HI.
  set (r := host_report (f_db st) (f_hist st) a fh plog).
  set (fh1 := mkFHost true (fh_region fh) (fh_reps fh) (fh_queue fh) (Some r)).
  set (st1 := set_host st a fh1).
  assert (E1 : fstep P st (ESnap a plog) = FOk st1) by (cbn [fstep]; by rewrite Ha, Hup).
  pose proof (step_inv P st (ESnap a plog) st1 HI I E1) as HI1.
  assert (Ha1 : f_hosts st1 !! a = Some fh1) by (unfold st1, set_host; cbn; by rewrite lookup_insert).
  pose proof (step_deliver_no_panic P st1 a false HI1) as Hnp.
  cbn [fstep] in Hnp. rewrite Ha1 in Hnp. cbn [fh_up fh1 fh_out] in Hnp.
  destruct (db_step P (f_db st1) (CReport r)) as [d' v| |] eqn:Es; try done. clear Hnp.
  set (fh2 := mkFHost true (fh_region fh1) (fh_reps fh1) (fh_queue fh1 ++ lookup_requests d' a) None).
  set (st2 := mkF d' (<[a := fh2]> (f_hosts st1)) (f_hist st1) (f_seen st1)).
  assert (E2 : fstep P st1 (EDeliver a false) = FOk st2).
  { cbn [fstep]. rewrite Ha1. cbn [fh_up fh1 fh_out]. by rewrite Es. }
  pose proof (step_inv P st1 (EDeliver a false) st2 HI1 I E2) as HI2.
  change (f_db st1) with (f_db st) in Es.
  assert (Hn : next P (f_db st) (CReport r) = Some d') by (unfold next; by rewrite Es).
  pose proof Hn as Hn'. apply next_cases in Hn' as [[Hf' _]|[_ (view' & kill' & Hvu & Ed')]];
    [rewrite (li_failed _ _ _ _ _ HI) in Hf'; done|].
  pose proof (li_deadline _ _ _ _ _ HI) as Hdl.
  destruct (report_result_all (f_db st) (stamp (f_db st) r) view' kill' Hdl) as (F1 & F2 & F3 & F4 & F5 & F6 & F7 & F8).
  destruct (report_result_mail (f_db st) (stamp (f_db st) r) view' kill' Hdl) as [Hreply Hreqs].
  rewrite <- Ed' in F1, F2, F3, F4, F5, F6, F7, F8, Hreply, Hreqs.
  change (rp_addr (stamp (f_db st) r)) with a in Hreply, Hreqs.
  assert (Hinc : ∀ ci, ci ∈ rp_infos r → complete ci = false) by (intros ci; by apply calm_report_incomplete).
  assert (Hcore : ∀ s, shard_core <$> d_view d' !! s = shard_core <$> d_view (f_db st) !! s).
  { intros s. eapply step_inert_partial; [exact Hn|]. intros ci Hin _. by apply Hinc. }
  assert (Htick : d_tick d' = d_tick (f_db st)).
  { rewrite Ed'. by destruct (DBTimeProofs.report_result_fields (f_db st) (stamp (f_db st) r) view' kill') as (Et & _). }
  assert (Hhosts2 : <[a := fh2]> (f_hosts st1) =
            <[a := mkFHost true (fh_region fh) (fh_reps fh) (fh_queue fh ++ default [] (d_requests (f_db st) !! a)) None]> (f_hosts st)).
  { unfold st1, set_host. cbn [f_hosts]. rewrite insert_insert. unfold fh2, fh1. cbn. by rewrite Hreply. }
  assert (Hcci : ∀ s c, d_view (f_db st) !! s = Some c → ∃ c', d_view d' !! s = Some c' ∧ s_cci c' = s_cci c ∧ dom (s_reps c') = dom (s_reps c)).
  { intros s c Hc. specialize (Hcore s). rewrite Hc in Hcore. destruct (d_view d' !! s) as [c'|]; [|done].
    cbn in Hcore. injection Hcore as H1 H2 H3. exists c'. split; [done|]. split; [done|].
    apply set_eq. intros k. rewrite !elem_of_dom. rewrite <- !(fmap_is_Some rep_core), <- !lookup_fmap, H3. done. }
  assert (Hcci' : ∀ s c', d_view d' !! s = Some c' → ∃ c, d_view (f_db st) !! s = Some c ∧ s_cci c' = s_cci c ∧ dom (s_reps c') = dom (s_reps c)).
  { intros s c' Hc'. specialize (Hcore s). rewrite Hc' in Hcore. destruct (d_view (f_db st) !! s) as [c|] eqn:Ec; [|done].
    destruct (Hcci s c Ec) as (c2 & Hc2 & ? & ?). assert (c2 = c') as -> by congruence. by exists c. }
  (* the kill list stays empty *)
  assert (Hkill' : kill' = []).
  { unfold view_update in Hvu.
    destruct (update_entries (d_tick (f_db st)) (d_view (f_db st), []) (rp_infos (stamp (f_db st) r))) as [[view1 tokill]|] eqn:Eu; [|done].
    injection Hvu as _ <-. rewrite (cm_kill _ HC). cbn [filter app].
    assert (tokill = []) as ->; [|done]. apply elem_of_nil_inv. intros ci Hci.
    assert (Hrok : Forall (DBViewProofs.entry_ok (Hf (f_hist st))) (rp_infos (stamp (f_db st) r))).
    { apply Forall_forall. intros ci' Hin' Hc'. cbn [stamp rp_infos] in Hin'. rewrite (Hinc ci' Hin') in Hc'. done. }
    destruct (update_entries_tokill (Hf (f_hist st)) _ _ _ _ _ _ (li_view _ _ _ _ _ HI) Hrok Eu ci Hci)
      as [Hnil|(Hin & vm & ec & Hvi & Hvm & Hl & Hkr)]; [by apply elem_of_nil in Hnil|].
    cbn [stamp rp_infos] in Hin. unfold r, host_report in Hin. cbn [rp_infos] in Hin.
    apply elem_of_list_fmap in Hin as ([[s rid] lr] & -> & Hin). apply elem_of_list_filter in Hin as [Hrun Hin].
    apply sorted_reps_elem in Hin. cbn in Hrun, Hin. cbn [fst snd] in Hl, Hkr.
    destruct (cm_nostray _ HC _ _ _ _ _ Ha Hin Hrun) as (h & Hh & Hm).
    destruct (cm_members _ HC _ _ Hh) as (c & Hc & Hcc & _).
    assert (Hs : si_shard (rep_info (view_vers (f_db st)) (f_hist st) (s, rid) lr) = s) by (unfold rep_info; by destruct (lr_ver lr =? 0)).
    assert (Hr : si_replica (rep_info (view_vers (f_db st)) (f_hist st) (s, rid) lr) = rid) by (unfold rep_info; by destruct (lr_ver lr =? 0)).
    rewrite Hs in Hl. destruct (Hvi _ _ Hl) as (_ & HH & _). unfold Hf, hist_of in HH. rewrite Hh in HH. cbn in HH.
    pose proof (li_hist _ _ _ _ _ HI _ _ Hh) as Hw.
    pose proof (hist_wf_le _ _ Hw _ (entry_at_Some _ _ _ HH)) as Hle. cbn [fst] in Hle.
    assert (Hge : cur_version h ≤ s_cci ec).
    { destruct (Hvm s (s_cci c)) as (v' & Hv' & Hvle); [unfold ver; by rewrite Hc|].
      unfold ver in Hv'. rewrite Hl in Hv'. cbn in Hv'. injection Hv' as <-. lia. }
    assert (Heq : s_cci ec = cur_version h) by lia.
    destruct (cur_entry_at _ _ _ HI Hh) as [Hcur _]. rewrite Heq, Hcur in HH. injection HH as HH.
    unfold kill_required in Hkr. rewrite Hr in Hkr. destruct (s_cci ec <=? _); [done|].
    assert (is_Some (s_reps ec !! rid)) as [n Hn0]; [|by rewrite Hn0 in Hkr].
    rewrite <- (fmap_is_Some r_addr), <- lookup_fmap, <- HH. done. }
  exists st2. split.
  { cbn [steps]. rewrite E1, E2. done. }
  assert (Hst2 : st2 = mkF d' (<[a := mkFHost true (fh_region fh) (fh_reps fh) (fh_queue fh ++ default [] (d_requests (f_db st) !! a)) None]> (f_hosts st))
                        (f_hist st) (f_seen st)).
  { unfold st2. rewrite Hhosts2. done. }
  assert (Hrepsame : ∀ a0 fh0, f_hosts st2 !! a0 = Some fh0 → ∃ fh', f_hosts st !! a0 = Some fh' ∧ fh_reps fh0 = fh_reps fh' ∧ fh_up fh0 = true ∧ fh_out fh0 = None).
  { intros a0 fh0. rewrite Hst2. cbn [f_hosts]. destruct (decide (a0 = a)) as [->|Hne].
    - rewrite lookup_insert. intros [= <-]. exists fh. done.
    - rewrite lookup_insert_ne by done. intros H0. exists fh0. split; [done|]. split; [done|]. by apply (cm_hosts _ HC a0). }
  assert (Hticks : ∀ s rid n', rec_of (d_view d') s rid = Some n' →
            ∃ n, rec_of (d_view (f_db st)) s rid = Some n ∧ r_tick n' = if runs_on fh s rid then d_tick (f_db st) else r_tick n).
  { intros s rid n' Hrec.
    destruct (step_times P (f_db st) (CReport r) d' s rid n' Hn Hrec) as [(n0 & Hn0 & _ & Htk)|(r0 & Er0 & _ & Hor & _)].
    - exists n0. split; [done|]. rewrite (li_failed _ _ _ _ _ HI) in Htk. cbn [negb andb names_cmd] in Htk.
      unfold r in Htk. rewrite (report_names_runs st a fh plog s rid Ha) in Htk. done.
    - exfalso. injection Er0 as <-. destruct Hor as [Hnone|Hmulti].
      + apply rec_of_Some in Hrec as (c' & Hc' & Hn'). destruct (Hcci' s c' Hc') as (c & Hc & _ & Hdom).
        assert (is_Some (s_reps c !! rid)) as [n0 Hn0] by (apply elem_of_dom; rewrite <- Hdom; apply elem_of_dom; by eexists).
        assert (rec_of (d_view (f_db st)) s rid = Some n0) by (apply rec_of_Some; eauto). congruence.
      + unfold multi_entry in Hmulti. rewrite (n_complete_zero s (rp_infos r) Hinc) in Hmulti. lia. }
  split.
  { (* Calm *)
    split.
    - exact HI2.
    - eapply fstep_time_ok; [exact E2|]. eapply fstep_time_ok; [exact E1|]. apply (cm_timeok _ HC).
    - cbn [st2 f_db]. rewrite Htick. apply (cm_time _ HC).
    - cbn [st2 f_db f_hist]. rewrite F3. apply (cm_defined _ HC).
    - cbn [st2 f_db f_hist]. rewrite F3. intros s [c' Hc']. destruct (Hcci' s c' Hc') as (c & Hc & _). apply (cm_viewdef _ HC). by eexists.
    - intros a0 fh0 H0. destruct (Hrepsame a0 fh0 H0) as (_ & _ & _ & ? & ?). done.
    - cbn [st2 f_db]. by rewrite F5.
    - intros q Hq. rewrite Hst2 in Hq. apply (cm_boxes _ HC).
      apply (boxed_deliver st a fh d' Ha Hdl F7 F8). rewrite <- Hreply in Hq. exact Hq.
    - cbn [st2 f_db f_hist]. intros s h Hh. destruct (cm_members _ HC s h Hh) as (c & Hc & Hcc & Hmem).
      destruct (Hcci s c Hc) as (c' & Hc' & Hcc' & _). exists c'. split; [done|]. split; [congruence|].
      intros rid a0 Hm. destruct (Hmem rid a0 Hm) as (Hr0 & Ha0 & fh0 & lr & Hfh0 & Hk). split; [done|]. split; [done|].
      rewrite Hst2. cbn [f_hosts]. destruct (decide (a0 = a)) as [->|Hne].
      + rewrite lookup_insert. assert (fh0 = fh) as -> by congruence. eexists _, lr. split; [done|]. done.
      + rewrite lookup_insert_ne by done. eauto.
    - cbn [st2 f_db]. intros s c' rid n' Hc' Hn'. assert (Hrec : rec_of (d_view d') s rid = Some n') by (apply rec_of_Some; eauto).
      destruct (Hticks s rid n' Hrec) as (n0 & Hn0 & Htk). rewrite Htk. destruct (runs_on fh s rid).
      + pose proof (cm_time _ HC). lia.
      + apply rec_of_Some in Hn0 as (c0 & Hc0 & Hn0). by apply (cm_stamped _ HC s c0 rid n0).
    - intros a0 fh0 s rid lr h a' H0 Hk. destruct (Hrepsame a0 fh0 H0) as (fh' & Hfh' & Hreps & _). rewrite Hreps in Hk.
      cbn [st2 f_hist]. by apply (cm_home _ HC a0 fh' s rid lr h a').
    - intros a0 fh0 s rid lr H0 Hk. destruct (Hrepsame a0 fh0 H0) as (fh' & Hfh' & Hreps & _). rewrite Hreps in Hk.
      cbn [st2 f_hist]. by apply (cm_nostray _ HC a0 fh' s rid lr). }
  split; [done|]. split; [done|]. split; [exact Htick|]. split; [exact F3|]. split; [exact Hreqs|].
  split; [by rewrite Hst2|]. split; [exact Hcore|]. split; [exact Hticks|].
  cbn [st2 f_db]. rewrite F6. unfold sync_shard_info. split.
  - rewrite lookup_fmap. unfold host_update. cbn [rp_addr stamp r host_report rp_region rp_plog_incl rp_plog].
    destruct (d_hosts (f_db st) !! a) as [h0|]; rewrite lookup_insert; cbn; (eexists; split; [done|]); cbn [h_tick h_plog];
      (split; [done|]); intros -> k [lr Hk]; apply elem_of_list_fmap; exists (k, lr); (split; [done|]);
      unfold sorted_reps; rewrite merge_sort_Permutation; by apply elem_of_map_to_list.
  - intros a' h Hne Hh. rewrite lookup_fmap. unfold host_update. cbn [rp_addr stamp r host_report].
    destruct (d_hosts (f_db st) !! a) as [h0|]; rewrite lookup_insert_ne by done; rewrite Hh; cbn; (eexists; split; [done|]); done.
Qed.

(** * all hosts report *)
Definition delivered (st : fstate) (a : N) (fh : fhost) : fhost :=
  mkFHost true (fh_region fh) (fh_reps fh) (fh_queue fh ++ default [] (d_requests (f_db st) !! a)) None.

Lemma calm_reports (plogs : N → bool) (l : list N) : ∀ st,
  Calm st → NoDup l → (∀ a, a ∈ l → is_Some (f_hosts st !! a)) →
  ∃ st', steps P st (l ≫= λ a, [ESnap a (plogs a); EDeliver a false]) = Some st' ∧ Calm st' ∧
    f_hist st' = f_hist st ∧ f_seen st' = f_seen st ∧
    d_tick (f_db st') = d_tick (f_db st) ∧ d_shards (f_db st') = d_shards (f_db st) ∧
    (∀ a, a ∈ l → d_requests (f_db st') !! a = None) ∧
    (∀ a, a ∉ l → d_requests (f_db st') !! a = d_requests (f_db st) !! a) ∧
    (∀ a fh, a ∈ l → f_hosts st !! a = Some fh → f_hosts st' !! a = Some (delivered st a fh)) ∧
    (∀ a, a ∉ l → f_hosts st' !! a = f_hosts st !! a) ∧
    (∀ s, shard_core <$> d_view (f_db st') !! s = shard_core <$> d_view (f_db st) !! s) ∧
    (∀ s rid n', rec_of (d_view (f_db st')) s rid = Some n' →
       ∃ n, rec_of (d_view (f_db st)) s rid = Some n ∧
            (((∃ a fh, a ∈ l ∧ f_hosts st !! a = Some fh ∧ runs_on fh s rid = true) ∧ r_tick n' = d_tick (f_db st)) ∨
             ((∀ a fh, a ∈ l → f_hosts st !! a = Some fh → runs_on fh s rid = false) ∧ r_tick n' = r_tick n))) ∧
    (∀ a fh, a ∈ l → f_hosts st !! a = Some fh →
       ∃ h, d_hosts (f_db st') !! a = Some h ∧ h_tick h = d_tick (f_db st) ∧
            (plogs a = true → ∀ k, is_Some (fh_reps fh !! k) → k ∈ h_plog h)) ∧
    (∀ a h, a ∉ l → d_hosts (f_db st) !! a = Some h →
       ∃ h', d_hosts (f_db st') !! a = Some h' ∧ h_tick h' = h_tick h ∧ h_plog h' = h_plog h).
Proof.
  induction l as [|a l IH]; intros st HC Hnd Hl.
  { exists st. cbn. split; [done|]. split; [done|]. repeat (split; [done|]).
    split; [intros a Hin; by apply elem_of_nil in Hin|]. split; [done|].
    split; [intros a fh Hin; by apply elem_of_nil in Hin|]. split; [done|]. split; [done|].
    split. { intros s rid n' Hrec. exists n'. split; [done|]. right. split; [|done]. intros a fh Hin. by apply elem_of_nil in Hin. }
    split; [intros a fh Hin; by apply elem_of_nil in Hin|]. intros a h _ Hh. by exists h. }
  apply NoDup_cons in Hnd as [Hnotin Hnd].
  destruct (Hl a) as [fh Ha]; [left|].
  destruct (calm_report st a fh (plogs a) HC Ha) as (st1 & E1 & HC1 & Hhi1 & Hse1 & Ht1 & Hsh1 & Hrq1 & Hho1 & Hco1 & Htk1 & Hsp1 & Hot1).
  destruct (IH st1 HC1 Hnd) as (st2 & E2 & HC2 & Hhi2 & Hse2 & Ht2 & Hsh2 & Hq1 & Hq2 & Hh1 & Hh2 & Hco2 & Htk2 & Hsp2 & Hot2).
  { intros a' Hin. rewrite Hho1. destruct (decide (a' = a)) as [->|Hne]; [by rewrite lookup_insert|].
    rewrite lookup_insert_ne by done. apply Hl. by right. }
  assert (Hreps1 : ∀ a' fh', f_hosts st !! a' = Some fh' → ∃ fh1, f_hosts st1 !! a' = Some fh1 ∧ fh_reps fh1 = fh_reps fh').
  { intros a' fh' Hfh'. rewrite Hho1. destruct (decide (a' = a)) as [->|Hne].
    - rewrite lookup_insert. assert (fh' = fh) as -> by congruence. by eexists.
    - rewrite lookup_insert_ne by done. by exists fh'. }
  assert (Hruns1 : ∀ a' fh' fh1 s rid, f_hosts st !! a' = Some fh' → f_hosts st1 !! a' = Some fh1 → runs_on fh1 s rid = runs_on fh' s rid).
  { intros a' fh' fh1 s rid Hfh' Hfh1. destruct (Hreps1 a' fh' Hfh') as (fh1' & Hx & Hr). assert (fh1' = fh1) as -> by congruence.
    unfold runs_on. by rewrite Hr. }
  exists st2. split.
  { rewrite bind_cons, steps_app, E1. exact E2. }
  split; [done|]. split; [congruence|]. split; [congruence|]. split; [congruence|]. split; [congruence|].
  split. { intros a' Hin. apply elem_of_cons in Hin as [->|Hin]; [|by apply Hq1].
           rewrite Hq2 by done. rewrite Hrq1. apply lookup_delete. }
  split. { intros a' Hnin. apply not_elem_of_cons in Hnin as [Hne Hnin]. rewrite Hq2 by done. rewrite Hrq1. by rewrite lookup_delete_ne. }
  split. { intros a' fh' Hin Hfh'. apply elem_of_cons in Hin as [->|Hin].
           - assert (fh' = fh) as -> by congruence. rewrite Hh2 by done. rewrite Hho1, lookup_insert. done.
           - assert (a' ≠ a) as Hne by (intros ->; done).
             rewrite (Hh1 a' fh' Hin) by (rewrite Hho1, lookup_insert_ne; done).
             unfold delivered. rewrite Hrq1, lookup_delete_ne by done. done. }
  split. { intros a' Hnin. apply not_elem_of_cons in Hnin as [Hne Hnin]. rewrite Hh2 by done. rewrite Hho1. by rewrite lookup_insert_ne. }
  split. { intros s. by rewrite Hco2, Hco1. }
  split.
  { intros s rid n2 Hrec2. destruct (Htk2 s rid n2 Hrec2) as (n1 & Hrec1 & Hcase2).
    destruct (Htk1 s rid n1 Hrec1) as (n0 & Hrec0 & Htk0). exists n0. split; [done|].
    destruct Hcase2 as [[(a' & fh1 & Hin & Hfh1 & Hrun) Htick]|[Hnone Htick]].
    - left. split; [|congruence]. assert (a' ≠ a) as Hne by (intros ->; done).
      rewrite Hho1, lookup_insert_ne in Hfh1 by done. exists a', fh1. split; [by right|]. done.
    - destruct (runs_on fh s rid) eqn:Erun.
      + left. split; [|congruence]. exists a, fh. split; [left|]. done.
      + right. split; [|congruence]. intros a' fh' Hin Hfh'. apply elem_of_cons in Hin as [->|Hin]; [congruence|].
        destruct (Hreps1 a' fh' Hfh') as (fh1 & Hfh1 & Hr). rewrite <- (Hruns1 a' fh' fh1 s rid Hfh' Hfh1). by apply (Hnone a'). }
  split.
  { intros a' fh' Hin Hfh'. apply elem_of_cons in Hin as [->|Hin].
    - assert (fh' = fh) as -> by congruence. destruct Hsp1 as (h1 & Hh1' & Htk & Hpl).
      destruct (Hot2 a h1 Hnotin Hh1') as (h2 & Hh2' & Htk' & Hpl'). exists h2. split; [done|]. split; [congruence|]. rewrite Hpl'. done.
    - destruct (Hreps1 a' fh' Hfh') as (fh1 & Hfh1 & Hr).
      destruct (Hsp2 a' fh1 Hin Hfh1) as (h2 & Hh2' & Htk' & Hpl'). exists h2. split; [done|]. split; [congruence|]. by rewrite <- Hr. }
  intros a' h Hnin Hh. apply not_elem_of_cons in Hnin as [Hne Hnin].
  destruct (Hot1 a' h Hne Hh) as (h1 & Hh1' & Htk & Hpl). destruct (Hot2 a' h1 Hnin Hh1') as (h2 & Hh2' & Htk' & Hpl').
  exists h2. split; [done|]. split; congruence.
Qed.

(** * the hosts execute their queues *)
Definition unq (fh : fhost) : fhost := mkFHost (fh_up fh) (fh_region fh) (fh_reps fh) [] (fh_out fh).

Lemma calm_exec st a fh :
  Calm st → f_hosts st !! a = Some fh →
  ∃ st', fstep P st (EExec a true) = FOk st' ∧ Calm st' ∧
    f_db st' = f_db st ∧ f_hist st' = f_hist st ∧ f_seen st' = f_seen st ∧
    evolves (<[a := unq fh]> (f_hosts st)) (f_hosts st') ∧
    ∀ q, q ∈ fh_queue fh → is_restore q = true → is_Some (fh_reps fh !! (q_shard q, q_inst q)) →
         member_running (f_hosts st') (q_shard q) (q_inst q) a = true.
Proof.
  intros HC Ha. pose proof (cm_inv _ HC) as HI. destruct (cm_hosts _ HC _ _ Ha) as [Hup Hout].
  set (hosts0 := <[a := unq fh]> (f_hosts st)).
  assert (HH0 : HCalm (f_hist st) hosts0).
  { pose proof (calm_hcalm st HC) as HH. split.
    - intros b fhb. unfold hosts0. destruct (decide (b = a)) as [->|Hne].
      + rewrite lookup_insert. intros [= <-]. done.
      + rewrite lookup_insert_ne by done. apply (hc_up _ _ HH).
    - intros s h rid b Hh Hm. destruct (hc_members _ _ HH s h rid b Hh Hm) as (fhb & lr & Hfhb & Hk). unfold hosts0.
      destruct (decide (b = a)) as [->|Hne].
      + rewrite lookup_insert. assert (fhb = fh) as -> by congruence. by exists (unq fh), lr.
      + rewrite lookup_insert_ne by done. eauto.
    - intros b fhb s rid lr h a'. unfold hosts0. destruct (decide (b = a)) as [->|Hne].
      + rewrite lookup_insert. intros [= <-]. cbn [unq fh_reps]. by apply (hc_home _ _ HH a fh).
      + rewrite lookup_insert_ne by done. apply (hc_home _ _ HH).
    - intros b fhb s rid lr. unfold hosts0. destruct (decide (b = a)) as [->|Hne].
      + rewrite lookup_insert. intros [= <-]. cbn [unq fh_reps]. by apply (hc_nostray _ _ HH a fh).
      + rewrite lookup_insert_ne by done. apply (hc_nostray _ _ HH). }
  assert (Hgood : Forall (harmless (f_hist st)) (fh_queue fh)).
  { apply Forall_forall. intros q Hq. apply (cm_boxes _ HC). right; right; left. eauto. }
  destruct (exec_restores (shard_size (f_db st)) (f_hist st) a (fh_queue fh) (hosts0, f_hist st)
              (li_hist _ _ _ _ _ HI) eq_refl HH0 Hgood) as (x' & Ex & Hx2 & HH' & Hev & Heff).
  { cbn [fst]. unfold hosts0. rewrite lookup_insert. by eexists. }
  set (st' := mkF (f_db st) x'.1 x'.2 (f_seen st)).
  assert (E : fstep P st (EExec a true) = FOk st').
  { cbn [fstep]. rewrite Ha, Hup.
    assert (Hunq : mkFHost true (fh_region fh) (fh_reps fh) [] (fh_out fh) = unq fh) by (unfold unq; by rewrite Hup).
    rewrite Hunq. fold hosts0. by rewrite Ex. }
  exists st'. split; [exact E|].
  pose proof (step_inv P st (EExec a true) st' HI I E) as HI'.
  cbn [fst snd] in Hev, Heff, HH'.
  split.
  { apply (calm_change_hosts st st' HC HI'); [done|done|exact HH'|].
    intros q [Hq|[Hq|[(b & fhb & Hb & Hin)|Hq]]]; [by left|by right; left| |by right; right; right].
    cbn [st' f_hosts] in Hb. pose proof (Hev b) as Hevb. destruct (hosts0 !! b) as [fh0|] eqn:E0; [|congruence].
    destruct Hevb as (fh1 & Hfh1 & _ & Hq1 & _). assert (fh1 = fhb) as -> by congruence. rewrite Hq1 in Hin.
    unfold hosts0 in E0. destruct (decide (b = a)) as [->|Hne].
    - rewrite lookup_insert in E0. injection E0 as <-. by apply elem_of_nil in Hin.
    - rewrite lookup_insert_ne in E0 by done. right; right; left. eauto. }
  split; [done|]. split; [done|]. split; [done|]. split; [exact Hev|].
  intros q Hq Hres Hk. apply (Heff q (unq fh) Hq Hres); [unfold hosts0; by rewrite lookup_insert|exact Hk].
Qed.

Lemma calm_execs (l : list N) : ∀ st,
  Calm st → NoDup l → (∀ a, a ∈ l → is_Some (f_hosts st !! a)) →
  ∃ st', steps P st ((λ a, EExec a true) <$> l) = Some st' ∧ Calm st' ∧
    f_db st' = f_db st ∧ f_hist st' = f_hist st ∧ f_seen st' = f_seen st ∧
    (∀ a fh', a ∈ l → f_hosts st' !! a = Some fh' → fh_queue fh' = []) ∧
    (∀ a fh, a ∉ l → f_hosts st !! a = Some fh → ∃ fh', f_hosts st' !! a = Some fh' ∧ fh_queue fh' = fh_queue fh) ∧
    same_data (f_hosts st) (f_hosts st') ∧
    (∀ a s rid, member_running (f_hosts st) s rid a = true → member_running (f_hosts st') s rid a = true) ∧
    (∀ a fh q, a ∈ l → f_hosts st !! a = Some fh → q ∈ fh_queue fh → is_restore q = true →
       is_Some (fh_reps fh !! (q_shard q, q_inst q)) →
       member_running (f_hosts st') (q_shard q) (q_inst q) a = true).
Proof.
  induction l as [|a l IH]; intros st HC Hnd Hl.
  { exists st. cbn. split; [done|]. split; [done|]. repeat (split; [done|]).
    split; [intros a fh' Hin; by apply elem_of_nil in Hin|]. split; [intros a fh _ Hfh; by exists fh|].
    split; [apply same_data_refl|]. split; [done|]. intros a fh q Hin. by apply elem_of_nil in Hin. }
  apply NoDup_cons in Hnd as [Hnotin Hnd]. destruct (Hl a) as [fh Ha]; [left|].
  destruct (calm_exec st a fh HC Ha) as (st1 & E1 & HC1 & Hd1 & Hh1 & Hs1 & Hev1 & Heff1).
  (* what one execution does to the hosts *)
  assert (Hhost1 : ∀ b fhb, f_hosts st !! b = Some fhb → ∃ fhb1, f_hosts st1 !! b = Some fhb1 ∧
             fh_queue fhb1 = (if decide (b = a) then [] else fh_queue fhb) ∧
             ∀ k, is_Some (fh_reps fhb !! k) → is_Some (fh_reps fhb1 !! k)).
  { intros b fhb Hb. pose proof (Hev1 b) as He. destruct (decide (b = a)) as [->|Hne].
    - rewrite lookup_insert in He. destruct He as (fhb1 & Hx & _ & Hq & _ & Hr). assert (fhb = fh) as -> by congruence.
      exists fhb1. split; [done|]. split; [done|]. intros k [lr Hk]. specialize (Hr k). cbn [unq fh_reps] in Hr. rewrite Hk in Hr.
      destruct Hr as (lr' & Hlr' & _). by eexists.
    - rewrite lookup_insert_ne, Hb in He by done. destruct He as (fhb1 & Hx & _ & Hq & _ & Hr).
      exists fhb1. split; [done|]. split; [done|]. intros k [lr Hk]. specialize (Hr k). rewrite Hk in Hr.
      destruct Hr as (lr' & Hlr' & _). by eexists. }
  assert (Hmono1 : ∀ b s rid, member_running (f_hosts st) s rid b = true → member_running (f_hosts st1) s rid b = true).
  { intros b s rid Hrun. eapply evolves_running; [exact Hev1|]. unfold member_running in *.
    destruct (decide (b = a)) as [->|Hne]; [rewrite lookup_insert; rewrite Ha in Hrun; exact Hrun|by rewrite lookup_insert_ne]. }
  destruct (IH st1 HC1 Hnd) as (st2 & E2 & HC2 & Hd2 & Hh2 & Hs2 & Hq2 & Hnq2 & Hdata2 & Hmono2 & Heff2).
  { intros b Hin. destruct (Hl b) as [fhb Hb]; [by right|]. destruct (Hhost1 b fhb Hb) as (fhb1 & -> & _). by eexists. }
  exists st2. split.
  { rewrite fmap_cons, steps_cons, E1. exact E2. }
  split; [done|]. split; [congruence|]. split; [congruence|]. split; [congruence|].
  split.
  { intros b fhb2 Hin Hb2. apply elem_of_cons in Hin as [->|Hin]; [|by eapply Hq2].
    destruct (Hhost1 a fh Ha) as (fh1 & Hfh1 & Hq1 & _). rewrite decide_True in Hq1 by done.
    destruct (Hnq2 a fh1 Hnotin Hfh1) as (fh2 & Hfh2 & Hq2'). assert (fh2 = fhb2) as -> by congruence. congruence. }
  split.
  { intros b fhb Hnin Hb. apply not_elem_of_cons in Hnin as [Hne Hnin].
    destruct (Hhost1 b fhb Hb) as (fhb1 & Hfhb1 & Hq1 & _). rewrite decide_False in Hq1 by done.
    destruct (Hnq2 b fhb1 Hnin Hfhb1) as (fhb2 & Hfhb2 & Hq2'). exists fhb2. split; [done|]. congruence. }
  split.
  { eapply same_data_trans; [|exact Hdata2]. apply evolves_same_data in Hev1. intros b. specialize (Hev1 b).
    destruct (decide (b = a)) as [->|Hne].
    - rewrite lookup_insert in Hev1. rewrite Ha. exact Hev1.
    - by rewrite lookup_insert_ne in Hev1. }
  split; [auto|].
  intros b fhb q Hin Hb Hq Hres Hk. apply elem_of_cons in Hin as [->|Hin].
  - assert (fhb = fh) as -> by congruence. apply Hmono2. by apply Heff1.
  - assert (b ≠ a) as Hne by (intros ->; done).
    destruct (Hhost1 b fhb Hb) as (fhb1 & Hfhb1 & Hq1 & Hk1). rewrite decide_False in Hq1 by done.
    apply (Heff2 b fhb1 q Hin Hfhb1); [by rewrite Hq1|done|by apply Hk1].
Qed.

(** * Raft catches up *)
Lemma calm_learn st a s r v st' :
  Calm st → is_Some (cur_members (hist_of (f_hist st) s) !! r) → fstep P st (ELearn a s r v) = FOk st' →
  Calm st' ∧ f_db st' = f_db st ∧ f_hist st' = f_hist st ∧ f_seen st' = f_seen st ∧ same_run (f_hosts st) (f_hosts st').
Proof.
  intros HC Hmem E. pose proof (cm_inv _ HC) as HI. pose proof (step_inv P st (ELearn a s r v) st' HI I E) as HI'.
  cbn [fstep] in E. destruct (f_hosts st !! a) as [fh|] eqn:Ha; [|done].
  destruct (fh_reps fh !! (s, r)) as [lr|] eqn:Ek; [|done].
  destruct (fh_up fh && lr_running lr && (lr_ver lr <? v) && _) eqn:Econd; [|done]. injection E as <-.
  apply andb_true_iff in Econd as [Econd _]. apply andb_true_iff in Econd as [Econd _]. apply andb_true_iff in Econd as [Hup Hrun].
  unfold hist_of in Hmem. destruct (f_hist st !! s) as [h|] eqn:Hh; [|by destruct Hmem]. cbn [default from_option id] in Hmem.
  assert (Hrem : removed_at (hist_of (f_hist st) s) r v = false).
  { unfold hist_of. rewrite Hh. cbn [default from_option id]. by apply (member_not_removed st s h r v HI Hh). }
  rewrite Hrem in HI' |- *. cbn [negb] in HI' |- *.
  set (reps' := <[(s, r) := mkLRep true v]> (fh_reps fh)) in *.
  set (fh' := mkFHost true (fh_region fh) reps' (fh_queue fh) (fh_out fh)) in *.
  assert (Hkeys : ∀ k, match fh_reps fh !! k with
                       | Some lr0 => ∃ lr', reps' !! k = Some lr' ∧ lr_running lr' = lr_running lr0
                       | None => reps' !! k = None end).
  { intros k. unfold reps'. destruct (decide (k = (s, r))) as [->|Hne].
    - rewrite Ek, lookup_insert. eexists. split; [done|]. by rewrite Hrun.
    - rewrite lookup_insert_ne by done. destruct (fh_reps fh !! k) as [lr0|]; [|done]. by exists lr0. }
  assert (Hsame : same_run (f_hosts st) (<[a := fh']> (f_hosts st))).
  { intros b. destruct (decide (b = a)) as [->|Hne].
    - rewrite Ha, lookup_insert. exists fh'. split; [done|]. split; [by rewrite Hup|]. split; [done|]. exact Hkeys.
    - rewrite lookup_insert_ne by done. destruct (f_hosts st !! b) as [fhb|]; [|done]. exists fhb. repeat (split; [done|]).
      intros k. destruct (fh_reps fhb !! k) as [lr0|]; [|done]. by exists lr0. }
  split; [|done].
  pose proof (calm_hcalm st HC) as HH.
  apply (calm_change_hosts st _ HC HI'); [done|done| |].
  - unfold set_host. cbn [f_hosts f_hist]. split.
    + intros b fhb. destruct (decide (b = a)) as [->|Hne].
      * rewrite lookup_insert. intros [= <-]. cbn. split; [done|]. by destruct (hc_up _ _ HH _ _ Ha).
      * rewrite lookup_insert_ne by done. apply (hc_up _ _ HH).
    + intros s1 h1 rid1 a1 Hh1 Hm1. destruct (hc_members _ _ HH s1 h1 rid1 a1 Hh1 Hm1) as (fh1 & lr1 & Hfh1 & Hk1).
      destruct (decide (a1 = a)) as [->|Hne].
      * rewrite lookup_insert. assert (fh1 = fh) as -> by congruence. pose proof (Hkeys (s1, rid1)) as Hx. rewrite Hk1 in Hx.
        destruct Hx as (lr2 & Hlr2 & _). by exists fh', lr2.
      * rewrite lookup_insert_ne by done. eauto.
    + intros b fhb s1 rid1 lr1 h1 a1. destruct (decide (b = a)) as [->|Hne].
      * rewrite lookup_insert. intros [= <-] Hk1. cbn [fh' fh_reps] in Hk1. pose proof (Hkeys (s1, rid1)) as Hx.
        destruct (fh_reps fh !! (s1, rid1)) as [lr2|] eqn:E2; [|congruence]. by apply (hc_home _ _ HH a fh s1 rid1 lr2 h1 a1).
      * rewrite lookup_insert_ne by done. apply (hc_home _ _ HH).
    + intros b fhb s1 rid1 lr1. destruct (decide (b = a)) as [->|Hne].
      * rewrite lookup_insert. intros [= <-] Hk1 Hr1. cbn [fh' fh_reps] in Hk1. pose proof (Hkeys (s1, rid1)) as Hx.
        destruct (fh_reps fh !! (s1, rid1)) as [lr2|] eqn:E2; [|congruence]. destruct Hx as (lr3 & Hlr3 & Hrr).
        assert (lr3 = lr1) as -> by congruence. apply (hc_nostray _ _ HH a fh s1 rid1 lr2 Ha E2). congruence.
      * rewrite lookup_insert_ne by done. apply (hc_nostray _ _ HH).
  - intros q [Hq|[Hq|[(b & fhb & Hb & Hin)|Hq]]]; [by left|by right; left| |by right; right; right].
    unfold set_host in Hb. cbn [f_hosts] in Hb. right; right; left. destruct (decide (b = a)) as [->|Hne].
    + rewrite lookup_insert in Hb. injection Hb as <-. cbn in Hin. eauto.
    + rewrite lookup_insert_ne in Hb by done. eauto.
Qed.

Lemma calm_learns (evs : list event) : ∀ st,
  Calm st →
  (∀ ev, ev ∈ evs → ∃ a s r v, ev = ELearn a s r v ∧ is_Some (cur_members (hist_of (f_hist st) s) !! r)) →
  ∃ st', steps P st evs = Some st' ∧ Calm st' ∧ f_db st' = f_db st ∧ f_hist st' = f_hist st ∧ f_seen st' = f_seen st ∧
         same_run (f_hosts st) (f_hosts st').
Proof.
  induction evs as [|ev evs IH]; intros st HC Hall.
  { exists st. cbn. split; [done|]. split; [done|]. repeat (split; [done|]). apply same_run_refl. }
  destruct (Hall ev) as (a & s & r & v & -> & Hm); [left|]. rewrite steps_cons.
  destruct (fstep P st (ELearn a s r v)) as [st1| |] eqn:E1.
  - destruct (calm_learn st a s r v st1 HC Hm E1) as (HC1 & Hd1 & Hh1 & Hs1 & Hsr1).
    destruct (IH st1 HC1) as (st2 & E2 & HC2 & Hd2 & Hh2 & Hs2 & Hsr2).
    { intros ev Hev. rewrite Hh1. apply Hall. by right. }
    exists st2. split; [done|]. split; [done|]. split; [congruence|]. split; [congruence|]. split; [congruence|].
    by eapply same_run_trans.
  - apply IH; [done|]. intros ev Hev. apply Hall. by right.
  - exfalso. by apply (step_no_panic P st (ELearn a s r v) (cm_inv _ HC) I).
Qed.

Lemma catch_up_members st ev :
  ev ∈ catch_up_events st → ∃ a s r v, ev = ELearn a s r v ∧ is_Some (cur_members (hist_of (f_hist st) s) !! r).
Proof.
  unfold catch_up_events. intros Hev. apply elem_of_list_bind in Hev as (a & Hev & _).
  destruct (f_hosts st !! a) as [fh|]; [|by apply elem_of_nil in Hev].
  apply elem_of_list_bind in Hev as ([[s rid] lr] & Hev & _). cbn [fst snd] in Hev.
  destruct (is_member _ rid) eqn:Em; cbn [andb] in Hev; [|by apply elem_of_nil in Hev].
  destruct (quorum_running _ _ _); [|by apply elem_of_nil in Hev]. apply elem_of_list_singleton in Hev as ->.
  exists a, s, rid, (cur_version (hist_of (f_hist st) s)). split; [done|]. by apply is_member_true.
Qed.

(** * time passes *)
Lemma calm_tick st :
  Calm st → ∃ st', fstep P st ETick = FOk st' ∧ Calm st' ∧
    f_db st' = set_tick (f_db st) (d_tick (f_db st) + p_step P) ∧
    f_hosts st' = f_hosts st ∧ f_hist st' = f_hist st ∧ f_seen st' = f_seen st.
Proof.
  intros HC. pose proof (cm_inv _ HC) as HI.
  pose proof (step_tick_no_panic P st HI) as Hnp. destruct (fstep P st ETick) as [st'| |] eqn:E; [| |done].
  2:{ cbn [fstep] in E. by destruct (db_step P (f_db st) CTick). }
  pose proof (step_tick P st st' HI E) as HI'. pose proof (fstep_time_ok P st ETick st' E (cm_timeok _ HC)) as Hto.
  cbn [fstep] in E. unfold db_step in E. rewrite (li_failed _ _ _ _ _ HI) in E. unfold apply_tick in E.
  cbn [d_deadline set_tick] in E. rewrite (li_deadline _ _ _ _ _ HI) in E. cbn [N.ltb andb] in E. injection E as <-.
  eexists. split; [done|]. unfold set_db. cbn [f_db f_hosts f_hist f_seen d_tick set_tick].
  split; [|done]. destruct HC. split; cbn [f_db f_hosts f_hist f_seen]; try done. cbn. lia.
Qed.

Lemma calm_ticks n : ∀ st,
  Calm st → ∃ st', steps P st (replicate n ETick) = Some st' ∧ Calm st' ∧
    f_db st' = set_tick (f_db st) (d_tick (f_db st) + N.of_nat n * p_step P) ∧
    f_hosts st' = f_hosts st ∧ f_hist st' = f_hist st ∧ f_seen st' = f_seen st.
Proof.
  induction n as [|n IH]; intros st HC; cbn [replicate steps].
  - exists st. split; [done|]. split; [done|]. split; [|done]. destruct st as [d ? ? ?]. cbn. destruct d. unfold set_tick. cbn. f_equal. lia.
  - destruct (calm_tick st HC) as (st1 & E1 & HC1 & Hd1 & Hh1 & Hhi1 & Hs1). rewrite E1.
    destruct (IH st1 HC1) as (st2 & E2 & HC2 & Hd2 & Hh2 & Hhi2 & Hs2).
    exists st2. split; [done|]. split; [done|]. split; [|split; [congruence|split; congruence]].
    rewrite Hd2, Hd1. unfold set_tick. cbn [d_tick d_deadline d_failed d_shards d_kv d_view d_kill d_hosts d_info d_requests d_outgoing].
    f_equal. rewrite Nat2N.inj_succ, N.mul_succ_l. lia.
Qed.

(** * the leader schedules *)
(* every NodeHost has reported at [t], persisted logs included, and [t] is at most ttl ago *)
Definition fresh_hosts (st : fstate) (t : N) : Prop :=
  d_tick (f_db st) - t ≤ p_ttl P ∧
  ∀ a fh, f_hosts st !! a = Some fh →
    ∃ h, d_hosts (f_db st) !! a = Some h ∧ h_tick h = t ∧ ∀ k, is_Some (fh_reps fh !! k) → k ∈ h_plog h.

Lemma ready_entry st t c :
  Calm st → fresh_hosts st t → c ∈ entries (ctx_of_db (f_db st)) →
  let C := ctx_of_db (f_db st) in
  ∃ h sd, f_hist st !! s_id c = Some h ∧ d_view (f_db st) !! s_id c = Some c ∧ s_cci c = cur_version h ∧
    c_defs C !! s_id c = Some sd ∧ sd_app sd ≠ 0 ∧
    (∀ n, n ∈ mvals (s_reps c) → r_id n ≠ 0 ∧ r_addr n ≠ 0 ∧ r_shard n = s_id c ∧ cur_members h !! r_id n = Some (r_addr n)) ∧
    restore_set P C c = sr_failed P C c ∧ repair_action P C c = ANone.
Proof.
  intros HC [Hgap Hsp] Hc C. pose proof (cm_inv _ HC) as HI.
  destruct (view_entry_facts (f_db st) (f_hist st) c (li_view _ _ _ _ _ HI) Hc) as (h & Hh & Hvc & _ & _).
  destruct (cm_members _ HC _ _ Hh) as (c' & Hc' & Hcc & Hmem). assert (c' = c) as -> by congruence.
  destruct (calm_view st _ h c HI Hh Hvc Hcc) as (HM & _ & Hids).
  destruct (cm_viewdef _ HC (s_id c)) as [[sd Hsd] _]; [by eexists|].
  destruct (cm_defined _ HC _ _ Hsd) as (_ & _ & Happ).
  assert (Hmv : ∀ n, n ∈ mvals (s_reps c) → r_id n ≠ 0 ∧ r_addr n ≠ 0 ∧ r_shard n = s_id c ∧ cur_members h !! r_id n = Some (r_addr n) ∧
             ∃ fh lr, f_hosts st !! r_addr n = Some fh ∧ fh_reps fh !! (s_id c, r_id n) = Some lr).
  { intros n Hn. apply mvals_elem in Hn as [rid Hn]. destruct (Hids rid n Hn) as [-> Hsh].
    assert (Hm : cur_members h !! rid = Some (r_addr n)) by (rewrite <- HM, lookup_fmap, Hn; done).
    destruct (Hmem _ _ Hm) as (? & ? & ?). done. }
  assert (Hwait : sr_wait P C c = []).
  { apply elem_of_nil_inv. intros n Hn. apply elem_sr_wait in Hn as [Hn Hw]. apply mvals_elem in Hn as [rid Hn].
    unfold replica_waiting in Hw. apply andb_true_iff in Hw as [Hz _]. apply N.eqb_eq in Hz.
    by apply (cm_stamped _ HC _ _ _ _ Hvc Hn). }
  assert (Hrest : restorable P C c = sr_failed P C c).
  { unfold restorable. apply filter_all. intros n Hn. apply elem_sr_failed in Hn as [Hn _].
    destruct (Hmv n Hn) as (_ & _ & Hsh & _ & fh & lr & Hfh & Hk).
    destruct (Hsp _ _ Hfh) as (hs & Hhs & Htk & Hpl).
    unfold restorable_rep. unfold C, ctx_of_db. cbn [c_hosts c_tick]. rewrite Hhs.
    apply andb_true_iff. split.
    - apply host_available_iff. unfold now. cbn [c_tick]. rewrite Htk. exact Hgap.
    - unfold host_has_log. apply bool_decide_eq_true. rewrite Hsh. apply Hpl. by eexists. }
  assert (Hrs : restore_set P C c = sr_failed P C c).
  { unfold restore_set. rewrite Hrest. destruct (need_restore P C c); [|done].
    case_bool_decide as Hq; [done|]. destruct (sr_failed P C c) as [|n0 l0] eqn:Ef; [done|]. exfalso. apply Hq.
    rewrite sr_quorum_eq. pose proof (sr_partition P C c) as Hp. unfold n_wait in Hp. rewrite Hwait in Hp. cbn [length] in Hp.
    unfold n_failed, n_ok in Hp. rewrite Ef in Hp. unfold n_ok, quorum_of.
    assert (0 < size (s_reps c))%nat by (cbn [length] in Hp; lia).
    pose proof (Nat.div_lt (size (s_reps c)) 2 ltac:(lia) ltac:(lia)). lia. }
  exists h, sd. split; [done|]. split; [done|]. split; [done|]. split; [done|]. split; [done|].
  split. { intros n Hn. destruct (Hmv n Hn) as (? & ? & ? & ? & _). done. }
  split; [done|].
  unfold repair_action. destruct (sr_failed P C c) as [|n0 l0] eqn:Ef.
  - assert (in_repair P C c = false) as ->; [|done]. unfold in_repair, n_failed, n_wait. rewrite Ef, Hwait. done.
  - assert (is_restored P C c = true) as ->; [|by rewrite orb_true_r].
    apply has_restore_restored; [done|]. unfold has_restore. rewrite Hrs. done.
Qed.

Lemma calm_allowed st t o :
  Calm st → fresh_hosts st t → allowed P (ctx_of_db (f_db st)) o = true →
  ∃ b, o = OBatch b ∧ add_ids b = [] ∧
    (∀ q, q ∈ b → good_restore (f_hist st) q) ∧
    (∀ s c rid n, d_view (f_db st) !! s = Some c → s_reps c !! rid = Some n →
       replica_failed P n (d_tick (f_db st)) = true →
       ∃ q, q ∈ b ∧ is_restore q = true ∧ q_shard q = s ∧ q_inst q = rid ∧ q_raft q = r_addr n).
Proof.
  intros HC Hfr Hal. pose proof (cm_inv _ HC) as HI. set (C := ctx_of_db (f_db st)) in *.
  assert (Hkills : kills C = []) by (unfold kills, C, ctx_of_db; cbn [c_kill]; by rewrite (cm_kill _ HC)).
  (* no error, no panic *)
  assert (Hb : ∃ b, o = OBatch b).
  { destruct o as [b| |]; [by exists b| |]; exfalso.
    - apply sched_error_inv in Hal as (c & Hc & He). destruct (ready_entry st t c HC Hfr Hc) as (_ & _ & _ & _ & _ & _ & _ & _ & _ & Hact).
      fold C in Hact. unfold err_entry in He. by rewrite Hact in He.
    - cbn [allowed] in Hal. apply orb_true_iff in Hal as [Hal|Hal]; [apply orb_true_iff in Hal as [Hal|Hal]|].
      + unfold restore_crash in Hal. apply existsb_exists in Hal as (c & Hc%elem_of_list_In & Hx).
        destruct (ready_entry st t c HC Hfr Hc) as (_ & sd & _ & _ & _ & Hsd & _). fold C in Hsd.
        apply andb_true_iff in Hx as [_ Hx]. apply bool_decide_eq_true in Hx. congruence.
      + apply existsb_exists in Hal as (c & Hc%elem_of_list_In & Hx).
        destruct (ready_entry st t c HC Hfr Hc) as (_ & _ & _ & _ & _ & _ & _ & _ & _ & Hact). fold C in Hact.
        unfold crash_entry in Hx. by rewrite Hact in Hx.
      + apply andb_true_iff in Hal as [_ Hal]. unfold may_invalid in Hal. rewrite Hkills in Hal. cbn [existsb orb] in Hal.
        apply existsb_exists in Hal as (c & Hc%elem_of_list_In & Hx).
        destruct (ready_entry st t c HC Hfr Hc) as (h & sd & _ & _ & _ & Hsd & Happ & Hmv & Hrs & Hact). fold C in Hsd, Hrs, Hact.
        unfold entry_may_invalid in Hx. rewrite Hsd, Hact in Hx. destruct (has_restore P C c); [|done].
        unfold create_may_invalid in Hx. apply orb_true_iff in Hx as [Hx|Hx]; [apply orb_true_iff in Hx as [Hx|Hx]|].
        * apply N.eqb_eq in Hx. done.
        * apply existsb_exists in Hx as (m & Hm%elem_of_list_In & Hz). unfold members_of in Hm.
          apply elem_of_list_fmap in Hm as (n & -> & Hn). destruct (Hmv n Hn) as (H1 & H2 & _). cbn [fst snd] in Hz.
          apply orb_true_iff in Hz as [Hz|Hz]; apply N.eqb_eq in Hz; done.
        * apply existsb_exists in Hx as (n & Hn%elem_of_list_In & Hz). rewrite Hrs in Hn. apply elem_sr_failed in Hn as [Hn _].
          destruct (Hmv n Hn) as (H1 & H2 & _). apply orb_true_iff in Hz as [Hz|Hz]; apply N.eqb_eq in Hz; done. }
  destruct Hb as [b ->]. exists b. split; [done|].
  (* the batch: restore requests for current members *)
  assert (Hgood : ∀ q, q ∈ b → good_restore (f_hist st) q).
  { intros q Hq. destruct (batch_request_cases P C b q Hal Hq) as [Hk|(_ & c & qs & Hc & Hs & Hin & Hg & _)].
    { rewrite Hkills in Hk. by apply elem_of_nil in Hk. }
    destruct (ready_entry st t c HC Hfr Hc) as (h & sd & Hh & _ & _ & Hsd & _ & Hmv & Hrs & Hact). fold C in Hsd, Hrs, Hact.
    apply group_allowed_inv in Hg as [(_ & sd' & _ & Hok)|(_ & Hcases)].
    2:{ destruct Hcases as [[_ ->]|[(Ha & _)|[(sd' & Ha & _)|(Ha & _)]]]; [by apply elem_of_nil in Hin|congruence..]. }
    destruct (restore_group_inv P C c _ qs q Hok Hin) as ((Hcr & Hsh & _ & _ & _ & _ & Hj & Hre & _) & n & Hn & Hi & _).
    rewrite Hrs in Hn. apply elem_sr_failed in Hn as [Hn _]. destruct (Hmv n Hn) as (_ & _ & _ & Hm).
    split; [unfold is_restore; by rewrite Hcr, Hre|]. split; [done|]. exists h, (r_addr n). rewrite Hsh, Hi. done. }
  split.
  { unfold add_ids. assert (filter (λ q, is_add q = true) b = []) as ->; [|done].
    apply elem_of_nil_inv. intros q Hq. apply elem_of_list_filter in Hq as [Hadd Hq].
    destruct (Hgood q Hq) as (Hres & _). unfold is_restore, is_create in Hres. unfold is_add in Hadd. by destruct (q_type q). }
  split; [exact Hgood|].
  intros s c rid n Hc Hn Hfail.
  assert (Hce : c ∈ entries C) by (unfold entries, C, ctx_of_db; cbn [c_view]; apply mvals_elem; by exists s).
  destruct (ready_entry st t c HC Hfr Hce) as (h & sd & Hh & Hvc & _ & _ & _ & _ & Hrs & _). fold C in Hrs.
  destruct (li_view _ _ _ _ _ HI s c Hc) as (Hid & _ & Hids). destruct (Hids rid n Hn) as [Hrid _].
  assert (Hnf : n ∈ restore_set P C c).
  { rewrite Hrs. apply elem_sr_failed. split; [apply mvals_elem; by exists rid|]. exact Hfail. }
  destruct (sched_restore_complete P C b c n Hal Hce Hnf) as (q & Hq & Hres & Hs & Hi & Hr).
  exists q. split; [done|]. split; [done|]. split; [congruence|]. split; [congruence|done].
Qed.

Lemma calm_schedule st t o st' :
  Calm st → fresh_hosts st t → fstep P st (ESchedule o) = FOk st' →
  ∃ b, o = OBatch b ∧ Calm st' ∧
    f_hosts st' = f_hosts st ∧ f_hist st' = f_hist st ∧
    f_db st' = set_requests (f_db st) (put_requests (d_requests (f_db st)) b) ∧
    (∀ q, q ∈ b → good_restore (f_hist st) q) ∧
    (∀ s c rid n, d_view (f_db st) !! s = Some c → s_reps c !! rid = Some n →
       replica_failed P n (d_tick (f_db st)) = true →
       ∃ q, q ∈ b ∧ is_restore q = true ∧ q_shard q = s ∧ q_inst q = rid ∧ q_raft q = r_addr n).
Proof.
  intros HC Hfr E. pose proof (cm_inv _ HC) as HI. set (C := ctx_of_db (f_db st)).
  cbn [fstep] in E. destruct (allowed P (ctx_of_db (f_db st)) o) eqn:Hal; [|done].
  destruct (calm_allowed st t o HC Hfr Hal) as (b & -> & Hadds & Hgood & Hcomplete). fold C in Hal.
  exists b. split; [done|].
  assert (Hfresh : fresh_ok st (ESchedule (OBatch b))).
  { cbn. rewrite Hadds. split; [constructor|]. intros x Hx. by apply elem_of_nil in Hx. }
  assert (E' : fstep P st (ESchedule (OBatch b)) = FOk st') by (cbn [fstep]; fold C; by rewrite Hal).
  pose proof (step_inv P st _ st' HI Hfresh E') as HI'.
  pose proof (fstep_time_ok P st _ st' E' (cm_timeok _ HC)) as Hto.
  assert (Hst' : f_hosts st' = f_hosts st ∧ f_hist st' = f_hist st ∧
                 f_db st' = set_requests (f_db st) (put_requests (d_requests (f_db st)) b)).
  { destruct b as [|q0 b0].
    - injection E as <-. split; [done|]. split; [done|]. destruct st as [d ? ? ?]. cbn. by destruct d.
    - rewrite (schedule_db P st (q0 :: b0) HI Hal) in E by (intros x Hx; rewrite Hadds in Hx; by apply elem_of_nil in Hx).
      injection E as <-. done. }
  destruct Hst' as (Eh & Ehi & Ed).
  split.
  { split; try rewrite Ed; try rewrite Eh; try rewrite Ehi; cbn [set_requests d_tick d_shards d_view d_kill].
    - exact HI'.
    - rewrite Ed in Hto. exact Hto.
    - apply (cm_time _ HC).
    - apply (cm_defined _ HC).
    - apply (cm_viewdef _ HC).
    - apply (cm_hosts _ HC).
    - apply (cm_kill _ HC).
    - intros q Hq. unfold boxed in Hq. rewrite Ed, Eh in Hq.
      destruct Hq as [(a & qs & Hl & Hin)|[Hq|[Hq|Hq]]].
      + cbn [d_requests set_requests] in Hl. destruct (put_requests_in _ _ _ _ Hl) as [Ho|Ho].
        * apply (cm_boxes _ HC). left. eauto.
        * left. apply Hgood. by apply Ho.
      + apply (cm_boxes _ HC). right; left. exact Hq.
      + apply (cm_boxes _ HC). right; right; left. exact Hq.
      + by apply elem_of_nil in Hq.
    - apply (cm_members _ HC).
    - apply (cm_stamped _ HC).
    - apply (cm_home _ HC).
    - apply (cm_nostray _ HC). }
  split; [done|]. split; [done|]. split; [done|]. split; [exact Hgood|]. exact Hcomplete.
Qed.

(** * one healthy round *)
Lemma calm_running st s rid a fh : Calm st → f_hosts st !! a = Some fh → member_running (f_hosts st) s rid a = runs_on fh s rid.
Proof. intros HC Ha. unfold member_running, runs_on. rewrite Ha. destruct (cm_hosts _ HC _ _ Ha) as [-> _]. done. Qed.

Lemma calm_round st st' plogs nticks o :
  Calm st → (∀ a, plogs a = true) → N.of_nat nticks * p_step P ≤ p_ttl P →
  healthy_round P plogs nticks o st = Some st' →
  ∃ b, o = OBatch b ∧ Calm st' ∧ f_hist st' = f_hist st ∧
    d_tick (f_db st') = d_tick (f_db st) + N.of_nat nticks * p_step P ∧
    d_shards (f_db st') = d_shards (f_db st) ∧
    (∀ a fh, f_hosts st' !! a = Some fh → fh_queue fh = []) ∧
    same_data (f_hosts st) (f_hosts st') ∧
    (∀ a s rid, member_running (f_hosts st) s rid a = true → member_running (f_hosts st') s rid a = true) ∧
    (∀ a fh q, f_hosts st !! a = Some fh → (q ∈ fh_queue fh ∨ ∃ qs, d_requests (f_db st) !! a = Some qs ∧ q ∈ qs) →
        is_restore q = true →
        is_Some (fh_reps fh !! (q_shard q, q_inst q)) → member_running (f_hosts st') (q_shard q) (q_inst q) a = true) ∧
    (∀ s, shard_core <$> d_view (f_db st') !! s = shard_core <$> d_view (f_db st) !! s) ∧
    (∀ s rid n', rec_of (d_view (f_db st')) s rid = Some n' →
       ∃ n, rec_of (d_view (f_db st)) s rid = Some n ∧
         (((∃ a, member_running (f_hosts st) s rid a = true) ∧ r_tick n' = d_tick (f_db st)) ∨
          ((∀ a, member_running (f_hosts st) s rid a = false) ∧ r_tick n' = r_tick n))) ∧
    (∀ s c rid n, d_view (f_db st') !! s = Some c → s_reps c !! rid = Some n →
       replica_failed P n (d_tick (f_db st')) = true →
       ∃ qs q, d_requests (f_db st') !! r_addr n = Some qs ∧ q ∈ qs ∧ is_restore q = true ∧ q_shard q = s ∧ q_inst q = rid).
Proof.
  intros HC Hpl Httl. unfold healthy_round. set (t := d_tick (f_db st)).
  destruct (calm_reports plogs (host_addrs st) st HC (host_addrs_nodup st)) as
    (st1 & E1 & HC1 & Hhi1 & Hse1 & Ht1 & Hsh1 & Hrq1 & _ & Hho1 & Hho1' & Hco1 & Htk1 & Hsp1 & _).
  { intros a. apply host_addrs_elem. }
  rewrite E1.
  assert (Hdom1 : ∀ a, is_Some (f_hosts st1 !! a) ↔ is_Some (f_hosts st !! a)).
  { intros a. destruct (f_hosts st !! a) as [fh|] eqn:Ha.
    - rewrite (Hho1 a fh) by (try apply host_addrs_elem; by eauto). split; by eexists.
    - rewrite Hho1', Ha; [done|]. intros Hin. apply host_addrs_elem in Hin. rewrite Ha in Hin. by destruct Hin. }
  destruct (calm_execs (host_addrs st1) st1 HC1 (host_addrs_nodup st1)) as
    (st2 & E2 & HC2 & Hd2 & Hhi2 & Hse2 & Hq2 & _ & Hsd2 & Hmono2 & Heff2).
  { intros a. apply host_addrs_elem. }
  rewrite E2.
  destruct (calm_learns (catch_up_events st2) st2 HC2 (catch_up_members st2)) as (st3 & E3 & HC3 & Hd3 & Hhi3 & Hse3 & Hsr3).
  rewrite E3.
  destruct (calm_ticks nticks st3 HC3) as (st4 & E4 & HC4 & Hd4 & Hho4 & Hhi4 & Hse4). rewrite E4.
  destruct (fstep P st4 (ESchedule o)) as [st5| |] eqn:E5; try done. intros [= <-].
  (* the data on the hosts did not change *)
  assert (Hsd1 : same_data (f_hosts st) (f_hosts st1)).
  { intros a. destruct (f_hosts st !! a) as [fh|] eqn:Ha.
    - exists (delivered st a fh). split; [|done]. apply Hho1; [|done]. apply host_addrs_elem. by eexists.
    - rewrite Hho1', Ha; [done|]. intros Hin. apply host_addrs_elem in Hin. rewrite Ha in Hin. by destruct Hin. }
  assert (Hsd4 : same_data (f_hosts st) (f_hosts st4)).
  { rewrite Hho4. eapply same_data_trans; [exact Hsd1|]. eapply same_data_trans; [exact Hsd2|]. by apply same_run_same_data. }
  assert (Hdb4 : d_view (f_db st4) = d_view (f_db st1) ∧ d_hosts (f_db st4) = d_hosts (f_db st1) ∧
                 d_shards (f_db st4) = d_shards (f_db st1) ∧ d_requests (f_db st4) = d_requests (f_db st1) ∧
                 d_tick (f_db st4) = t + N.of_nat nticks * p_step P).
  { rewrite Hd4, Hd3, Hd2. cbn [set_tick d_view d_hosts d_shards d_requests d_tick]. rewrite Ht1. done. }
  destruct Hdb4 as (Ev4 & Eh4 & Es4 & Er4 & Et4).
  assert (Hfr : fresh_hosts st4 t).
  { split; [rewrite Et4; lia|]. intros a fh4 Ha4. pose proof (Hsd4 a) as Hx.
    destruct (f_hosts st !! a) as [fh|] eqn:Ha; [|congruence]. destruct Hx as (fh4' & Hfh4' & Hkeys). assert (fh4' = fh4) as -> by congruence.
    destruct (Hsp1 a fh) as (h & Hh & Htk & Hplog); [apply host_addrs_elem; by eexists|done|].
    exists h. rewrite Eh4. split; [done|]. split; [done|]. intros k Hk. apply Hplog; [apply Hpl|]. by apply Hkeys. }
  destruct (calm_schedule st4 t o st5 HC4 Hfr E5) as (b & -> & HC5 & Hho5 & Hhi5 & Hd5 & Hgood & Hsched).
  exists b. split; [done|]. split; [done|]. split; [congruence|].
  split; [rewrite Hd5; cbn [set_requests d_tick]; exact Et4|].
  split; [rewrite Hd5; cbn [set_requests d_shards]; congruence|].
  assert (Hrun3 : ∀ s rid a, member_running (f_hosts st5) s rid a = member_running (f_hosts st2) s rid a).
  { intros s rid a. rewrite Hho5, Hho4. by apply same_run_running. }
  split.
  { intros a fh5 Ha5. rewrite Hho5, Hho4 in Ha5. pose proof (Hsr3 a) as Hx.
    destruct (f_hosts st2 !! a) as [fh2|] eqn:Ha2; [|congruence]. destruct Hx as (fh3 & Hfh3 & _ & Hq3 & _).
    assert (fh3 = fh5) as -> by congruence. rewrite Hq3. apply (Hq2 a fh2); [|done]. apply host_addrs_elem.
    pose proof (Hsd2 a) as Hy. destruct (f_hosts st1 !! a); [by eexists|congruence]. }
  split; [by rewrite Hho5|].
  assert (Hrun1 : ∀ s rid a, member_running (f_hosts st1) s rid a = member_running (f_hosts st) s rid a).
  { intros s rid a. unfold member_running. destruct (f_hosts st !! a) as [fh|] eqn:Ha.
    - rewrite (Hho1 a fh) by (try apply host_addrs_elem; by eauto). cbn. by destruct (cm_hosts _ HC _ _ Ha) as [-> _].
    - rewrite Hho1', Ha; [done|]. intros Hin. apply host_addrs_elem in Hin. rewrite Ha in Hin. by destruct Hin. }
  split.
  { intros a s rid Hrun. rewrite Hrun3. apply Hmono2. by rewrite Hrun1. }
  split.
  { intros a fh q Ha Hq Hres Hk. rewrite Hrun3.
    assert (Ha1 : f_hosts st1 !! a = Some (delivered st a fh)) by (apply Hho1; [apply host_addrs_elem; by eexists|done]).
    apply (Heff2 a (delivered st a fh) q); [apply host_addrs_elem; by eexists|done| |done|done].
    cbn [delivered fh_queue]. apply elem_of_app. destruct Hq as [Hq|(qs & Hqs & Hq)]; [by left|right]. by rewrite Hqs. }
  assert (Ev5 : d_view (f_db st5) = d_view (f_db st1)) by (rewrite Hd5; cbn [set_requests d_view]; exact Ev4).
  split; [by rewrite Ev5|].
  split.
  { intros s rid n' Hrec. rewrite Ev5 in Hrec. destruct (Htk1 s rid n' Hrec) as (n & Hn & Hcase). exists n. split; [done|].
    destruct Hcase as [[(a & fh & _ & Ha & Hr) Htick]|[Hnone Htick]].
    - left. split; [|done]. exists a. by rewrite (calm_running st s rid a fh HC Ha).
    - right. split; [|done]. intros a. destruct (f_hosts st !! a) as [fh|] eqn:Ha.
      + rewrite (calm_running st s rid a fh HC Ha). apply (Hnone a fh); [|done]. apply host_addrs_elem. by eexists.
      + unfold member_running. by rewrite Ha. }
  intros s c rid n Hc Hn Hfail.
  assert (Hc4 : d_view (f_db st4) !! s = Some c) by (rewrite Ev4, <- Ev5; done).
  assert (Hfail4 : replica_failed P n (d_tick (f_db st4)) = true).
  { rewrite Hd5 in Hfail. exact Hfail. }
  destruct (Hsched s c rid n Hc4 Hn Hfail4) as (q & Hq & Hres & Hs & Hi & Hr).
  exists (for_addr (r_addr n) b), q. rewrite Hd5. cbn [set_requests d_requests]. rewrite put_requests_lookup.
  rewrite bool_decide_eq_true_2.
  - split; [done|]. split; [|done]. unfold for_addr. apply elem_of_list_filter. done.
  - unfold mentions. apply elem_of_list_fmap. by exists q.
Qed.

(* the round never gets stuck: the scheduler has an outcome it is allowed to produce, and the round goes through
   with it (and, by [calm_round], with every other allowed outcome) *)
Lemma loopinv_ctx_wf st : LoopInv st → ctx_wf (ctx_of_db (f_db st)).
Proof.
  intros HI. split.
  - intros s c Hc. cbn [ctx_of_db c_view] in Hc. destruct (li_view _ _ _ _ _ HI s c Hc) as (Hid & _ & Hids). split; [done|].
    intros j n Hn. by apply Hids.
  - intros a h Ha. cbn [ctx_of_db c_hosts] in Ha. by destruct (li_synced _ _ _ _ _ HI a h Ha).
Qed.

Lemma calm_round_total st plogs nticks :
  Calm st → (∀ a, plogs a = true) → N.of_nat nticks * p_step P ≤ p_ttl P →
  ∃ o st', healthy_round P plogs nticks o st = Some st'.
Proof.
  intros HC Hpl Httl. unfold healthy_round. set (t := d_tick (f_db st)).
  destruct (calm_reports plogs (host_addrs st) st HC (host_addrs_nodup st)) as
    (st1 & E1 & HC1 & Hhi1 & Hse1 & Ht1 & Hsh1 & Hrq1 & _ & Hho1 & Hho1' & Hco1 & Htk1 & Hsp1 & _).
  { intros a. apply host_addrs_elem. }
  destruct (calm_execs (host_addrs st1) st1 HC1 (host_addrs_nodup st1)) as
    (st2 & E2 & HC2 & Hd2 & Hhi2 & Hse2 & Hq2 & _ & Hsd2 & Hmono2 & Heff2).
  { intros a. apply host_addrs_elem. }
  destruct (calm_learns (catch_up_events st2) st2 HC2 (catch_up_members st2)) as (st3 & E3 & HC3 & Hd3 & Hhi3 & Hse3 & Hsr3).
  destruct (calm_ticks nticks st3 HC3) as (st4 & E4 & HC4 & Hd4 & Hho4 & Hhi4 & Hse4).
  assert (Hsd1 : same_data (f_hosts st) (f_hosts st1)).
  { intros a. destruct (f_hosts st !! a) as [fh|] eqn:Ha.
    - exists (delivered st a fh). split; [|done]. apply Hho1; [|done]. apply host_addrs_elem. by eexists.
    - rewrite Hho1', Ha; [done|]. intros Hin. apply host_addrs_elem in Hin. rewrite Ha in Hin. by destruct Hin. }
  assert (Hsd4 : same_data (f_hosts st) (f_hosts st4)).
  { rewrite Hho4. eapply same_data_trans; [exact Hsd1|]. eapply same_data_trans; [exact Hsd2|]. by apply same_run_same_data. }
  assert (Hfr : fresh_hosts st4 t).
  { split; [rewrite Hd4, Hd3, Hd2; cbn [set_tick d_tick]; rewrite Ht1; fold t; lia|]. intros a fh4 Ha4. pose proof (Hsd4 a) as Hx.
    destruct (f_hosts st !! a) as [fh|] eqn:Ha; [|congruence]. destruct Hx as (fh4' & Hfh4' & Hkeys). assert (fh4' = fh4) as -> by congruence.
    destruct (Hsp1 a fh) as (h & Hh & Htk & Hplog); [apply host_addrs_elem; by eexists|done|].
    exists h. rewrite Hd4, Hd3, Hd2. cbn [set_tick d_hosts]. split; [done|]. split; [done|]. intros k Hk. apply Hplog; [apply Hpl|]. by apply Hkeys. }
  set (o := canon P (ctx_of_db (f_db st4)) (λ _, 1)).
  assert (Hal : allowed P (ctx_of_db (f_db st4)) o = true) by (apply allowed_canon, loopinv_ctx_wf, (cm_inv _ HC4)).
  destruct (calm_allowed st4 t o HC4 Hfr Hal) as (b & Eo & Hadds & _).
  exists o. rewrite E1, E2, E3, E4. cbn [fstep]. rewrite Hal, Eo.
  destruct b as [|q0 b0]; [by eexists|].
  rewrite Eo in Hal. rewrite (schedule_db P st4 (q0 :: b0) (cm_inv _ HC4) Hal) by (intros x Hx; rewrite Hadds in Hx; by apply elem_of_nil in Hx).
  by eexists.
Qed.

(** * the members, one by one *)
Definition member (st : fstate) (s rid a : N) : Prop := ∃ h, f_hist st !! s = Some h ∧ cur_members h !! rid = Some a.
Definition mem_tick (st : fstate) (s rid : N) : N :=
  match rec_of (d_view (f_db st)) s rid with Some n => r_tick n | None => 0 end.
Definition pending (st : fstate) (a s rid : N) : Prop :=
  ∃ qs q, d_requests (f_db st) !! a = Some qs ∧ q ∈ qs ∧ is_restore q = true ∧ q_shard q = s ∧ q_inst q = rid.

Lemma calm_member_rec st s rid a :
  Calm st → member st s rid a →
  ∃ c n fh, d_view (f_db st) !! s = Some c ∧ s_reps c !! rid = Some n ∧ r_addr n = a ∧ r_tick n ≠ 0 ∧
            f_hosts st !! a = Some fh ∧ is_Some (fh_reps fh !! (s, rid)).
Proof.
  intros HC (h & Hh & Hm). destruct (cm_members _ HC s h Hh) as (c & Hc & Hcc & Hmem).
  destruct (Hmem rid a Hm) as (_ & _ & fh & lr & Hfh & Hk).
  destruct (calm_view_member st s h c rid (cm_inv _ HC) Hh Hc Hcc) as [Hiff Haddr].
  assert (is_Some (s_reps c !! rid)) as [n Hn] by (apply Hiff; by eexists).
  exists c, n, fh. split; [done|]. split; [done|]. split; [|split; [by apply (cm_stamped _ HC s c rid n)|split; [done|by eexists]]].
  specialize (Haddr n Hn). congruence.
Qed.

Lemma calm_member_elsewhere st s rid a a' :
  Calm st → member st s rid a → member_running (f_hosts st) s rid a' = true → a' = a.
Proof.
  intros HC (h & Hh & Hm) Hrun. unfold member_running in Hrun. destruct (f_hosts st !! a') as [fh|] eqn:Ha'; [|done].
  destruct (fh_reps fh !! (s, rid)) as [lr|] eqn:Hk; [|by rewrite andb_false_r in Hrun].
  symmetry. by apply (cm_home _ HC a' fh s rid lr h a).
Qed.

Lemma calm_round_member st st' plogs nticks o s rid a :
  Calm st → (∀ a, plogs a = true) → N.of_nat nticks * p_step P ≤ p_ttl P →
  healthy_round P plogs nticks o st = Some st' → member st s rid a →
  member st' s rid a ∧
  (member_running (f_hosts st) s rid a = true →
     member_running (f_hosts st') s rid a = true ∧ mem_tick st' s rid = d_tick (f_db st)) ∧
  (member_running (f_hosts st) s rid a = false → mem_tick st' s rid = mem_tick st s rid) ∧
  (pending st a s rid → member_running (f_hosts st') s rid a = true) ∧
  (member_running (f_hosts st') s rid a = false → p_ttl P < d_tick (f_db st') - mem_tick st' s rid → pending st' a s rid).
Proof.
  intros HC Hpl Httl Hround Hmem.
  destruct (calm_round st st' plogs nticks o HC Hpl Httl Hround) as
    (b & _ & HC' & Hhi & Htick & _ & _ & _ & Hmono & Heff & Hcore & Hticks & Hsched).
  assert (Hmem' : member st' s rid a) by (unfold member; by rewrite Hhi).
  destruct (calm_member_rec st s rid a HC Hmem) as (c & n & fh & Hc & Hn & Hra & Hnz & Hfh & Hk).
  destruct (calm_member_rec st' s rid a HC' Hmem') as (c' & n' & fh' & Hc' & Hn' & Hra' & Hnz' & Hfh' & Hk').
  assert (Hrec : rec_of (d_view (f_db st)) s rid = Some n) by (apply rec_of_Some; eauto).
  assert (Hrec' : rec_of (d_view (f_db st')) s rid = Some n') by (apply rec_of_Some; eauto).
  destruct (Hticks s rid n' Hrec') as (n0 & Hn0 & Hcase). assert (n0 = n) as -> by congruence.
  split; [done|]. split; [|split; [|split]].
  - intros Hrun. split; [by apply Hmono|]. unfold mem_tick. rewrite Hrec'.
    destruct Hcase as [[_ Ht]|[Hnone _]]; [done|]. rewrite (Hnone a) in Hrun. done.
  - intros Hrun. unfold mem_tick. rewrite Hrec, Hrec'. destruct Hcase as [[[a' Hr'] _]|[_ Ht]]; [|done].
    pose proof (calm_member_elsewhere st s rid a a' HC Hmem Hr') as ->. congruence.
  - intros (qs & q & Hqs & Hq & Hres & Hs & Hi). subst s rid. apply (Heff a fh q Hfh); [right; eauto|done|done].
  - intros Hrun Hgap. unfold mem_tick in Hgap. rewrite Hrec' in Hgap.
    assert (Hfail : replica_failed P n' (d_tick (f_db st')) = true).
    { unfold replica_failed. assert ((r_tick n' =? 0) = false) as -> by (by apply N.eqb_neq).
      unfold entity_failed. apply N.ltb_lt. exact Hgap. }
    destruct (Hsched s c' rid n' Hc' Hn' Hfail) as (qs & q & Hqs & Hq & Hres & Hs & Hi). rewrite Hra' in Hqs.
    exists qs, q. done.
Qed.

(** * healed *)
Lemma calm_healed st :
  Calm st →
  (∀ s rid a, member st s rid a →
     member_running (f_hosts st) s rid a = true ∧ d_tick (f_db st) - mem_tick st s rid ≤ p_ttl P) →
  healed P st = true.
Proof.
  intros HC Hall. pose proof (cm_inv _ HC) as HI.
  unfold healed. apply forallb_forall. intros [s sd] Hin. apply elem_of_list_In, elem_of_map_to_list in Hin. cbn [fst].
  destruct (cm_defined _ HC s sd Hin) as ([h Hh] & Hne & _).
  destruct (cm_members _ HC s h Hh) as (c & Hc & Hcc & Hmem).
  destruct (calm_view st s h c HI Hh Hc Hcc) as (HH & _ & _).
  destruct (cur_entry_at _ _ _ HI Hh) as [_ Hcurin].
  destruct (hist_wf_mem_ok _ _ (li_hist _ _ _ _ _ HI _ _ Hh) (cur_version h, cur_members h) Hcurin) as [[Hlo _] _].
  cbn [snd] in Hlo. unfold shard_size in Hlo. rewrite Hin in Hlo.
  unfold shard_healed. unfold hist_of. rewrite Hh. cbn [default from_option id].
  apply andb_true_iff. split; [apply andb_true_iff; split|].
  - unfold to_shard_state. rewrite Hc. cbn [ss_unavailable]. apply negb_true_iff, negb_false_iff.
    unfold shard_available. apply bool_decide_eq_true.
    assert (Hok : ok_replicas P c (d_tick (f_db st)) = mvals (s_reps c)).
    { unfold ok_replicas. apply filter_all. intros n Hn. apply mvals_elem in Hn as [rid Hn].
      assert (Hm : member st s rid (r_addr n)).
      { exists h. split; [done|]. rewrite <- HH, lookup_fmap, Hn. done. }
      destruct (Hall s rid (r_addr n) Hm) as [_ Hfresh]. unfold mem_tick in Hfresh.
      assert (Hrec : rec_of (d_view (f_db st)) s rid = Some n) by (apply rec_of_Some; eauto). rewrite Hrec in Hfresh.
      pose proof (cm_stamped _ HC s c rid n Hc Hn) as Hnz.
      unfold replica_ok, replica_waiting, replica_failed, entity_failed.
      assert ((r_tick n =? 0) = false) as -> by (by apply N.eqb_neq). cbn [andb negb].
      rewrite andb_true_r. apply negb_true_iff, N.ltb_ge. exact Hfresh. }
    rewrite Hok. unfold mvals. rewrite fmap_length. change (length (map_to_list (s_reps c))) with (size (s_reps c)).
    assert (Hsz : size (s_reps c) = size (cur_members h)) by (by rewrite <- HH, map_size_fmap).
    assert (0 < length (sd_members sd))%nat by (destruct (sd_members sd); [done|cbn; lia]).
    unfold quorum_of. rewrite Hsz. pose proof (Nat.div_lt (size (cur_members h)) 2 ltac:(lia) ltac:(lia)). lia.
  - apply bool_decide_eq_true. unfold shard_size. by rewrite Hin.
  - apply forallb_forall. intros [rid a] Hra. apply elem_of_list_In, elem_of_map_to_list in Hra. cbn [fst snd].
    apply (Hall s rid a). by exists h.
Qed.

(** * consecutive healthy rounds *)
Lemma rounds_app plogs nticks os1 os2 st :
  healthy_rounds P plogs nticks (os1 ++ os2) st =
  match healthy_rounds P plogs nticks os1 st with Some st1 => healthy_rounds P plogs nticks os2 st1 | None => None end.
Proof.
  revert st. induction os1 as [|o os1 IH]; intros st; cbn [healthy_rounds app]; [done|].
  destruct (healthy_round P plogs nticks o st); [apply IH|done].
Qed.

Section Rounds.
Variables (plogs : N → bool) (nticks : nat).
Hypothesis Hpl : ∀ a, plogs a = true.
Hypothesis Httl : N.of_nat nticks * p_step P ≤ p_ttl P.
Let delta : N := N.of_nat nticks * p_step P.

(* while the failure detector waits: a member that does not run keeps the report time it had *)
Lemma calm_rounds_detect os : ∀ st st' T0,
  Calm st →
  (∀ s rid a, member st s rid a → member_running (f_hosts st) s rid a = false → mem_tick st s rid ≤ T0) →
  healthy_rounds P plogs nticks os st = Some st' →
  Calm st' ∧ f_hist st' = f_hist st ∧ d_tick (f_db st') = d_tick (f_db st) + N.of_nat (length os) * delta ∧
  (∀ s rid a, member st' s rid a → member_running (f_hosts st') s rid a = false → mem_tick st' s rid ≤ T0) ∧
  (os ≠ [] → ∀ s rid a, member st' s rid a → member_running (f_hosts st') s rid a = false →
     p_ttl P < d_tick (f_db st') - mem_tick st' s rid → pending st' a s rid).
Proof.
  induction os as [|o os IH]; intros st st' T0 HC Hold Hr.
  { cbn in Hr. injection Hr as <-. split; [done|]. split; [done|]. split; [cbn; lia|]. split; [done|]. done. }
  cbn [healthy_rounds] in Hr. destruct (healthy_round P plogs nticks o st) as [st1|] eqn:E1; [|done].
  destruct (calm_round st st1 plogs nticks o HC Hpl Httl E1) as (b & _ & HC1 & Hhi1 & Ht1 & _).
  assert (Hold1 : ∀ s rid a, member st1 s rid a → member_running (f_hosts st1) s rid a = false → mem_tick st1 s rid ≤ T0).
  { intros s rid a Hm1 Hrun1. assert (Hm : member st s rid a) by (unfold member in *; by rewrite <- Hhi1).
    destruct (calm_round_member st st1 plogs nticks o s rid a HC Hpl Httl E1 Hm) as (_ & Ha & Hb & _).
    destruct (member_running (f_hosts st) s rid a) eqn:Erun.
    - destruct (Ha eq_refl) as [Hx _]. congruence.
    - rewrite (Hb eq_refl). by apply (Hold s rid a). }
  destruct (IH st1 st' T0 HC1 Hold1 Hr) as (HC' & Hhi' & Ht' & Hold' & Hpend').
  split; [done|]. split; [congruence|]. split.
  { rewrite Ht', Ht1. fold delta. cbn [length]. rewrite Nat2N.inj_succ, N.mul_succ_l. lia. }
  split; [done|]. intros _. destruct os as [|o' os'].
  - cbn in Hr. injection Hr as <-. intros s rid a Hm1 Hrun1 Hgap.
    assert (Hm : member st s rid a) by (unfold member in *; by rewrite <- Hhi1).
    destruct (calm_round_member st st1 plogs nticks o s rid a HC Hpl Httl E1 Hm) as (_ & _ & _ & _ & Hd). by apply Hd.
  - by apply Hpend'.
Qed.

Theorem calm_heal os st st' :
  Calm st → (0 < nticks)%nat → 0 < p_step P →
  length os = (detect_rounds P nticks + 2)%nat →
  healthy_rounds P plogs nticks os st = Some st' →
  Calm st' ∧ healed P st' = true.
Proof.
  intros HC Hnt Hstep Hlen Hr.
  set (K := detect_rounds P nticks) in *.
  assert (Hdpos : 0 < delta) by (unfold delta; lia).
  rewrite <- (take_drop K os), rounds_app in Hr.
  destruct (healthy_rounds P plogs nticks (take K os) st) as [st1|] eqn:E1; [|done].
  assert (Hl1 : length (take K os) = K) by (rewrite take_length; lia).
  destruct (drop K os) as [|o1 [|o2 [|? ?]]] eqn:Ed;
    try (apply (f_equal length) in Ed; rewrite drop_length in Ed; cbn [length] in Ed; lia).
  cbn [healthy_rounds] in Hr.
  destruct (healthy_round P plogs nticks o1 st1) as [st2|] eqn:E2; [|done].
  destruct (healthy_round P plogs nticks o2 st2) as [st3|] eqn:E3; [|done]. injection Hr as <-.
  (* phase 1: every member that does not run is declared failed and gets its restore request *)
  destruct (calm_rounds_detect (take K os) st st1 (d_tick (f_db st)) HC) as (HC1 & Hhi1 & Ht1 & Hold1 & Hpend1); [|done|].
  { intros s rid a Hm _. destruct (calm_member_rec st s rid a HC Hm) as (c & n & _ & Hc & Hn & _).
    unfold mem_tick. assert (Hrec : rec_of (d_view (f_db st)) s rid = Some n) by (apply rec_of_Some; eauto). rewrite Hrec.
    destruct (cm_timeok _ HC) as (Hto & _). by destruct (Hto s c rid n Hc Hn). }
  rewrite Hl1 in Ht1.
  assert (HK : p_ttl P < N.of_nat K * delta).
  { unfold K, detect_rounds. fold delta. rewrite Nat2N.inj_succ, N2Nat.id.
    pose proof (N.mul_succ_div_gt (p_ttl P) delta ltac:(lia)). lia. }
  assert (Hall1 : ∀ s rid a, member st1 s rid a → member_running (f_hosts st1) s rid a = false → pending st1 a s rid).
  { intros s rid a Hm Hrun. apply Hpend1; [|done|done|].
    - intros Hnil. apply (f_equal length) in Hnil. rewrite Hl1 in Hnil. unfold K, detect_rounds in Hnil. cbn in Hnil. lia.
    - pose proof (Hold1 s rid a Hm Hrun). lia. }
  (* phase 2: they are restarted *)
  destruct (calm_round st1 st2 plogs nticks o1 HC1 Hpl Httl E2) as (b2 & _ & HC2 & Hhi2 & Ht2 & _).
  assert (Hall2 : ∀ s rid a, member st2 s rid a → member_running (f_hosts st2) s rid a = true).
  { intros s rid a Hm2. assert (Hm : member st1 s rid a) by (unfold member in *; by rewrite <- Hhi2).
    destruct (calm_round_member st1 st2 plogs nticks o1 s rid a HC1 Hpl Httl E2 Hm) as (_ & Ha & _ & Hc & _).
    destruct (member_running (f_hosts st1) s rid a) eqn:Erun; [by apply Ha|]. apply Hc. by apply Hall1. }
  (* phase 3: they report *)
  destruct (calm_round st2 st3 plogs nticks o2 HC2 Hpl Httl E3) as (b3 & _ & HC3 & Hhi3 & Ht3 & _).
  split; [done|]. apply (calm_healed st3 HC3). intros s rid a Hm3.
  assert (Hm : member st2 s rid a) by (unfold member in *; by rewrite <- Hhi3).
  destruct (calm_round_member st2 st3 plogs nticks o2 s rid a HC2 Hpl Httl E3 Hm) as (_ & Ha & _).
  destruct (Ha (Hall2 s rid a Hm)) as [Hrun Htk]. split; [done|]. rewrite Htk, Ht3. fold delta. unfold delta. lia.
Qed.

(* ... and it stays healed: any number of healthy rounds >= the bound *)
Lemma calm_rounds_calm os : ∀ st st', Calm st → healthy_rounds P plogs nticks os st = Some st' → Calm st'.
Proof.
  induction os as [|o os IH]; intros st st' HC Hr; cbn [healthy_rounds] in Hr; [by injection Hr as <-|].
  destruct (healthy_round P plogs nticks o st) as [st1|] eqn:E1; [|done].
  destruct (calm_round st st1 plogs nticks o HC Hpl Httl E1) as (b & _ & HC1 & _). by eapply IH.
Qed.

Theorem calm_heal_ge os st st' :
  Calm st → (0 < nticks)%nat → 0 < p_step P →
  (detect_rounds P nticks + 2 ≤ length os)%nat →
  healthy_rounds P plogs nticks os st = Some st' →
  Calm st' ∧ healed P st' = true.
Proof.
  intros HC Hnt Hstep Hlen Hr. set (k := (length os - (detect_rounds P nticks + 2))%nat).
  rewrite <- (take_drop k os), rounds_app in Hr.
  destruct (healthy_rounds P plogs nticks (take k os) st) as [st1|] eqn:E1; [|done].
  apply (calm_heal (drop k os) st1 st'); [by eapply calm_rounds_calm|done|done| |done].
  rewrite drop_length. unfold k. lia.
Qed.
End Rounds.

(** * the rank *)
Definition pendingb (st : fstate) (a s rid : N) : bool :=
  existsb (λ q, is_restore q && (q_shard q =? s) && (q_inst q =? rid)) (default [] (d_requests (f_db st) !! a)).

Lemma pendingb_spec st a s rid : pendingb st a s rid = true ↔ pending st a s rid.
Proof.
  unfold pendingb, pending. rewrite existsb_exists. split.
  - intros (q & Hq & Hx). apply elem_of_list_In in Hq. destruct (d_requests (f_db st) !! a) as [qs|]; [|by apply elem_of_nil in Hq].
    apply andb_true_iff in Hx as [Hx H3]. apply andb_true_iff in Hx as [H1 H2]. apply N.eqb_eq in H2, H3. exists qs, q. done.
  - intros (qs & q & -> & Hq & H1 & H2 & H3). exists q. split; [by apply elem_of_list_In|].
    rewrite H1, H2, H3, !N.eqb_refl. done.
Qed.

(* per member: 0 runs and is reported in time; 1 runs, not yet reported; 2 stopped, its restore request is
   scheduled; 3 + the time left until the failure detector fires *)
Definition rank_member (st : fstate) (m : N * N * N) : nat :=
  let '(s, rid, a) := m in
  let age := d_tick (f_db st) - mem_tick st s rid in
  if member_running (f_hosts st) s rid a then (if p_ttl P <? age then 1%nat else 0%nat)
  else if pendingb st a s rid then 2%nat
  else (3 + N.to_nat (p_ttl P + 1 - age))%nat.

Definition members_list (st : fstate) : list (N * N * N) :=
  map_to_list (f_hist st) ≫= λ sh, (λ ra, (sh.1, ra.1, ra.2)) <$> map_to_list (cur_members sh.2).

Definition heal_rank (st : fstate) : nat := sum_list_with (rank_member st) (members_list st).

Lemma members_list_elem st s rid a : (s, rid, a) ∈ members_list st ↔ member st s rid a.
Proof.
  unfold members_list, member. rewrite elem_of_list_bind. split.
  - intros ([s0 h] & Hin & Hsh). apply elem_of_map_to_list in Hsh. apply elem_of_list_fmap in Hin as ([rid0 a0] & [= -> -> ->] & Hra).
    apply elem_of_map_to_list in Hra. by exists h.
  - intros (h & Hh & Hm). exists (s, h). split; [|by apply elem_of_map_to_list].
    apply elem_of_list_fmap. exists (rid, a). split; [done|]. by apply elem_of_map_to_list.
Qed.

Lemma sum_list_with_lt {A} (f g : A → nat) (l : list A) :
  (∀ x, x ∈ l → (f x ≤ g x)%nat) → (∃ x, x ∈ l ∧ (f x < g x)%nat) → (sum_list_with f l < sum_list_with g l)%nat.
Proof.
  induction l as [|y l IH]; intros Hle (x & Hx & Hlt); [by apply elem_of_nil in Hx|]. cbn [sum_list_with].
  assert (Hle' : (sum_list_with f l ≤ sum_list_with g l)%nat).
  { clear -Hle. induction l as [|z l IH]; cbn [sum_list_with]; [lia|].
    pose proof (Hle z ltac:(right; left)). assert (sum_list_with f l ≤ sum_list_with g l)%nat; [|lia].
    apply IH. intros x Hx. apply Hle. apply elem_of_cons in Hx as [->|Hx]; [left|right; by right]. }
  pose proof (Hle y ltac:(left)) as Hy. apply elem_of_cons in Hx as [->|Hx]; [lia|].
  assert (sum_list_with f l < sum_list_with g l)%nat; [|lia]. apply IH; [|by exists x].
  intros z Hz. apply Hle. by right.
Qed.

Lemma rank_zero st s rid a :
  rank_member st (s, rid, a) = 0%nat →
  member_running (f_hosts st) s rid a = true ∧ d_tick (f_db st) - mem_tick st s rid ≤ p_ttl P.
Proof.
  unfold rank_member. destruct (member_running (f_hosts st) s rid a).
  - destruct (p_ttl P <? _) eqn:E; [done|]. apply N.ltb_ge in E. done.
  - destruct (pendingb st a s rid); [done|]. lia.
Qed.

Theorem calm_progress st st' plogs nticks o :
  Calm st → (∀ a, plogs a = true) → (0 < nticks)%nat → 0 < p_step P → N.of_nat nticks * p_step P ≤ p_ttl P →
  healed P st = false → healthy_round P plogs nticks o st = Some st' →
  (heal_rank st' < heal_rank st)%nat.
Proof.
  intros HC Hpl Hnt Hstep Httl Hnh Hround.
  destruct (calm_round st st' plogs nticks o HC Hpl Httl Hround) as (b & _ & HC' & Hhi & Htick & _).
  assert (Hd : 0 < N.of_nat nticks * p_step P) by lia.
  unfold heal_rank. assert (members_list st' = members_list st) as -> by (unfold members_list; by rewrite Hhi).
  (* every member: the rank does not grow, and it drops unless it is 0 *)
  assert (Hstepm : ∀ s rid a, member st s rid a →
            (rank_member st' (s, rid, a) ≤ rank_member st (s, rid, a))%nat ∧
            (rank_member st (s, rid, a) ≠ 0%nat → rank_member st' (s, rid, a) < rank_member st (s, rid, a))%nat).
  { intros s rid a Hm.
    destruct (calm_round_member st st' plogs nticks o s rid a HC Hpl Httl Hround Hm) as (Hm' & Ha & Hb & Hc & Hdd).
    destruct (calm_member_rec st s rid a HC Hm) as (c & n & _ & Hcv & Hn & _).
    assert (Hmt : mem_tick st s rid ≤ d_tick (f_db st)).
    { unfold mem_tick. assert (Hrec : rec_of (d_view (f_db st)) s rid = Some n) by (apply rec_of_Some; eauto). rewrite Hrec.
      destruct (cm_timeok _ HC) as (Hto & _). by destruct (Hto s c rid n Hcv Hn). }
    unfold rank_member. destruct (member_running (f_hosts st) s rid a) eqn:Erun.
    - destruct (Ha eq_refl) as [-> ->]. rewrite Htick.
      assert ((p_ttl P <? d_tick (f_db st) + N.of_nat nticks * p_step P - d_tick (f_db st)) = false) as -> by (apply N.ltb_ge; lia).
      destruct (p_ttl P <? _); split; lia.
    - destruct (pendingb st a s rid) eqn:Ep.
      + apply pendingb_spec in Ep. rewrite (Hc Ep). destruct (p_ttl P <? _); split; lia.
      + destruct (member_running (f_hosts st') s rid a) eqn:Erun'; [destruct (p_ttl P <? _); split; lia|].
        destruct (pendingb st' a s rid) eqn:Ep'; [split; lia|].
        assert (Hng : ¬ (p_ttl P < d_tick (f_db st') - mem_tick st' s rid)).
        { intros Hg. apply (Hdd eq_refl) in Hg. apply pendingb_spec in Hg. congruence. }
        rewrite (Hb eq_refl) in Hng |- *. rewrite Htick in Hng |- *. split; lia. }
  apply sum_list_with_lt.
  - intros [[s rid] a] Hx. apply members_list_elem in Hx. by apply Hstepm.
  - destruct (decide (Forall (λ m, rank_member st m = 0%nat) (members_list st))) as [Hall|Hnall].
    + exfalso. rewrite (calm_healed st HC) in Hnh; [done|]. intros s rid a Hm. apply rank_zero.
      rewrite Forall_forall in Hall. apply Hall. by apply members_list_elem.
    + apply not_Forall_Exists in Hnall; [|apply _]. apply Exists_exists in Hnall as ([[s rid] a] & Hx & Hnz).
      exists (s, rid, a). split; [done|]. apply members_list_elem in Hx. by apply Hstepm.
Qed.
End Heal.

(** * the decidable part of [Calm] (FleetRounds.calm_restb) is sound *)
Lemma boxed_all_requests st q : boxed st q → q ∈ all_requests st.
Proof.
  unfold boxed, in_box, all_requests. intros [(a & qs & Hl & Hin)|[(a & qs & Hl & Hin)|[(a & fh & Hl & Hin)|Hq]]].
  - apply elem_of_app. left. apply elem_of_list_In, in_concat. exists qs. split; [|by apply elem_of_list_In].
    apply elem_of_list_In, elem_of_list_fmap. exists (a, qs). split; [done|]. by apply elem_of_map_to_list.
  - apply elem_of_app. right. apply elem_of_app. left. apply elem_of_list_In, in_concat. exists qs. split; [|by apply elem_of_list_In].
    apply elem_of_list_In, elem_of_list_fmap. exists (a, qs). split; [done|]. by apply elem_of_map_to_list.
  - apply elem_of_app. right. apply elem_of_app. right. apply elem_of_list_In, in_concat. exists (fh_queue fh).
    split; [|by apply elem_of_list_In]. apply elem_of_list_In, elem_of_list_fmap. exists fh. split; [done|].
    apply elem_of_list_fmap. exists (a, fh). split; [done|]. by apply elem_of_map_to_list.
  - by apply elem_of_nil in Hq.
Qed.

Lemma time_okb_sound d : time_okb d = true → time_ok d.
Proof.
  unfold time_okb. intros H. apply andb_true_iff in H as [H H3]. apply andb_true_iff in H as [H1 H2]. split; [|split].
  - intros s c n r Hc Hn. pose proof (forallb_map_to_list _ _ H1 s c Hc) as Hx. cbn [snd] in Hx.
    pose proof (forallb_map_to_list _ _ Hx n r Hn) as Hy. cbn [snd] in Hy. apply andb_true_iff in Hy as [Hy1 Hy2].
    apply N.leb_le in Hy1, Hy2. done.
  - intros a h Ha. pose proof (forallb_map_to_list _ _ H2 a h Ha) as Hx. by apply N.leb_le in Hx.
  - intros a r Ha. pose proof (forallb_map_to_list _ _ H3 a r Ha) as Hx. by apply N.leb_le in Hx.
Qed.

Lemma calm_restb_sound st : LoopInv st → calm_restb st = true → Calm st.
Proof.
  intros HI H. unfold calm_restb in H.
  apply andb_true_iff in H as [H Hhome]. apply andb_true_iff in H as [H Hstamped]. apply andb_true_iff in H as [H Hmem].
  apply andb_true_iff in H as [H Hboxes]. apply andb_true_iff in H as [H Hkill]. apply andb_true_iff in H as [H Hhosts].
  apply andb_true_iff in H as [H Hviewdef]. apply andb_true_iff in H as [H Hdef]. apply andb_true_iff in H as [Htok Htime].
  apply bool_decide_eq_true in Hkill. apply N.ltb_lt in Htime.
  assert (Hcur : ∀ s rid a, cur_members (hist_of (f_hist st) s) !! rid = Some a → ∃ h, f_hist st !! s = Some h ∧ cur_members h !! rid = Some a).
  { intros s rid a. unfold hist_of. destruct (f_hist st !! s) as [h|]; cbn [default from_option id cur_members]; [by exists h|].
    by rewrite lookup_empty. }
  split.
  - exact HI.
  - by apply time_okb_sound.
  - exact Htime.
  - intros s sd Hs. pose proof (forallb_map_to_list _ _ Hdef s sd Hs) as Hx. cbn [fst snd] in Hx.
    apply andb_true_iff in Hx as [Hx H3]. apply andb_true_iff in Hx as [H1 H2].
    apply bool_decide_eq_true in H1. apply negb_true_iff, bool_decide_eq_false in H2. apply negb_true_iff, N.eqb_neq in H3. done.
  - intros s [c Hc]. pose proof (forallb_map_to_list _ _ Hviewdef s c Hc) as Hx. cbn [fst snd] in Hx.
    apply andb_true_iff in Hx as [H1 H2]. apply bool_decide_eq_true in H1, H2. done.
  - intros a fh Ha. pose proof (forallb_map_to_list _ _ Hhosts a fh Ha) as Hx. cbn [fst snd] in Hx.
    apply andb_true_iff in Hx as [H1 H2]. apply bool_decide_eq_true in H2. done.
  - exact Hkill.
  - intros q Hq. apply boxed_all_requests in Hq. rewrite forallb_forall in Hboxes. apply elem_of_list_In in Hq.
    specialize (Hboxes q Hq). cbn zeta in Hboxes. apply orb_true_iff in Hboxes as [Hboxes|Hboxes]; [apply orb_true_iff in Hboxes as [Hboxes|Hboxes]|].
    + left. apply andb_true_iff in Hboxes as [Hx H3]. apply andb_true_iff in Hx as [H1 H2].
      apply negb_true_iff in H2. apply is_member_true in H3 as [a H3]. destruct (Hcur _ _ _ H3) as (h & Hh & Hm).
      split; [done|]. split; [done|]. by exists h, a.
    + right; left. apply andb_true_iff in Hboxes as [Hx H4]. apply andb_true_iff in Hx as [Hx H3]. apply andb_true_iff in Hx as [H1 H2].
      apply negb_true_iff, N.eqb_neq in H2. apply negb_true_iff, bool_decide_eq_false in H3.
      split; [done|]. split; [done|]. split; [done|]. intros Hadd. rewrite Hadd in H4. cbn in H4. by apply negb_true_iff, bool_decide_eq_false in H4.
    + right; right. apply andb_true_iff in Hboxes as [H1 H2]. split; [done|].
      destruct (q_members q) as [|y [|? ?]]; try done. exists y. split; [done|]. intros h Hh.
      unfold hist_of in H2. rewrite Hh in H2. cbn [default from_option id] in H2. by apply negb_true_iff in H2.
  - intros s h Hh. pose proof (forallb_map_to_list _ _ Hmem s h Hh) as Hx. cbn [fst snd] in Hx.
    destruct (d_view (f_db st) !! s) as [c|]; [|done]. apply andb_true_iff in Hx as [Hx1 Hx2]. apply N.eqb_eq in Hx1.
    exists c. split; [done|]. split; [done|]. intros rid a Hra.
    pose proof (forallb_map_to_list _ _ Hx2 rid a Hra) as Hy. cbn [fst snd] in Hy.
    apply andb_true_iff in Hy as [Hy H3]. apply andb_true_iff in Hy as [H1 H2].
    apply negb_true_iff, N.eqb_neq in H1, H2. split; [done|]. split; [done|].
    destruct (f_hosts st !! a) as [fh|]; [|done]. apply bool_decide_eq_true in H3 as [lr H3]. by exists fh, lr.
  - intros s c rid n Hc Hn. pose proof (forallb_map_to_list _ _ Hstamped s c Hc) as Hx. cbn [snd] in Hx.
    pose proof (forallb_map_to_list _ _ Hx rid n Hn) as Hy. cbn [snd] in Hy. by apply negb_true_iff, N.eqb_neq in Hy.
  - intros a fh s rid lr h a' Ha Hk Hh Hm. pose proof (forallb_map_to_list _ _ Hhome a fh Ha) as Hx. cbn [fst snd] in Hx.
    pose proof (forallb_map_to_list _ _ Hx (s, rid) lr Hk) as Hy. cbn [fst snd] in Hy.
    unfold hist_of in Hy. rewrite Hh in Hy. cbn [default from_option id] in Hy. rewrite Hm in Hy. by apply N.eqb_eq in Hy.
  - intros a fh s rid lr Ha Hk Hrun. pose proof (forallb_map_to_list _ _ Hhome a fh Ha) as Hx. cbn [fst snd] in Hx.
    pose proof (forallb_map_to_list _ _ Hx (s, rid) lr Hk) as Hy. cbn [fst snd] in Hy.
    destruct (cur_members (hist_of (f_hist st) s) !! rid) as [a'|] eqn:Em; [|by rewrite Hrun in Hy].
    destruct (Hcur _ _ _ Em) as (h & Hh & Hm). exists h. split; [done|]. by eexists.
Qed.

(** * a NodeHost crashes and comes back: the fleet stays calm *)
Lemma calm_bounce P st a st1 st2 :
  Calm st → fstep P st (ECrash a) = FOk st1 → fstep P st1 (ERestart a) = FOk st2 → Calm st2.
Proof.
  intros HC E1 E2. pose proof (cm_inv _ HC) as HI.
  pose proof (step_inv P st (ECrash a) st1 HI I E1) as HI1. pose proof (step_inv P st1 (ERestart a) st2 HI1 I E2) as HI2.
  cbn [fstep] in E1. destruct (f_hosts st !! a) as [fh|] eqn:Ha; [|done]. destruct (fh_up fh) eqn:Hup; [|done]. injection E1 as <-.
  cbn [fstep set_host f_hosts] in E2. rewrite lookup_insert in E2. cbn [fh_up] in E2. injection E2 as <-.
  set (reps' := (λ lr, mkLRep false (lr_ver lr)) <$> fh_reps fh) in *.
  set (fh' := mkFHost true (fh_region fh) reps' [] None) in *.
  assert (Hhosts : f_hosts (set_host (set_host st a (mkFHost false (fh_region fh) reps' [] None)) a fh') = <[a := fh']> (f_hosts st)).
  { unfold set_host. cbn [f_hosts]. by rewrite insert_insert. }
  pose proof (calm_hcalm st HC) as HH.
  apply (calm_change_hosts st _ HC HI2); [done|done| |].
  - rewrite Hhosts. split.
    + intros b fhb. destruct (decide (b = a)) as [->|Hne].
      * rewrite lookup_insert. intros [= <-]. done.
      * rewrite lookup_insert_ne by done. apply (hc_up _ _ HH).
    + intros s h rid b Hh Hm. destruct (hc_members _ _ HH s h rid b Hh Hm) as (fhb & lr & Hfhb & Hk).
      destruct (decide (b = a)) as [->|Hne].
      * rewrite lookup_insert. assert (fhb = fh) as -> by congruence. exists fh'. eexists. split; [done|].
        cbn [fh' fh_reps]. unfold reps'. rewrite lookup_fmap, Hk. done.
      * rewrite lookup_insert_ne by done. eauto.
    + intros b fhb s rid lr h a'. destruct (decide (b = a)) as [->|Hne].
      * rewrite lookup_insert. intros [= <-] Hk. cbn [fh' fh_reps] in Hk. unfold reps' in Hk. rewrite lookup_fmap in Hk.
        destruct (fh_reps fh !! (s, rid)) as [lr0|] eqn:E0; [|done]. by apply (hc_home _ _ HH a fh s rid lr0 h a').
      * rewrite lookup_insert_ne by done. apply (hc_home _ _ HH).
    + intros b fhb s rid lr. destruct (decide (b = a)) as [->|Hne].
      * rewrite lookup_insert. intros [= <-] Hk Hr. cbn [fh' fh_reps] in Hk. unfold reps' in Hk. rewrite lookup_fmap in Hk.
        destruct (fh_reps fh !! (s, rid)) as [lr0|]; [|done]. injection Hk as <-. done.
      * rewrite lookup_insert_ne by done. apply (hc_nostray _ _ HH).
  - intros q. unfold boxed, in_box. rewrite Hhosts. cbn [set_host f_db].
    intros [Hq|[Hq|[(b & fhb & Hb & Hin)|Hq]]]; [by left|by right; left| |by right; right; right].
    destruct (decide (b = a)) as [->|Hne].
    + rewrite lookup_insert in Hb. injection Hb as <-. by apply elem_of_nil in Hin.
    + rewrite lookup_insert_ne in Hb by done. right; right; left. eauto.
Qed.

(* a healed and clean fleet (FleetLiveProofs.Steady) whose members have all reported is calm *)
Lemma steady_calm st :
  Steady st → time_ok (f_db st) →
  (∀ s sd, d_shards (f_db st) !! s = Some sd → sd_app sd ≠ 0) →
  (∀ s, is_Some (d_view (f_db st) !! s) → is_Some (d_shards (f_db st) !! s) ∧ is_Some (f_hist st !! s)) →
  (∀ s h rid a, f_hist st !! s = Some h → cur_members h !! rid = Some a → rid ≠ 0 ∧ a ≠ 0) →
  (∀ s c rid n, d_view (f_db st) !! s = Some c → s_reps c !! rid = Some n → r_tick n ≠ 0) →
  (∀ a fh s rid lr h a', f_hosts st !! a = Some fh → fh_reps fh !! (s, rid) = Some lr →
     f_hist st !! s = Some h → cur_members h !! rid = Some a' → a' = a) →
  Calm st.
Proof.
  intros HS Hto Happ Hvd Hnz Hst Hhome. destruct (sy_boxes _ HS) as (Hrq & Hog & Hkl). split.
  - apply (sy_inv _ HS).
  - exact Hto.
  - apply (sy_time _ HS).
  - intros s sd Hs. destruct (sy_defined _ HS s sd Hs) as [H1 H2]. split; [done|]. split; [done|]. by apply (Happ s).
  - exact Hvd.
  - intros a fh Ha. destruct (sy_hosts _ HS a fh Ha) as (H1 & _ & H3). done.
  - exact Hkl.
  - intros q [(a & qs & Hl & _)|[(a & qs & Hl & _)|[(a & fh & Hl & Hin)|Hq]]].
    + by rewrite Hrq, lookup_empty in Hl.
    + by rewrite Hog, lookup_empty in Hl.
    + destruct (sy_hosts _ HS a fh Hl) as (_ & H2 & _). rewrite H2 in Hin. by apply elem_of_nil in Hin.
    + by apply elem_of_nil in Hq.
  - intros s h Hh. destruct (sy_members _ HS s h Hh) as (c & Hc & Hcc & Hmem). exists c. split; [done|]. split; [done|].
    intros rid a Hm. destruct (Hnz s h rid a Hh Hm) as [H1 H2]. split; [done|]. split; [done|].
    destruct (Hmem rid a Hm) as (fh & lr & Hfh & Hk & _). by exists fh, lr.
  - exact Hst.
  - exact Hhome.
  - intros a fh s rid lr Ha Hk Hrun. destruct (sy_nostray _ HS a fh s rid lr Ha Hk Hrun) as (h & Hh & Hm & _). exists h. split; [done|]. by eexists.
Qed.

(* events other than scheduling rounds need no hypothesis on the random source *)
Definition not_schedule (ev : event) : bool := match ev with ESchedule _ => false | _ => true end.
Lemma fresh_run_faults P evs : ∀ st, forallb not_schedule evs = true → fresh_run P st evs.
Proof.
  induction evs as [|ev evs IH]; intros st H; cbn [fresh_run]; [done|].
  cbn [forallb] in H. apply andb_true_iff in H as [H1 H2]. split; [by destruct ev|].
  destruct (fstep P st ev); [by apply IH|by apply IH|done].
Qed.

(* the part of [calm_round] quoted by props/C01.v *)
Lemma calm_round_short P st st' plogs nticks o :
  Calm st → (∀ a, plogs a = true) → N.of_nat nticks * p_step P ≤ p_ttl P →
  healthy_round P plogs nticks o st = Some st' →
  ∃ b, o = OBatch b ∧ Calm st' ∧ f_hist st' = f_hist st ∧
    (∀ a fh, f_hosts st' !! a = Some fh → fh_queue fh = []) ∧
    (∀ a s rid, member_running (f_hosts st) s rid a = true → member_running (f_hosts st') s rid a = true).
Proof.
  intros HC Hpl Httl Hr.
  destruct (calm_round P st st' plogs nticks o HC Hpl Httl Hr) as (b & H1 & H2 & H3 & _ & _ & H4 & _ & H5 & _).
  exists b. auto.
Qed.

(** * errNotEnoughNodeHost, from ANY state of the invariant: cause, and exclusion by a spare NodeHost *)
(* NodeHost [a] is spare for shard [s]: it is up, runs no replica of s and has not been the address of a member of
   s in any membership from the one Drummer's view shows onwards *)
Definition spare (st : fstate) (a s : N) : Prop :=
  (∃ fh, f_hosts st !! a = Some fh ∧ fh_up fh = true ∧ ∀ rid lr, fh_reps fh !! (s, rid) = Some lr → lr_running lr = false) ∧
  (∀ e rid, e ∈ hist_of (f_hist st) s → view_ver (f_db st) s ≤ e.1 → e.2 !! rid ≠ Some a).

(* Drummer's record of host a: it reported at t and is not known to host shard s *)
Definition free_at (d : db) (a s t : N) : Prop :=
  ∃ h, d_hosts d !! a = Some h ∧ h_addr h = a ∧ h_tick h = t ∧ s ∉ h_shards h.

Section NoError.
Variable P : params.

Lemma steps_keep (Q : fstate → Prop) evs :
  (∀ st ev st', ev ∈ evs → LoopInv st → Q st → fstep P st ev = FOk st' → Q st') →
  forallb not_schedule evs = true →
  ∀ st, LoopInv st → Q st → ∃ st', steps P st evs = Some st' ∧ LoopInv st' ∧ Q st'.
Proof.
  induction evs as [|ev evs IH]; intros Hstep Hns st HI HQ; [by exists st|].
  cbn [forallb] in Hns. apply andb_true_iff in Hns as [Hn1 Hns].
  assert (Hfr : fresh_ok st ev) by (by destruct ev).
  rewrite steps_cons. pose proof (step_no_panic P st ev HI Hfr) as Hnp.
  destruct (fstep P st ev) as [st1| |] eqn:E; [| |done].
  - apply IH; [|done| |].
    + intros st0 ev0 st0' Hin. apply Hstep. by right.
    + by eapply step_inv.
    + eapply Hstep; [left|done|done|done].
  - apply IH; [|done|done|done]. intros st0 ev0 st0' Hin. apply Hstep. by right.
Qed.

Lemma view_ver_mono d c d' s : next P d c = Some d' → view_ver d s ≤ view_ver d' s.
Proof.
  intros Hn. pose proof (step_ver_mono P d c d' Hn s) as Hm. unfold view_ver, ver in *.
  destruct (d_view d !! s) as [c0|]; [|lia]. destruct (Hm (s_cci c0) eq_refl) as (v' & Hv' & Hle).
  destruct (d_view d' !! s) as [c1|]; [|done]. cbn in Hv'. injection Hv' as <-. done.
Qed.

(* the view never places shard s on a host that was not a member's address since version v0 *)
Lemma spare_not_on st a s v0 :
  LoopInv st → v0 ≤ view_ver (f_db st) s →
  (∀ e rid, e ∈ hist_of (f_hist st) s → v0 ≤ e.1 → e.2 !! rid ≠ Some a) → s ∉ shards_on (d_view (f_db st)) a.
Proof.
  intros HI Hv Hsp Hin. unfold shards_on in Hin. apply elem_of_dom in Hin as [c Hc]. apply map_filter_lookup_Some in Hc as [Hc Ha].
  cbn [snd] in Ha. destruct (li_view _ _ _ _ _ HI s c Hc) as (_ & HH & _). unfold Hf in HH. apply entry_at_Some in HH.
  unfold view_ver in Hv. rewrite Hc in Hv.
  unfold addrs_of in Ha. apply elem_of_list_fmap in Ha as (n & -> & Hn). apply mvals_elem in Hn as [rid Hn].
  apply (Hsp _ rid HH); [done|]. cbn [snd]. by rewrite lookup_fmap, Hn.
Qed.

(* one host reports (any state of the invariant) *)
Lemma report_free st a fh plog :
  LoopInv st → f_hosts st !! a = Some fh → fh_up fh = true →
  ∃ st', steps P st [ESnap a plog; EDeliver a false] = Some st' ∧ LoopInv st' ∧
    f_hist st' = f_hist st ∧ d_tick (f_db st') = d_tick (f_db st) ∧
    (∀ b, fh_reps <$> f_hosts st' !! b = fh_reps <$> f_hosts st !! b) ∧
    (∀ b, fh_up <$> f_hosts st' !! b = fh_up <$> f_hosts st !! b) ∧
    (∀ s, view_ver (f_db st) s ≤ view_ver (f_db st') s) ∧
    (∀ s, spare st a s → free_at (f_db st') a s (d_tick (f_db st))) ∧
    (∀ b s t v0, b ≠ a → v0 ≤ view_ver (f_db st) s →
       (∀ e rid, e ∈ hist_of (f_hist st) s → v0 ≤ e.1 → e.2 !! rid ≠ Some b) →
       free_at (f_db st) b s t → free_at (f_db st') b s t).
Proof.
  intros HI Ha Hup.
  set (r := host_report (f_db st) (f_hist st) a fh plog).
  set (fh1 := mkFHost true (fh_region fh) (fh_reps fh) (fh_queue fh) (Some r)).
  set (st1 := set_host st a fh1).
  assert (E1 : fstep P st (ESnap a plog) = FOk st1) by (cbn [fstep]; by rewrite Ha, Hup).
  pose proof (step_inv P st (ESnap a plog) st1 HI I E1) as HI1.
  assert (Ha1 : f_hosts st1 !! a = Some fh1) by (unfold st1, set_host; cbn; by rewrite lookup_insert).
  pose proof (step_deliver_no_panic P st1 a false HI1) as Hnp.
  cbn [fstep] in Hnp. rewrite Ha1 in Hnp. cbn [fh_up fh1 fh_out] in Hnp.
  destruct (db_step P (f_db st1) (CReport r)) as [d' v| |] eqn:Es; try done. clear Hnp.
  set (fh2 := mkFHost true (fh_region fh1) (fh_reps fh1) (fh_queue fh1 ++ lookup_requests d' a) None).
  set (st2 := mkF d' (<[a := fh2]> (f_hosts st1)) (f_hist st1) (f_seen st1)).
  assert (E2 : fstep P st1 (EDeliver a false) = FOk st2).
  { cbn [fstep]. rewrite Ha1. cbn [fh_up fh1 fh_out]. by rewrite Es. }
  pose proof (step_inv P st1 (EDeliver a false) st2 HI1 I E2) as HI2.
  change (f_db st1) with (f_db st) in Es.
  assert (Hn : next P (f_db st) (CReport r) = Some d') by (unfold next; by rewrite Es).
  pose proof Hn as Hn'. apply next_cases in Hn' as [[Hf' _]|[_ (view' & kill' & Hvu & Ed')]];
    [rewrite (li_failed _ _ _ _ _ HI) in Hf'; done|].
  pose proof (li_deadline _ _ _ _ _ HI) as Hdl.
  destruct (report_result_all (f_db st) (stamp (f_db st) r) view' kill' Hdl) as (F1 & F2 & F3 & F4 & F5 & F6 & F7 & F8).
  rewrite <- Ed' in F1, F2, F3, F4, F5, F6.
  assert (Htick : d_tick d' = d_tick (f_db st)).
  { rewrite Ed'. by destruct (DBTimeProofs.report_result_fields (f_db st) (stamp (f_db st) r) view' kill') as (Et & _). }
  exists st2. split; [cbn [steps]; by rewrite E1, E2|]. split; [done|]. split; [done|]. split; [done|].
  assert (Hh2 : ∀ b, f_hosts st2 !! b = if decide (b = a) then Some fh2 else f_hosts st !! b).
  { intros b. cbn [st2 f_hosts st1 set_host]. rewrite insert_insert. destruct (decide (b = a)) as [->|Hne];
      [by rewrite lookup_insert|by rewrite lookup_insert_ne]. }
  split. { intros b. rewrite Hh2. destruct (decide (b = a)) as [->|Hne]; [by rewrite Ha|done]. }
  split. { intros b. rewrite Hh2. destruct (decide (b = a)) as [->|Hne]; [rewrite Ha; cbn; by rewrite Hup|done]. }
  assert (Hvm : ∀ s, view_ver (f_db st) s ≤ view_ver d' s) by (intros s; by eapply view_ver_mono).
  split; [exact Hvm|].
  assert (Hnot : ∀ b s v0, v0 ≤ view_ver (f_db st) s →
            (∀ e rid, e ∈ hist_of (f_hist st) s → v0 ≤ e.1 → e.2 !! rid ≠ Some b) → s ∉ shards_on view' b).
  { intros b s v0 Hv0 Hsp. rewrite <- F4. change d' with (f_db st2). apply (spare_not_on st2 b s v0 HI2); [|exact Hsp].
    cbn [st2 f_db]. specialize (Hvm s). lia. }
  unfold free_at. cbn [st2 f_db]. rewrite F6. unfold sync_shard_info. split.
  - intros s [(fh0 & Hfh0 & _ & Hnr) Hsp]. assert (fh0 = fh) as -> by congruence.
    rewrite lookup_fmap. unfold host_update. cbn [rp_addr stamp r host_report rp_region rp_plog_incl rp_plog rp_shard_ids].
    assert (Hids : s ∉ (list_to_set ((λ kv : N * N * lrep, kv.1.1) <$> filter (λ kv, lr_running kv.2 = true) (sorted_reps (fh_reps fh))) : gset N)).
    { rewrite elem_of_list_to_set. intros Hin. apply elem_of_list_fmap in Hin as ([[s0 rid] lr] & Hs0 & Hin). cbn in Hs0. subst s0.
      apply elem_of_list_filter in Hin as [Hrun Hin]. apply sorted_reps_elem in Hin. cbn in Hrun, Hin. rewrite (Hnr rid lr Hin) in Hrun. done. }
    destruct (d_hosts (f_db st) !! a) as [h0|] eqn:Eh0; rewrite lookup_insert; cbn; (eexists; split; [done|]); cbn [h_addr h_tick h_shards].
    + destruct (li_synced _ _ _ _ _ HI a h0 Eh0) as [Haddr _]. rewrite Haddr. split; [done|]. split; [done|].
      intros Hin. apply elem_of_union in Hin as [Hin|Hin]; [done|]. by apply (Hnot a s (view_ver (f_db st) s)).
    + split; [done|]. split; [done|]. intros Hin. apply elem_of_union in Hin as [Hin|Hin]; [done|]. by apply (Hnot a s (view_ver (f_db st) s)).
  - intros b s t v0 Hne Hv0 Hsp (h & Hh & Haddr & Htk & Hns). rewrite lookup_fmap. unfold host_update. cbn [rp_addr stamp r host_report].
    destruct (d_hosts (f_db st) !! a) as [h0|]; rewrite lookup_insert_ne by done; rewrite Hh; cbn; (eexists; split; [done|]); cbn [h_addr h_tick h_shards];
      (split; [done|]); (split; [done|]); intros Hin; apply elem_of_union in Hin as [Hin|Hin]; try done; rewrite Haddr in Hin; by apply (Hnot b s v0).
Qed.

Lemma reports_free (plogs : N → bool) (l : list N) : ∀ st,
  LoopInv st → NoDup l → (∀ a, a ∈ l → ∃ fh, f_hosts st !! a = Some fh ∧ fh_up fh = true) →
  ∃ st', steps P st (l ≫= λ a, [ESnap a (plogs a); EDeliver a false]) = Some st' ∧ LoopInv st' ∧
    f_hist st' = f_hist st ∧ d_tick (f_db st') = d_tick (f_db st) ∧
    (∀ b, fh_reps <$> f_hosts st' !! b = fh_reps <$> f_hosts st !! b) ∧
    (∀ b, fh_up <$> f_hosts st' !! b = fh_up <$> f_hosts st !! b) ∧
    (∀ s, view_ver (f_db st) s ≤ view_ver (f_db st') s) ∧
    (∀ a s, a ∈ l → spare st a s → free_at (f_db st') a s (d_tick (f_db st))) ∧
    (∀ b s t v0, b ∉ l → v0 ≤ view_ver (f_db st) s →
       (∀ e rid, e ∈ hist_of (f_hist st) s → v0 ≤ e.1 → e.2 !! rid ≠ Some b) →
       free_at (f_db st) b s t → free_at (f_db st') b s t).
Proof.
  induction l as [|a l IH]; intros st HI Hnd Hl.
  { exists st. cbn. split; [done|]. split; [done|]. repeat (split; [done|]). split; [|done]. intros a s Hin. by apply elem_of_nil in Hin. }
  apply NoDup_cons in Hnd as [Hnotin Hnd]. destruct (Hl a) as (fh & Ha & Hup); [left|].
  destruct (report_free st a fh (plogs a) HI Ha Hup) as (st1 & E1 & HI1 & Hhi1 & Ht1 & Hr1 & Hu1 & Hvm1 & Hfree1 & Hkeep1).
  destruct (IH st1 HI1 Hnd) as (st2 & E2 & HI2 & Hhi2 & Ht2 & Hr2 & Hu2 & Hvm2 & Hfree2 & Hkeep2).
  { intros b Hin. destruct (Hl b) as (fhb & Hb & Hupb); [by right|].
    pose proof (Hr1 b) as Hx. pose proof (Hu1 b) as Hy. rewrite Hb in Hx, Hy. destruct (f_hosts st1 !! b) as [fhb1|]; [|done].
    exists fhb1. split; [done|]. cbn in Hy. congruence. }
  assert (Hspare1 : ∀ b s, spare st b s → spare st1 b s).
  { intros b s [(fhb & Hb & Hupb & Hnr) Hsp]. split.
    - pose proof (Hr1 b) as Hx. pose proof (Hu1 b) as Hy. rewrite Hb in Hx, Hy. destruct (f_hosts st1 !! b) as [fhb1|]; [|done].
      cbn in Hx, Hy. injection Hx as Hx. injection Hy as Hy. exists fhb1. split; [done|]. split; [congruence|]. by rewrite Hx.
    - rewrite Hhi1. intros e rid He Hv. apply Hsp; [done|]. specialize (Hvm1 s). lia. }
  exists st2. split. { rewrite bind_cons, steps_app, E1. exact E2. }
  split; [done|]. split; [congruence|]. split; [congruence|].
  split. { intros b. by rewrite Hr2, Hr1. }
  split. { intros b. by rewrite Hu2, Hu1. }
  split. { intros s. specialize (Hvm1 s). specialize (Hvm2 s). lia. }
  split.
  - intros b s Hin Hsp. apply elem_of_cons in Hin as [->|Hin].
    + apply (Hkeep2 a s _ (view_ver (f_db st) s)); [done|apply Hvm1|rewrite Hhi1; by destruct Hsp|]. by apply Hfree1.
    + rewrite <- Ht1. apply Hfree2; [done|]. by apply Hspare1.
  - intros b s t v0 Hnin Hv0 Hsp Hfr. apply not_elem_of_cons in Hnin as [Hne Hnin].
    apply (Hkeep2 b s t v0); [done|specialize (Hvm1 s); lia|by rewrite Hhi1|]. by apply (Hkeep1 b s t v0).
Qed.

(* the rest of the round leaves Drummer's records alone; time advances by nticks steps *)
Lemma li_ticks n : ∀ st, LoopInv st →
  ∃ st', steps P st (replicate n ETick) = Some st' ∧ LoopInv st' ∧
    f_db st' = set_tick (f_db st) (d_tick (f_db st) + N.of_nat n * p_step P) ∧ f_hist st' = f_hist st.
Proof.
  induction n as [|n IH]; intros st HI; cbn [replicate steps].
  - exists st. split; [done|]. split; [done|]. split; [|done]. destruct st as [d ? ? ?]. cbn. destruct d. unfold set_tick. cbn. f_equal. lia.
  - pose proof (step_tick_no_panic P st HI) as Hnp. destruct (fstep P st ETick) as [st1| |] eqn:E; [| |done].
    2:{ cbn [fstep] in E. by destruct (db_step P (f_db st) CTick). }
    pose proof (step_tick P st st1 HI E) as HI1.
    cbn [fstep] in E. unfold db_step in E. rewrite (li_failed _ _ _ _ _ HI) in E. unfold apply_tick in E.
    cbn [d_deadline set_tick] in E. rewrite (li_deadline _ _ _ _ _ HI) in E. cbn [N.ltb andb] in E. injection E as <-.
    destruct (IH _ HI1) as (st2 & E2 & HI2 & Hd2 & Hh2). exists st2. split; [done|]. split; [done|]. split; [|by rewrite Hh2].
    rewrite Hd2. unfold set_db, set_tick. cbn [f_db d_tick d_deadline d_failed d_shards d_kv d_view d_kill d_hosts d_info d_requests d_outgoing].
    f_equal. rewrite Nat2N.inj_succ, N.mul_succ_l. lia.
Qed.

(* the cause of errNotEnoughNodeHost: a shard of the view in the ADD branch, one of whose failed members has no
   live NodeHost that is not known to host the shard *)
Lemma error_cause C : allowed P C OError = true →
  ∃ c n, c ∈ entries C ∧ repair_action P C c = AAdd ∧ n ∈ sr_failed P C c ∧
         ∀ h, h ∈ host_list C → host_live P C h = true → r_shard n ∈ h_shards h.
Proof.
  intros Hal. apply sched_error_inv in Hal as (c & Hc & He). unfold err_entry in He.
  destruct (repair_action P C c) eqn:Ea; try done. apply existsb_exists in He as (n & Hn%elem_of_list_In & Hcand).
  apply bool_decide_eq_true in Hcand. exists c, n. split; [done|]. split; [done|]. split; [done|].
  intros h Hh Hlive. destruct (decide (r_shard n ∈ h_shards h)) as [|Hnin]; [done|]. exfalso.
  assert (Hany : h ∈ cand_any P C (r_shard n)).
  { unfold cand_any. apply elem_of_list_filter. split; [|done]. split; [done|]. unfold not_hosting. by apply bool_decide_eq_true. }
  unfold candidates in Hcand. destruct (cand_region P C (r_shard n) (region_of C (r_addr n))) as [|h0 l0]; [|done].
  rewrite Hcand in Hany. by apply elem_of_nil in Hany.
Qed.

(* a healthy round from ANY state of the invariant with all hosts up, less than ttl long: if every shard has a
   spare NodeHost, the scheduler cannot answer errNotEnoughNodeHost *)
Theorem round_no_error st st' plogs nticks o :
  LoopInv st → (∀ a fh, f_hosts st !! a = Some fh → fh_up fh = true) →
  (∀ s, is_Some (f_hist st !! s) → ∃ a, spare st a s) →
  N.of_nat nticks * p_step P < p_ttl P →
  healthy_round P plogs nticks o st = Some st' → o ≠ OError.
Proof.
  intros HI Hup Hspare Httl Hr ->. unfold healthy_round in Hr. set (t := d_tick (f_db st)).
  destruct (reports_free plogs (host_addrs st) st HI (host_addrs_nodup st)) as (st1 & E1 & HI1 & Hhi1 & Ht1 & _ & _ & _ & Hfree1 & _).
  { intros a Hin. apply host_addrs_elem in Hin as [fh Ha]. exists fh. split; [done|]. by apply (Hup a). }
  rewrite E1 in Hr.
  destruct (steps_keep (λ x, f_db x = f_db st1) ((λ a, EExec a true) <$> host_addrs st1)) with (st := st1) as (st2 & E2 & HI2 & Hd2); [| |done|done|].
  { intros x ev x' Hev _ Hx Hstep. apply elem_of_list_fmap in Hev as (a & -> & _). cbn [fstep] in Hstep.
    destruct (f_hosts x !! a) as [fh|]; [|done]. destruct (fh_up fh); [|done]. destruct (exec_all _ _ _ _); [|done]. by injection Hstep as <-. }
  { apply forallb_forall. intros ev Hev. apply elem_of_list_In, elem_of_list_fmap in Hev as (a & -> & _). done. }
  rewrite E2 in Hr.
  destruct (steps_keep (λ x, f_db x = f_db st1) (catch_up_events st2)) with (st := st2) as (st3 & E3 & HI3 & Hd3); [| |done|done|].
  { intros x ev x' Hev _ Hx Hstep. apply catch_up_members in Hev as (a & s & r & v & -> & _). cbn [fstep] in Hstep.
    destruct (f_hosts x !! a) as [fh|]; [|done]. destruct (fh_reps fh !! (s, r)); [|done]. destruct (_ && _ && _ && _); [|done]. by injection Hstep as <-. }
  { apply forallb_forall. intros ev Hev. apply elem_of_list_In, catch_up_members in Hev as (a & s & r & v & -> & _). done. }
  rewrite E3 in Hr.
  destruct (li_ticks nticks st3 HI3) as (st4 & E4 & HI4 & Hd4 & _). rewrite E4 in Hr.
  destruct (fstep P st4 (ESchedule OError)) as [st5| |] eqn:E5; try done. clear Hr.
  cbn [fstep] in E5. destruct (allowed P (ctx_of_db (f_db st4)) OError) eqn:Hal; [|done].
  destruct (error_cause _ Hal) as (c & n & Hc & _ & Hn & Hnone).
  (* the shard, its spare host *)
  destruct (view_entry_facts (f_db st4) (f_hist st4) c (li_view _ _ _ _ _ HI4) Hc) as (_ & _ & Hvc & _ & Hids).
  assert (Hsh : r_shard n = s_id c).
  { apply elem_sr_failed in Hn as [Hn _]. apply mvals_elem in Hn as [rid Hn]. by destruct (Hids rid n Hn). }
  assert (Hvc1 : d_view (f_db st1) !! s_id c = Some c) by (rewrite Hd4, Hd3 in Hvc; exact Hvc).
  destruct (li_view _ _ _ _ _ HI1 _ _ Hvc1) as (_ & HH & _). unfold Hf, hist_of in HH.
  destruct (f_hist st1 !! s_id c) as [h|] eqn:Eh1; [|done]. rewrite Hhi1 in Eh1.
  destruct (Hspare (s_id c)) as [a Hsp]; [by eexists|].
  destruct (Hfree1 a (s_id c)) as (hs & Hhs & Haddr & Htk & Hns); [|done|].
  { apply host_addrs_elem. destruct Hsp as [(fh & Ha & _) _]. by eexists. }
  apply Hns. rewrite <- Hsh. apply Hnone.
  - unfold host_list, ctx_of_db. cbn [c_hosts]. apply mvals_elem. exists a. rewrite Hd4, Hd3. exact Hhs.
  - apply host_live_iff. unfold ctx_of_db, now. cbn [c_tick]. rewrite Hd4, Hd3. cbn [set_tick d_tick]. rewrite Htk, Ht1. fold t. lia.
Qed.
End NoError.

Lemma spareb_sound st a s : spareb st a s = true → spare st a s.
Proof.
  unfold spareb. intros H. apply andb_true_iff in H as [H1 H2]. split.
  - destruct (f_hosts st !! a) as [fh|]; [|done]. apply andb_true_iff in H1 as [Hup Hnr]. exists fh. split; [done|]. split; [done|].
    intros rid lr Hk. pose proof (forallb_map_to_list _ _ Hnr (s, rid) lr Hk) as Hx. cbn [fst snd] in Hx.
    rewrite N.eqb_refl in Hx. cbn in Hx. by apply negb_true_iff in Hx.
  - intros e rid He Hv Hm. rewrite forallb_forall in H2. apply elem_of_list_In in He. specialize (H2 e He).
    apply orb_true_iff in H2 as [H2|H2]; [apply N.ltb_lt in H2; lia|].
    pose proof (forallb_map_to_list _ _ H2 rid a Hm) as Hx. cbn [snd] in Hx. rewrite N.eqb_refl in Hx. done.
Qed.
