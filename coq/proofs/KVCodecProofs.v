(** Proofs about the KV codec model (C20). *)
From Drummer.Model Require Import Base KVCodec.
From Coq Require Import ZifyN ZifyNat ZifyBool.

Lemma marshal_to_last : forall o, exists p, marshal_to o = p ++ [127].
Proof. intros o. unfold marshal_to. exists (field_enc 0 (key o) ++ field_enc 1 (val o)). now rewrite app_assoc. Qed.

(** * Generic list / nlen facts *)

Lemma nlen_nil {A} : nlen (@nil A) = 0.
Proof. reflexivity. Qed.

Lemma nlen_cons {A} (a : A) (l : list A) : nlen (a :: l) = 1 + nlen l.
Proof. unfold nlen. cbn [length]. lia. Qed.

Lemma nlen_app {A} (l1 l2 : list A) : nlen (l1 ++ l2) = nlen l1 + nlen l2.
Proof. unfold nlen. rewrite app_length. lia. Qed.

Lemma nlen_0_nil {A} (l : list A) : nlen l = 0 -> l = [].
Proof. destruct l as [|a l]; [reflexivity|]. rewrite nlen_cons. lia. Qed.

Lemma skipn_skipn_nat {A} (n m : nat) : forall (l : list A), skipn n (skipn m l) = skipn (m + n) l.
Proof.
  induction m as [|m IH]; intros l.
  - reflexivity.
  - destruct l as [|a l].
    + cbn [skipn Nat.add]. now rewrite skipn_nil.
    + cbn [skipn Nat.add]. apply IH.
Qed.

Lemma skipn_cons_nat {A} (n : nat) : forall (l : list A) b r,
  skipn n l = b :: r -> nth_error l n = Some b /\ skipn (S n) l = r /\ (n < length l)%nat.
Proof.
  induction n as [|n IH]; intros l b r H.
  - destruct l as [|a l]; cbn [skipn] in H; [discriminate|].
    inversion H; subst. cbn [nth_error skipn length]. repeat split. lia.
  - destruct l as [|a l]; cbn [skipn] in H; [discriminate|].
    destruct (IH l b r H) as (H1 & H2 & H3).
    cbn [nth_error length]. rewrite skipn_cons. repeat split; [exact H1|exact H2|lia].
Qed.

Lemma skipn_nil_nat {A} (n : nat) : forall (l : list A), skipn n l = [] -> (length l <= n)%nat.
Proof.
  intros l H. pose proof (skipn_length n l) as HL. rewrite H in HL. cbn [length] in HL. lia.
Qed.

(** N-indexed versions *)
Lemma skipn_cons_N {A} (data : list A) (i : N) b r :
  skipn (N.to_nat i) data = b :: r ->
  get data i = Some b /\ skipn (N.to_nat (i + 1)) data = r /\ i < nlen data.
Proof.
  intros H. destruct (skipn_cons_nat _ _ _ _ H) as (H1 & H2 & H3).
  unfold get, nlen. replace (N.to_nat (i + 1)) with (S (N.to_nat i)) by lia.
  repeat split; [exact H1|exact H2|lia].
Qed.

Lemma skipn_nil_N {A} (data : list A) (i : N) :
  skipn (N.to_nat i) data = [] -> nlen data <= i.
Proof. intros H. apply skipn_nil_nat in H. unfold nlen. lia. Qed.

Lemma skipn_all_N {A} (data : list A) (i : N) :
  nlen data <= i -> skipn (N.to_nat i) data = [].
Proof. intros H. apply skipn_all2. unfold nlen in H. lia. Qed.

Lemma nlen_skipn {A} (data : list A) (i : N) :
  nlen (skipn (N.to_nat i) data) = nlen data - i.
Proof. unfold nlen. rewrite skipn_length. lia. Qed.

(** * C20.1 / C20.2 : MarshalLen agrees with MarshalTo *)

Lemma varint_enc_len f : forall x, nlen (varint_enc f x) = 1 + varint_extra f x.
Proof.
  induction f as [|f IH]; intros x; cbn [varint_enc varint_extra].
  - reflexivity.
  - destruct (128 <=? x).
    + rewrite nlen_cons, IH. reflexivity.
    + reflexivity.
Qed.

Lemma field_enc_len sm h s a : field_len sm s = Some a -> nlen (field_enc h s) = a.
Proof.
  unfold field_len, field_enc. cbv zeta. destruct (nlen s =? 0) eqn:E0.
  - intros [= <-]. reflexivity.
  - destruct (sm <? nlen s); [discriminate|]. intros [= <-].
    rewrite nlen_cons, nlen_app, varint_enc_len. lia.
Qed.

Lemma marshal_len_ok : forall sm o l, marshal_len sm o = Some l -> nlen (marshal_to o) = l.
Proof.
  intros sm o l. unfold marshal_len, marshal_to.
  destruct (field_len sm (key o)) as [a|] eqn:Ha; [|discriminate].
  destruct (field_len sm (val o)) as [b|] eqn:Hb; [|discriminate]. cbv zeta.
  destruct (sm <? 1 + a + b); [discriminate|]. intros H. assert (Hl : 1 + a + b = l) by congruence. clear H. subst l.
  rewrite !nlen_app, (field_enc_len _ _ _ _ Ha), (field_enc_len _ _ _ _ Hb).
  change (nlen [127]) with 1. lia.
Qed.

Lemma marshal_binary_ok : forall sm o l,
  marshal_len sm o = Some l -> marshal_binary sm o = MOk (marshal_to o).
Proof.
  intros sm o l H. unfold marshal_binary. rewrite H. cbv zeta.
  rewrite (marshal_len_ok _ _ _ H).
  replace (l <? l) with false by lia.
  replace (l - l) with 0 by lia. change (N.to_nat 0) with O. cbn [repeat].
  now rewrite app_nil_r.
Qed.

Lemma marshal_never_crashes : forall sm o, marshal_binary sm o <> MCrash.
Proof.
  intros sm o. destruct (marshal_len sm o) as [l|] eqn:H.
  - rewrite (marshal_binary_ok _ _ _ H). discriminate.
  - unfold marshal_binary. rewrite H. discriminate.
Qed.

(** * C20.3/4/5 : the index-based transcription never crashes, stays in range, and
      equals the list-consuming version.  One combined invariant per layer. *)

Lemma varint_loop_ix_eq fuel data x s i :
  varint_loop_ix fuel data x s i =
  if nlen data <=? i then VEof i else
  match fuel with
  | O => VCrash
  | S f =>
    match get data i with
    | None => VCrash
    | Some b => if b <? 128 then VVal (N.lor x (shl64 b s)) (i + 1)
                else varint_loop_ix f data (N.lor x (shl64 (N.land b 127) s)) (s + 7) (i + 1)
    end
  end.
Proof. destruct fuel; reflexivity. Qed.

Lemma at_eof_not_crash sm i : at_eof sm i <> Crash.
Proof. unfold at_eof. destruct (sm <=? i); discriminate. Qed.

Lemma at_eof_not_ok sm i j : at_eof sm i <> OkN j.
Proof. unfold at_eof. destruct (sm <=? i); discriminate. Qed.

(* outcomes that a [goto eof] / [return 0, ColferMax] can produce *)
Definition stop_ok (out : outcome) : Prop := out <> Crash /\ forall j, out <> OkN j.

Lemma at_eof_stop_ok sm i : stop_ok (at_eof sm i).
Proof. split; [apply at_eof_not_crash|intros j; apply at_eof_not_ok]. Qed.

Lemma varint_loop_rel data : forall fuel x s i,
  nlen data <= i + N.of_nat fuel ->
  match varint_loop_ix fuel data x s i with
  | VEof i' => varint_loop_ls (skipn (N.to_nat i) data) x s i = LEof i'
  | VCrash => False
  | VVal x' i' => varint_loop_ls (skipn (N.to_nat i) data) x s i = LVal x' (skipn (N.to_nat i') data) i'
                  /\ i' <= nlen data
  end.
Proof.
  induction fuel as [|f IH]; intros x s i Hf; rewrite varint_loop_ix_eq;
    destruct (nlen data <=? i) eqn:E.
  - rewrite skipn_all_N by lia. reflexivity.
  - lia.
  - rewrite skipn_all_N by lia. reflexivity.
  - destruct (skipn (N.to_nat i) data) as [|b r] eqn:Sk.
    + apply skipn_nil_N in Sk. lia.
    + destruct (skipn_cons_N _ _ _ _ Sk) as (G & Sk' & Hi).
      rewrite G. cbn [varint_loop_ls]. destruct (b <? 128).
      * rewrite Sk'. split; [reflexivity|lia].
      * rewrite <- Sk'. apply IH. lia.
Qed.

Lemma read_len_rel data i :
  match read_len_ix data i with
  | VEof i' => read_len_ls (skipn (N.to_nat i) data) i = LEof i'
  | VCrash => False
  | VVal x' i' => read_len_ls (skipn (N.to_nat i) data) i = LVal x' (skipn (N.to_nat i') data) i'
                  /\ i' <= nlen data
  end.
Proof.
  unfold read_len_ix. destruct (nlen data <=? i) eqn:E.
  - rewrite skipn_all_N by lia. reflexivity.
  - destruct (skipn (N.to_nat i) data) as [|b r] eqn:Sk.
    + apply skipn_nil_N in Sk. lia.
    + destruct (skipn_cons_N _ _ _ _ Sk) as (G & Sk' & Hi).
      rewrite G. cbn [read_len_ls]. destruct (128 <=? b).
      * rewrite <- Sk'. apply varint_loop_rel. unfold nlen. lia.
      * rewrite Sk'. split; [reflexivity|lia].
Qed.

Lemma read_field_rel sm data i :
  match read_field_ix sm data i with
  | FStop out => read_field_ls sm (skipn (N.to_nat i) data) i = LStop out /\ stop_ok out
  | FNext s h i' => read_field_ls sm (skipn (N.to_nat i) data) i = LNext s h (skipn (N.to_nat i') data) i'
                    /\ i' <= nlen data
  end.
Proof.
  unfold read_field_ix, read_field_ls. pose proof (read_len_rel data i) as HB.
  destruct (read_len_ix data i) as [i'| |x i1].
  - rewrite HB. split; [reflexivity|apply at_eof_stop_ok].
  - contradiction.
  - destruct HB as [HB Hi1]. rewrite HB. destruct (sm <? x).
    + split; [reflexivity|]. split; [discriminate|intros j; discriminate].
    + cbv zeta. rewrite nlen_skipn.
      destruct (nlen data <=? i1 + x) eqn:E.
      * replace (nlen data - i1 <=? x) with true by lia.
        split; [reflexivity|apply at_eof_stop_ok].
      * replace (nlen data - i1 <=? x) with false by lia.
        rewrite skipn_skipn_nat. replace (N.to_nat i1 + N.to_nat x)%nat with (N.to_nat (i1 + x)) by lia.
        destruct (skipn (N.to_nat (i1 + x)) data) as [|h r] eqn:Sk.
        -- apply skipn_nil_N in Sk. lia.
        -- destruct (skipn_cons_N _ _ _ _ Sk) as (G & Sk' & Hi).
           rewrite G. unfold slice.
           replace ((i1 <=? i1 + x) && (i1 + x <=? nlen data)) with true by lia.
           replace (i1 + x - i1) with x by lia. rewrite Sk'.
           split; [reflexivity|lia].
Qed.

Lemma unmarshal_rel sm o data :
  unmarshal_ix sm o data = unmarshal_ls sm o data /\
  snd (unmarshal_ix sm o data) <> Crash /\
  (forall i, snd (unmarshal_ix sm o data) = OkN i -> i <= nlen data).
Proof.
  unfold unmarshal_ix, unmarshal_ls.
  destruct data as [|h0 rest0].
  - cbn. repeat split; [discriminate|intros i H; discriminate].
  - set (data := h0 :: rest0).
    replace (nlen data =? 0) with false by (unfold data; rewrite nlen_cons; lia).
    change (get data 0) with (Some h0). cbv beta iota zeta.
    assert (Hfin : forall (o2 : kv) (h2 i2 : N) (r : list N), i2 <= nlen data ->
      let res := (if negb (h2 =? 127) then (o2, Hdr (i2 - 1))
                  else if i2 <? sm then (o2, OkN i2) else (o2, at_eof sm i2)) in
      snd res <> Crash /\ (forall i, snd res = OkN i -> i <= nlen data)).
    { intros o2 h2 i2 r Hi2. cbv zeta. destruct (negb (h2 =? 127)); [|destruct (i2 <? sm)]; cbn [snd].
      - split; [discriminate|intros i H; discriminate].
      - split; [discriminate|]. intros i H; inversion H; subst; exact Hi2.
      - split; [apply at_eof_not_crash|]. intros i H. unfold at_eof in H. destruct (sm <=? i2); discriminate. }
    assert (Hstep2 : forall (o1 : kv) (h1 i1 : N), i1 <= nlen data ->
      let rix := match (if h1 =? 1 then
                     match read_field_ix sm data i1 with
                     | FStop out => inl (o1, out)
                     | FNext s h i => inr (mkKV (key o1) s, h, i)
                     end
                   else inr (o1, h1, i1)) with
                 | inl r => r
                 | inr (o2, h2, i2) =>
                   if negb (h2 =? 127) then (o2, Hdr (i2 - 1))
                   else if i2 <? sm then (o2, OkN i2)
                   else (o2, at_eof sm i2)
                 end in
      let rls := match (if h1 =? 1 then
                     match read_field_ls sm (skipn (N.to_nat i1) data) i1 with
                     | LStop out => inl (o1, out)
                     | LNext s h rest i => inr (mkKV (key o1) s, h, rest, i)
                     end
                   else inr (o1, h1, skipn (N.to_nat i1) data, i1)) with
                 | inl r => r
                 | inr (o2, h2, _, i2) =>
                   if negb (h2 =? 127) then (o2, Hdr (i2 - 1))
                   else if i2 <? sm then (o2, OkN i2)
                   else (o2, at_eof sm i2)
                 end in
      rix = rls /\ snd rix <> Crash /\ (forall i, snd rix = OkN i -> i <= nlen data)).
    { intros o1 h1 i1 Hi1. cbv zeta. destruct (h1 =? 1).
      - pose proof (read_field_rel sm data i1) as HC.
        destruct (read_field_ix sm data i1) as [out|s h i'].
        + destruct HC as [HC [Hout1 Hout2]]. rewrite HC. cbn [snd].
          split; [reflexivity|]. split; [exact Hout1|].
          intros i H. exfalso. exact (Hout2 i H).
        + destruct HC as [HC Hi']. rewrite HC. split; [reflexivity|].
          exact (Hfin _ h i' [] Hi').
      - split; [reflexivity|]. exact (Hfin _ h1 i1 [] Hi1). }
    destruct (h0 =? 0).
    + pose proof (read_field_rel sm data 1) as HC.
      change (skipn (N.to_nat 1) data) with rest0 in HC.
      destruct (read_field_ix sm data 1) as [out|s h i'].
      * destruct HC as [HC [Hout1 Hout2]]. rewrite HC. cbn [snd].
        split; [reflexivity|]. split; [exact Hout1|].
        intros i H. exfalso. exact (Hout2 i H).
      * destruct HC as [HC Hi']. rewrite HC.
        exact (Hstep2 (mkKV s (val o)) h i' Hi').
    + assert (H1 : 1 <= nlen data) by (unfold data; rewrite nlen_cons; lia).
      pose proof (Hstep2 o h0 1 H1) as HS. cbv zeta in HS.
      change (skipn (N.to_nat 1) data) with rest0 in HS. exact HS.
Qed.

Lemma unmarshal_ix_ls : forall sm o data, unmarshal_ix sm o data = unmarshal_ls sm o data.
Proof. intros sm o data. exact (proj1 (unmarshal_rel sm o data)). Qed.

Lemma unmarshal_ix_no_crash : forall sm o data, snd (unmarshal_ix sm o data) <> Crash.
Proof. intros sm o data. exact (proj1 (proj2 (unmarshal_rel sm o data))). Qed.

Lemma unmarshal_ix_consumed_le : forall sm o data o' i,
  unmarshal_ix sm o data = (o', OkN i) -> i <= nlen data.
Proof.
  intros sm o data o' i H. apply (proj2 (proj2 (unmarshal_rel sm o data))).
  rewrite H. reflexivity.
Qed.

Lemma unmarshal_binary_ix_no_crash : forall sm o data, snd (unmarshal_binary_ix sm o data) <> Crash.
Proof.
  intros sm o data. unfold unmarshal_binary_ix.
  pose proof (unmarshal_ix_no_crash sm o data) as H.
  destruct (unmarshal_ix sm o data) as [o' out]. cbn [snd] in H.
  destruct out as [i| | |i|i|]; try exact H.
  destruct (i <? nlen data); cbn [snd]; discriminate.
Qed.

(** * Varint round trip: bit-level facts *)

Lemma size_nat_bound_pos p : N.pos p < 2 ^ N.of_nat (Pos.size_nat p).
Proof.
  induction p as [p IH|p IH|]; cbn [Pos.size_nat]; rewrite ?Nat2N.inj_succ, ?N.pow_succ_r'.
  - lia.
  - lia.
  - reflexivity.
Qed.

Lemma size_nat_bound x : x < 2 ^ N.of_nat (N.size_nat x).
Proof.
  destruct x as [|p].
  - reflexivity.
  - apply size_nat_bound_pos.
Qed.

Lemma testbit_true_ge a n : N.testbit a n = true -> 2 ^ n <= a.
Proof.
  intros H. apply N.testbit_true in H.
  destruct (N.lt_ge_cases a (2 ^ n)) as [L|L]; [|exact L].
  rewrite (N.div_small _ _ L) in H. change (0 mod 2) with 0 in H. discriminate H.
Qed.

Lemma enc_byte_ge x : 128 <= (N.lor x 128) mod 256.
Proof.
  change 128 with (2 ^ 7) at 1. apply testbit_true_ge.
  change 256 with (2 ^ 8). rewrite N.mod_pow2_bits_low by reflexivity.
  rewrite N.lor_spec. change (N.testbit 128 7) with true. apply orb_true_r.
Qed.

Lemma enc_byte_land x : N.land ((N.lor x 128) mod 256) 127 = x mod 128.
Proof.
  change 256 with (2 ^ 8). change (x mod 128) with (x mod 2 ^ 7). change 127 with (N.ones 7).
  rewrite <- !N.land_ones, <- N.land_assoc.
  change (N.land (N.ones 8) (N.ones 7)) with (N.ones 7).
  rewrite N.land_lor_distr_l. change (N.land 128 (N.ones 7)) with 0.
  apply N.lor_0_r.
Qed.

Lemma split7 x : N.lor (x mod 128) (N.shiftl (N.shiftr x 7) 7) = x.
Proof.
  change (x mod 128) with (x mod 2 ^ 7).
  rewrite <- N.land_ones, <- N.ldiff_ones_r, N.lor_comm. apply N.lor_ldiff_and.
Qed.

Lemma shl64_small b s : b * 2 ^ s < w64 -> shl64 b s = N.shiftl b s.
Proof. intros H. unfold shl64. rewrite N.shiftl_mul_pow2. apply N.mod_small. exact H. Qed.

Lemma shr7_fuel f x : x < 2 ^ N.of_nat (S f) -> N.shiftr x 7 < 2 ^ N.of_nat f.
Proof.
  intros H. rewrite Nat2N.inj_succ, N.pow_succ_r' in H.
  rewrite N.shiftr_div_pow2. change (2 ^ 7) with 128.
  apply N.div_lt_upper_bound; lia.
Qed.

Lemma shr7_nowrap x s : x * 2 ^ s < w64 -> N.shiftr x 7 * 2 ^ (s + 7) < w64.
Proof.
  intros H. rewrite N.shiftr_div_pow2, N.pow_add_r. change (2 ^ 7) with 128.
  assert (Hle : x / 128 * (2 ^ s * 128) <= x * 2 ^ s).
  { rewrite (N.mul_comm (2 ^ s) 128), N.mul_assoc. apply N.mul_le_mono_r.
    rewrite N.mul_comm. apply N.mul_div_le. lia. }
  lia.
Qed.

Lemma low7_nowrap x s : x * 2 ^ s < w64 -> x mod 128 * 2 ^ s < w64.
Proof.
  intros H. assert (Hle : x mod 128 * 2 ^ s <= x * 2 ^ s).
  { apply N.mul_le_mono_r. apply N.mod_le. lia. }
  lia.
Qed.

(** unfolding lemmas for the list decoder *)
Lemma loop_last b rest acc s i : b < 128 ->
  varint_loop_ls (b :: rest) acc s i = LVal (N.lor acc (shl64 b s)) rest (i + 1).
Proof. intros H. cbn [varint_loop_ls]. replace (b <? 128) with true by lia. reflexivity. Qed.

Lemma loop_cont b rest acc s i : 128 <= b ->
  varint_loop_ls (b :: rest) acc s i =
  varint_loop_ls rest (N.lor acc (shl64 (N.land b 127) s)) (s + 7) (i + 1).
Proof. intros H. cbn [varint_loop_ls]. replace (b <? 128) with false by lia. reflexivity. Qed.

Lemma read_len_last b rest i : b < 128 -> read_len_ls (b :: rest) i = LVal b rest (i + 1).
Proof. intros H. cbn [read_len_ls]. replace (128 <=? b) with false by lia. reflexivity. Qed.

Lemma read_len_cont b rest i : 128 <= b ->
  read_len_ls (b :: rest) i = varint_loop_ls rest (N.land b 127) 7 (i + 1).
Proof. intros H. cbn [read_len_ls]. replace (128 <=? b) with true by lia. reflexivity. Qed.

Lemma varint_loop_enc rest : forall f x acc s i,
  x < 2 ^ N.of_nat f -> x * 2 ^ s < w64 ->
  varint_loop_ls (varint_enc f x ++ rest) acc s i =
  LVal (N.lor acc (N.shiftl x s)) rest (i + nlen (varint_enc f x)).
Proof.
  induction f as [|f IH]; intros x acc s i Hf Hw.
  - assert (Hx : x = 0) by (change (2 ^ N.of_nat 0) with 1 in Hf; lia). subst x.
    cbn [varint_enc app]. change (0 mod 256) with 0.
    rewrite loop_last by lia. unfold shl64. rewrite N.shiftl_0_l.
    change (0 mod w64) with 0. reflexivity.
  - cbn [varint_enc]. destruct (128 <=? x) eqn:E.
    + cbn [app]. rewrite loop_cont by apply enc_byte_ge.
      rewrite enc_byte_land, shl64_small by (apply low7_nowrap; exact Hw).
      rewrite IH by (first [apply shr7_fuel; exact Hf | apply shr7_nowrap; exact Hw]).
      f_equal.
      * rewrite <- N.lor_assoc. f_equal. replace (s + 7) with (7 + s) by lia.
        rewrite <- N.shiftl_shiftl, <- N.shiftl_lor, split7. reflexivity.
      * rewrite nlen_cons. lia.
    + cbn [app]. rewrite loop_last by lia. rewrite shl64_small by exact Hw. reflexivity.
Qed.

Lemma read_len_enc rest f x i :
  x < 2 ^ N.of_nat f -> x < w64 ->
  read_len_ls (varint_enc f x ++ rest) i = LVal x rest (i + nlen (varint_enc f x)).
Proof.
  intros Hf Hw. destruct f as [|f].
  - assert (Hx : x = 0) by (change (2 ^ N.of_nat 0) with 1 in Hf; lia). subst x.
    cbn [varint_enc app]. change (0 mod 256) with 0.
    rewrite read_len_last by lia. reflexivity.
  - cbn [varint_enc]. destruct (128 <=? x) eqn:E.
    + cbn [app]. rewrite read_len_cont by apply enc_byte_ge.
      rewrite enc_byte_land.
      assert (Hw7 : N.shiftr x 7 * 2 ^ 7 < w64).
      { apply (shr7_nowrap x 0). change (2 ^ 0) with 1. lia. }
      rewrite varint_loop_enc by (first [apply shr7_fuel; exact Hf | exact Hw7]).
      rewrite split7, nlen_cons. f_equal. lia.
    + cbn [app]. rewrite read_len_last by lia. reflexivity.
Qed.

Lemma skipn_app_exact {A} (s r : list A) : skipn (length s) (s ++ r) = r.
Proof. induction s as [|a s IH]; [reflexivity|]. cbn [length app skipn]. exact IH. Qed.

Lemma firstn_app_exact {A} (s r : list A) : firstn (length s) (s ++ r) = s.
Proof. induction s as [|a s IH]; [reflexivity|]. cbn [length app firstn]. now rewrite IH. Qed.

Lemma skipn_app_exact_N {A} (s r : list A) : skipn (N.to_nat (nlen s)) (s ++ r) = r.
Proof. unfold nlen. rewrite Nat2N.id. apply skipn_app_exact. Qed.

Lemma firstn_app_exact_N {A} (s r : list A) : firstn (N.to_nat (nlen s)) (s ++ r) = s.
Proof. unfold nlen. rewrite Nat2N.id. apply firstn_app_exact. Qed.

Definition venc (s : list N) : list N := varint_enc (N.size_nat (nlen s)) (nlen s).

Lemma read_field_enc sm s h rest2 i :
  nlen s <= sm -> nlen s < w64 ->
  read_field_ls sm (venc s ++ s ++ h :: rest2) i = LNext s h rest2 (i + nlen (venc s) + nlen s + 1).
Proof.
  intros Hsm Hw. unfold read_field_ls, venc.
  rewrite read_len_enc by (first [apply size_nat_bound | exact Hw]).
  replace (sm <? nlen s) with false by lia.
  replace (nlen (s ++ h :: rest2) <=? nlen s) with false by (rewrite nlen_app, nlen_cons; lia).
  rewrite skipn_app_exact_N, firstn_app_exact_N. reflexivity.
Qed.

(** * Round trip on the list-consuming decoder *)

Definition finish (sm : N) (o2 : kv) (h2 i2 : N) : kv * outcome :=
  if negb (h2 =? 127) then (o2, Hdr (i2 - 1))
  else if i2 <? sm then (o2, OkN i2) else (o2, at_eof sm i2).

Definition step2_ls (sm : N) (o1 : kv) (h1 : N) (rest1 : list N) (i1 : N) : kv * outcome :=
  if h1 =? 1 then
    match read_field_ls sm rest1 i1 with
    | LStop out => (o1, out)
    | LNext s h rest i => finish sm (mkKV (key o1) s) h i
    end
  else finish sm o1 h1 i1.

Lemma unmarshal_ls_cons sm o h0 rest0 :
  unmarshal_ls sm o (h0 :: rest0) =
  if h0 =? 0 then
    match read_field_ls sm rest0 1 with
    | LStop out => (o, out)
    | LNext s h rest i => step2_ls sm (mkKV s (val o)) h rest i
    end
  else step2_ls sm o h0 rest0 1.
Proof.
  unfold unmarshal_ls, step2_ls, finish.
  destruct (h0 =? 0).
  - destruct (read_field_ls sm rest0 1) as [out|s h rest i]; [reflexivity|].
    cbv beta iota zeta. destruct (h =? 1); [|reflexivity].
    destruct (read_field_ls sm rest i); reflexivity.
  - cbv beta iota zeta. destruct (h0 =? 1); [|reflexivity].
    destruct (read_field_ls sm rest0 1); reflexivity.
Qed.

Lemma finish_ok sm o2 i2 : i2 < sm -> finish sm o2 127 i2 = (o2, OkN i2).
Proof.
  intros H. unfold finish. change (negb (127 =? 127)) with false. cbv iota.
  replace (i2 <? sm) with true by lia. reflexivity.
Qed.

Lemma step2_none sm o1 suffix i1 : i1 < sm -> step2_ls sm o1 127 suffix i1 = (o1, OkN i1).
Proof.
  intros H. unfold step2_ls. change (127 =? 1) with false. cbv iota.
  apply finish_ok. exact H.
Qed.

Lemma step2_some sm o1 v suffix i1 :
  nlen v <= sm -> nlen v < w64 -> i1 + nlen (venc v) + nlen v + 1 < sm ->
  step2_ls sm o1 1 (venc v ++ v ++ 127 :: suffix) i1 =
  (mkKV (key o1) v, OkN (i1 + nlen (venc v) + nlen v + 1)).
Proof.
  intros H1 H2 H3. unfold step2_ls. change (1 =? 1) with true. cbv iota.
  rewrite read_field_enc by assumption. apply finish_ok. exact H3.
Qed.

Ltac norm_nlen H :=
  repeat (rewrite nlen_app in H || rewrite nlen_cons in H || rewrite nlen_nil in H).

Ltac norm_app := repeat (progress cbn [app] || rewrite <- app_assoc).

Lemma pair_ok_eq (a : kv) i l : i = l -> (a, OkN i) = (a, OkN l).
Proof. intros ->. reflexivity. Qed.

Lemma roundtrip_ls sm k v k0 v0 l suffix :
  sm < 2 ^ 63 -> marshal_len sm (mkKV k v) = Some l -> l < sm ->
  unmarshal_ls sm (mkKV k0 v0) (marshal_to (mkKV k v) ++ suffix) =
  (mkKV (if nlen k =? 0 then k0 else k) (if nlen v =? 0 then v0 else v), OkN l).
Proof.
  intros Hsm HL Hlt. pose proof (marshal_len_ok _ _ _ HL) as Hlen.
  assert (H63 : 2 ^ 63 < w64) by reflexivity.
  unfold marshal_len, field_len in HL. cbv zeta in HL. cbn [key val] in HL.
  unfold marshal_to, field_enc in *. cbn [key val] in Hlen |- *.
  fold (venc k) in Hlen |- *. fold (venc v) in Hlen |- *.
  destruct (nlen k =? 0) eqn:Ek; destruct (nlen v =? 0) eqn:Ev; norm_nlen Hlen; norm_app.
  - rewrite unmarshal_ls_cons. change (127 =? 0) with false. cbv iota.
    rewrite step2_none by lia. apply pair_ok_eq. lia.
  - destruct (sm <? nlen v) eqn:Ev2; [discriminate HL|].
    rewrite unmarshal_ls_cons. change (1 =? 0) with false. cbv iota.
    rewrite step2_some by lia. cbn [key val]. apply pair_ok_eq. lia.
  - destruct (sm <? nlen k) eqn:Ek2; [discriminate HL|].
    rewrite unmarshal_ls_cons. change (0 =? 0) with true. cbv iota.
    rewrite read_field_enc by lia. cbn [key val].
    rewrite step2_none by lia. apply pair_ok_eq. lia.
  - destruct (sm <? nlen k) eqn:Ek2; [discriminate HL|].
    destruct (sm <? nlen v) eqn:Ev2; [discriminate HL|].
    rewrite unmarshal_ls_cons. change (0 =? 0) with true. cbv iota.
    rewrite read_field_enc by lia. cbn [key val].
    rewrite step2_some by lia. cbn [key val]. apply pair_ok_eq. lia.
Qed.

Definition merged (o o0 : kv) : kv :=
  mkKV (if nlen (key o) =? 0 then key o0 else key o) (if nlen (val o) =? 0 then val o0 else val o).

Lemma roundtrip_ix_suffix : forall sm o o0 l suffix,
  sm < 2 ^ 63 -> marshal_len sm o = Some l -> l < sm ->
  unmarshal_ix sm o0 (marshal_to o ++ suffix) = (merged o o0, OkN l).
Proof.
  intros sm [k v] [k0 v0] l suffix Hsm HL Hlt. rewrite unmarshal_ix_ls.
  unfold merged. cbn [key val]. apply roundtrip_ls; assumption.
Qed.

Lemma roundtrip_ix : forall sm o o0 l,
  sm < 2 ^ 63 -> marshal_len sm o = Some l -> l < sm ->
  unmarshal_ix sm o0 (marshal_to o) =
  (mkKV (if nlen (key o) =? 0 then key o0 else key o) (if nlen (val o) =? 0 then val o0 else val o), OkN l).
Proof.
  intros sm o o0 l Hsm HL Hlt.
  pose proof (roundtrip_ix_suffix sm o o0 l [] Hsm HL Hlt) as H.
  rewrite app_nil_r in H. exact H.
Qed.

Lemma roundtrip_fresh : forall sm o l,
  sm < 2 ^ 63 -> marshal_len sm o = Some l -> l < sm ->
  unmarshal_ix sm (mkKV [] []) (marshal_to o) = (o, OkN l).
Proof.
  intros sm o l Hsm HL Hlt. rewrite (roundtrip_ix sm o (mkKV [] []) l Hsm HL Hlt).
  destruct o as [k v]. cbn [key val].
  destruct (nlen k =? 0) eqn:Ek; destruct (nlen v =? 0) eqn:Ev;
    rewrite ?(nlen_0_nil k) by lia; rewrite ?(nlen_0_nil v) by lia; reflexivity.
Qed.

Lemma roundtrip_binary : forall sm o o0 l,
  sm < 2 ^ 63 -> marshal_len sm o = Some l -> l < sm ->
  unmarshal_binary_ix sm o0 (marshal_to o) =
  (mkKV (if nlen (key o) =? 0 then key o0 else key o) (if nlen (val o) =? 0 then val o0 else val o), OkN l).
Proof.
  intros sm o o0 l Hsm HL Hlt. unfold unmarshal_binary_ix.
  rewrite (roundtrip_ix sm o o0 l Hsm HL Hlt), (marshal_len_ok _ _ _ HL).
  replace (l <? l) with false by lia. reflexivity.
Qed.

Lemma roundtrip_binary_fresh : forall sm o l,
  sm < 2 ^ 63 -> marshal_len sm o = Some l -> l < sm ->
  unmarshal_binary_ix sm (mkKV [] []) (marshal_to o) = (o, OkN l).
Proof.
  intros sm o l Hsm HL Hlt. unfold unmarshal_binary_ix.
  rewrite (roundtrip_fresh sm o l Hsm HL Hlt), (marshal_len_ok _ _ _ HL).
  replace (l <? l) with false by lia. reflexivity.
Qed.

Lemma tail_full : forall sm o o0 l suffix,
  sm < 2 ^ 63 -> marshal_len sm o = Some l -> l < sm -> suffix <> [] ->
  unmarshal_binary_ix sm o0 (marshal_to o ++ suffix) =
  (mkKV (if nlen (key o) =? 0 then key o0 else key o) (if nlen (val o) =? 0 then val o0 else val o), Tail l).
Proof.
  intros sm o o0 l suffix Hsm HL Hlt Hs. unfold unmarshal_binary_ix.
  rewrite (roundtrip_ix_suffix sm o o0 l suffix Hsm HL Hlt).
  rewrite nlen_app, (marshal_len_ok _ _ _ HL).
  assert (Hn : 0 < nlen suffix).
  { destruct suffix as [|a r]; [contradiction|]. rewrite nlen_cons. lia. }
  replace (l <? l + nlen suffix) with true by lia. reflexivity.
Qed.

Lemma tail_snd : forall sm o o0 l suffix,
  sm < 2 ^ 63 -> marshal_len sm o = Some l -> l < sm -> suffix <> [] ->
  snd (unmarshal_binary_ix sm o0 (marshal_to o ++ suffix)) = Tail l.
Proof.
  intros sm o o0 l suffix Hsm HL Hlt Hs.
  rewrite (tail_full sm o o0 l suffix Hsm HL Hlt Hs). reflexivity.
Qed.

Lemma boundary_refuted : exists sm o l,
  marshal_len sm o = Some l /\ l = sm /\
  snd (unmarshal_ix sm (mkKV [] []) (marshal_to o)) = Max.
Proof.
  exists 8, (mkKV [1; 2; 3; 4; 5] []), 8. vm_compute. repeat split.
Qed.
