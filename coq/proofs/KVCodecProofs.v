(** Proofs about the KV codec model (C20). *)
From Drummer.Model Require Import Base KVCodec.
From Coq Require Import ZifyN ZifyNat ZifyBool.

Lemma marshal_to_last : forall o, exists p, marshal_to o = p ++ [127].
Proof. intros o. unfold marshal_to. exists (field_enc 0 (key o) ++ field_enc 1 (val o)). now rewrite app_assoc. Qed.
