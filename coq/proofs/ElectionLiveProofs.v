(** Proofs about the election model at turn granularity (C14): reachable states
    are consistent (any faults), stability under renewal, bounded takeover. *)
From Coq Require Import Arith PeanoNat ZifyN ZifyNat ZifyBool Permutation.
From Drummer.Model Require Import Base Election ElectionSpec ElectionRun.
From Drummer.Proofs Require Import ElectionProofs.

(* ================================================================== *)
(** * 0. Lists, [upd], [sys_turn]                                       *)

Lemma nth_error_upd_same {A} (l : list A) i x y :
  nth_error l i = Some y -> nth_error (upd l i x) i = Some x.
Proof.
  revert i. induction l as [|a l IH]; intros [|i] H; cbn in *; try discriminate; auto.
Qed.

Lemma nth_error_upd_other {A} (l : list A) i j x :
  i <> j -> nth_error (upd l i x) j = nth_error l j.
Proof.
  revert i j. induction l as [|a l IH]; intros [|i] [|j] H; cbn; try reflexivity; try congruence.
  apply IH. congruence.
Qed.

Lemma nth_error_upd {A} (l : list A) i j x y :
  nth_error (upd l i x) j = Some y ->
  (i = j /\ y = x) \/ (i <> j /\ nth_error l j = Some y).
Proof.
  intros H. destruct (Nat.eq_dec i j) as [E|E].
  - subst j. left. split; [reflexivity|].
    destruct (nth_error l i) as [z|] eqn:Hz.
    + rewrite (nth_error_upd_same _ _ _ _ Hz) in H. congruence.
    + exfalso. revert i H Hz. clear. induction l as [|a l IH]; intros [|i] H Hz; cbn in *; try discriminate.
      eapply IH; eassumption.
  - right. split; [exact E|]. rewrite nth_error_upd_other in H by exact E. exact H.
Qed.

Definition mem (x : nat) (l : list nat) : bool := existsb (Nat.eqb x) l.

Lemma mem_In x l : mem x l = true <-> In x l.
Proof.
  unfold mem. rewrite existsb_exists. split.
  - intros (y & Hy & E). apply Nat.eqb_eq in E. subst y. exact Hy.
  - intros H. exists x. split; [exact H|apply Nat.eqb_refl].
Qed.

Lemma mem_cons_other x m l : x <> m -> mem x (m :: l) = mem x l.
Proof.
  intros H. unfold mem. cbn [existsb]. destruct (Nat.eqb_spec x m); [contradiction|reflexivity].
Qed.

Lemma mem_cons_same x l : mem x (x :: l) = true.
Proof. unfold mem. cbn [existsb]. rewrite Nat.eqb_refl. reflexivity. Qed.

Lemma mem_false x l : mem x l = false <-> ~ In x l.
Proof.
  rewrite <- mem_In. destruct (mem x l); split; intros H; try reflexivity; try discriminate; try congruence.
Qed.

(** unfolding of one system turn *)
Lemma sys_turn_some thr fl y i w :
  nth_error (y_ws y) i = Some w ->
  sys_turn thr fl y i =
  mkSys (fst (fst (fst (turn thr i fl (y_rec y) (w_srv w) (w_tick w + 1)))))
        (upd (y_ws y) i (mkW (snd (fst (fst (turn thr i fl (y_rec y) (w_srv w) (w_tick w + 1))))) (w_tick w + 1))).
Proof.
  intros H. unfold sys_turn, sys_turn_at. rewrite H.
  destruct (turn thr i fl (y_rec y) (w_srv w) (w_tick w + 1)) as [[[r' s'] pn] evs]. reflexivity.
Qed.

Lemma sys_turn_none thr fl y i :
  nth_error (y_ws y) i = None -> sys_turn thr fl y i = y.
Proof. intros H. unfold sys_turn. rewrite H. reflexivity. Qed.

Lemma sys_turn_events_some thr fl y i w :
  nth_error (y_ws y) i = Some w ->
  sys_turn_events thr fl y i = snd (turn thr i fl (y_rec y) (w_srv w) (w_tick w + 1)).
Proof.
  intros H. unfold sys_turn_events, sys_turn_at. rewrite H.
  destruct (turn thr i fl (y_rec y) (w_srv w) (w_tick w + 1)) as [[[r' s'] pn] evs]. reflexivity.
Qed.

Lemma sys_turn_events_none thr fl y i :
  nth_error (y_ws y) i = None -> sys_turn_events thr fl y i = [].
Proof. intros H. unfold sys_turn_events. rewrite H. reflexivity. Qed.

Lemma run_sched_app thr a b y :
  run_sched thr (a ++ b) y = run_sched thr b (run_sched thr a y).
Proof. unfold run_sched. apply fold_left_app. Qed.

Lemma run_sched_cons thr i p y :
  run_sched thr (i :: p) y = run_sched thr p (sys_turn thr nofault y i).
Proof. reflexivity. Qed.

Lemma run_rounds_concat thr rs y : run_rounds thr rs y = run_sched thr (concat rs) y.
Proof.
  revert y. induction rs as [|r rs IH]; intros y; cbn [concat]; [reflexivity|].
  rewrite run_sched_app. unfold run_rounds in *. cbn [fold_left]. apply IH.
Qed.

Lemma sched_events_cons thr i p y :
  sched_events thr (i :: p) y =
  sys_turn_events thr nofault y i ++ sched_events thr p (sys_turn thr nofault y i).
Proof.
  cbn [sched_events]. unfold sys_turn_events, sys_turn.
  destruct (nth_error (y_ws y) i) as [w|]; [|reflexivity].
  destruct (sys_turn_at thr i (w_tick w + 1) nofault y) as [[y' pn] evs]. reflexivity.
Qed.

Lemma sched_events_app thr a b y :
  sched_events thr (a ++ b) y = sched_events thr a y ++ sched_events thr b (run_sched thr a y).
Proof.
  revert y. induction a as [|i a IH]; intros y.
  - reflexivity.
  - rewrite <- app_comm_cons, !sched_events_cons, IH, run_sched_cons, app_assoc. reflexivity.
Qed.

(* ================================================================== *)
(** * 1. What a turn can do, whatever the answers (any faults)           *)

(** [prog_all Q C p]: every way of answering the operations of [p] ends in a
    manager satisfying [Q], and every proposal issued satisfies [C]. *)
Fixpoint prog_all (Q : server -> bool -> Prop) (C : N -> N -> N -> Prop) (p : prog) : Prop :=
  match p with
  | PDone s pn => Q s pn
  | PRead k => forall a, prog_all Q C (k a)
  | PSess k => forall ok, prog_all Q C (k ok)
  | PCas self old tick k => C self old tick /\ forall a, prog_all Q C (k a)
  | PClose k => prog_all Q C k
  end.

Lemma cas_fst r self old tick :
  fst (cas r self old tick) = r \/ fst (cas r self old tick) = Some (self, tick).
Proof.
  unfold cas. destruct r as [[h t]|]; [|right; reflexivity].
  destruct ((h =? self) || (h =? old)); [right|left]; reflexivity.
Qed.

Lemma cas_resp_fst f r self old tick :
  fst (cas_resp f r self old tick) = r \/ fst (cas_resp f r self old tick) = Some (self, tick).
Proof.
  unfold cas_resp. destruct f.
  - pose proof (cas_fst r self old tick) as H. destruct (cas r self old tick) as [r' c]. exact H.
  - left; reflexivity.
  - apply cas_fst.
Qed.

Lemma run_prog_all (Q : server -> bool -> Prop) (C : N -> N -> N -> Prop) p : forall who fl n r log r' s' pn evs,
  prog_all Q C p ->
  run_prog who fl n r p log = (r', s', pn, evs) ->
  Q s' pn /\ (r' = r \/ exists self old tk, C self old tk /\ r' = Some (self, tk)).
Proof.
  induction p as [s pn0|k IH|k IH|self old tick k IH|k IH]; intros who fl n r log r' s' pn evs HA HR;
    cbn [run_prog prog_all] in *.
  - inversion HR; subst. split; [exact HA|left; reflexivity].
  - eapply IH; [apply HA|exact HR].
  - eapply IH; [apply HA|exact HR].
  - destruct HA as [HC HA].
    pose proof (cas_resp_fst (f_p fl) r self old tick) as Hf.
    destruct (cas_resp (f_p fl) r self old tick) as [r1 a]. cbn [fst] in Hf.
    destruct (IH a _ _ _ _ _ _ _ _ _ (HA a) HR) as [HQ Hr].
    split; [exact HQ|].
    destruct Hr as [Hr|Hr]; [|right; exact Hr].
    destruct Hf as [Hf|Hf]; [left; congruence|].
    right. exists self, old, tick. split; [exact HC|congruence].
  - eapply IH; [exact HA|exact HR].
Qed.

(** the manager keeps its remembered leader, up to the static count, or forgets it *)
Definition cur_keep (s s' : server) : Prop :=
  s_cur s' = None \/
  exists c c', s_cur s = Some c /\ s_cur s' = Some c' /\ l_id c' = l_id c /\ l_tick c' = l_tick c.

Lemma cur_keep_refl s s' : s_cur s' = s_cur s -> cur_keep s s'.
Proof.
  intros H. unfold cur_keep. destruct (s_cur s) as [c|] eqn:E; [right|left; exact H].
  exists c, c. auto.
Qed.

Lemma prog_all_get_session (Q : server -> bool -> Prop) (C : N -> N -> N -> Prop) s k :
  (forall s1, s_id s1 = s_id s -> s_cur s1 = s_cur s -> s_role s1 = s_role s -> prog_all Q C (k (Some s1))) ->
  prog_all Q C (k None) ->
  prog_all Q C (get_session s k).
Proof.
  intros H1 H2. unfold get_session. destruct (s_sess s).
  - apply H1; reflexivity.
  - cbn [prog_all]. intros [|]; [apply H1; reflexivity|exact H2].
Qed.

Lemma prog_all_reset_session (Q : server -> bool -> Prop) (C : N -> N -> N -> Prop) s k :
  (forall s2, s_id s2 = s_id s -> s_cur s2 = s_cur s -> s_role s2 = s_role s -> prog_all Q C (k s2)) ->
  prog_all Q C (reset_session s k).
Proof.
  intros H. unfold reset_session. destruct (s_sess s); cbn [prog_all]; apply H; reflexivity.
Qed.

Lemma prog_all_renew (Q : server -> bool -> Prop) (C : N -> N -> N -> Prop) s tick kerr kok :
  C (s_id s) 0 tick ->
  (forall s', s_id s' = s_id s -> cur_keep s s' -> prog_all Q C (kerr s')) ->
  (forall s', s_id s' = s_id s -> cur_keep s s' -> prog_all Q C (kok s')) ->
  prog_all Q C (renew_leadership s tick kerr kok).
Proof.
  intros HC Herr Hok. unfold renew_leadership. apply prog_all_get_session.
  - intros s1 Hid Hcur Hrole. cbn [prog_all]. split; [rewrite Hid; exact HC|].
    intros [c|].
    + destruct (code_eqb c Updated).
      * apply Hok; [exact Hid|apply cur_keep_refl; exact Hcur].
      * apply Hok; [exact Hid|left; reflexivity].
    + apply prog_all_reset_session. intros s2 Hid2 Hcur2 Hrole2.
      apply Herr; [cbn; congruence|left; reflexivity].
  - apply Herr; [reflexivity|apply cur_keep_refl; reflexivity].
Qed.

Lemma cur_keep_reset s s' : s_cur s' = s_cur s -> cur_keep s (reset_follower s').
Proof.
  intros H. unfold cur_keep, reset_follower. cbn [s_cur]. rewrite H.
  destruct (s_cur s) as [c|]; [right|left; reflexivity].
  exists c, (mkL (l_id c) (l_tick c) 0). auto.
Qed.

Lemma prog_all_campaign (Q : server -> bool -> Prop) (C : N -> N -> N -> Prop) s tick :
  (forall old, C (s_id s) old tick) ->
  (forall s' pn, s_id s' = s_id s -> cur_keep s s' -> Q s' pn) ->
  prog_all Q C (campaign s tick).
Proof.
  intros HC HQ. unfold campaign. destruct (s_role s).
  - apply prog_all_get_session.
    + intros s1 Hid Hcur Hrole. cbn [prog_all]. split; [rewrite Hid; apply HC|].
      assert (HR : prog_all Q C (reset_session s1 (fun s2 => PDone (reset_follower s2) false))).
      { apply prog_all_reset_session. intros s2 Hid2 Hcur2 _. cbn [prog_all].
        apply HQ; [cbn; congruence|apply cur_keep_reset; congruence]. }
      intros [[|]|]; try exact HR.
      cbn [prog_all]. intros [[h t]|].
      * destruct (h =? s_id s1); cbn [prog_all].
        -- apply HQ; [exact Hid|left; reflexivity].
        -- apply HQ; [exact Hid|apply cur_keep_refl; exact Hcur].
      * cbn [prog_all]. apply HQ; [exact Hid|apply cur_keep_reset; exact Hcur].
    + cbn [prog_all]. apply HQ; [reflexivity|apply cur_keep_refl; reflexivity].
  - cbn [prog_all]. apply HQ; [reflexivity|apply cur_keep_refl; reflexivity].
Qed.

(** what the manager remembers after a turn whose first lookup was answered [a] *)
Definition turn_post (s : server) (a : option (N * N)) (s' : server) : Prop :=
  s_id s' = s_id s /\
  (cur_keep s s' \/ exists h t st, a = Some (h, t) /\ s_cur s' = Some (mkL h t st)).

Lemma cur_keep_trans s s1 s' : cur_keep s s1 -> cur_keep s1 s' -> cur_keep s s'.
Proof.
  intros H1 [H2|(c1 & c' & Hc1 & Hc' & Hi & Ht)]; [left; exact H2|].
  destruct H1 as [H1|(c & c1' & Hc & Hc1' & Hi1 & Ht1)]; [congruence|].
  right. exists c, c'. rewrite Hc1 in Hc1'. inversion Hc1'; subst c1'. repeat split; try assumption; congruence.
Qed.

Lemma set_leader_info_post s h t s1 :
  set_leader_info s h t = Some s1 ->
  s_id s1 = s_id s /\ s_role s1 = s_role s /\
  (cur_keep s s1 \/ exists st, s_cur s1 = Some (mkL h t st)).
Proof.
  unfold set_leader_info. destruct (s_cur s) as [c|] eqn:Hc.
  - destruct (N.eqb_spec (l_id c) h) as [E|E]; cbn [andb negb].
    + destruct (l_tick c <? t).
      * intros H; inversion H; subst s1. cbn. repeat split. right. exists 0. rewrite E. reflexivity.
      * destruct (l_tick c =? t); [|discriminate].
        intros H; inversion H; subst s1. cbn. repeat split. left. right.
        exists c, (mkL (l_id c) (l_tick c) (l_static c + 1)). auto.
    + intros H; inversion H; subst s1. cbn. repeat split. right. exists 0. reflexivity.
  - intros H; inversion H; subst s1. cbn. repeat split. right. exists 0. reflexivity.
Qed.

Lemma turn_prog_all thr s tick :
  exists k, turn_prog thr s tick = PRead k /\
    forall a, prog_all (fun s' _ => turn_post s a s') (fun self _ tk => self = s_id s /\ tk = tick) (k a).
Proof.
  unfold turn_prog. destruct (s_role s) eqn:Hrole.
  - unfold follower_main. eexists. split; [reflexivity|]. intros [[h t]|].
    + destruct (h =? 0).
      * apply prog_all_campaign; [auto|]. intros s' pn Hid Hk. split; [exact Hid|left; exact Hk].
      * destruct (h =? s_id s).
        -- apply prog_all_renew; [auto| |]; intros s' Hid Hk; cbn [prog_all]; (split; [cbn; exact Hid|left]).
           ++ eapply cur_keep_trans; [exact Hk|apply cur_keep_reset; reflexivity].
           ++ left; reflexivity.
        -- destruct (set_leader_info s h t) as [s1|] eqn:Hsli.
           ++ destruct (set_leader_info_post _ _ _ _ Hsli) as (Hid1 & Hr1 & Hc1).
              destruct (leader_dead thr s1).
              ** apply prog_all_campaign; [rewrite Hid1; auto|].
                 intros s' pn Hid Hk. split; [congruence|].
                 destruct Hc1 as [Hc1|(st & Hc1)].
                 --- left. eapply cur_keep_trans; eassumption.
                 --- destruct Hk as [Hk|(c & c' & Hc & Hc' & Hi & Ht)]; [left; left; exact Hk|].
                     right. rewrite Hc1 in Hc. inversion Hc; subst c. cbn in Hi, Ht.
                     exists h, t, (l_static c'). split; [reflexivity|]. rewrite Hc'. destruct c'; cbn in *; congruence.
              ** cbn [prog_all]. split; [exact Hid1|].
                 destruct Hc1 as [Hc1|(st & Hc1)]; [left; exact Hc1|right; exists h, t, st; auto].
           ++ cbn [prog_all]. split; [reflexivity|left; apply cur_keep_refl; reflexivity].
    + cbn [prog_all]. split; [reflexivity|left; apply cur_keep_reset; reflexivity].
  - unfold leader_main. eexists. split; [reflexivity|]. intros [[h t]|].
    + destruct (negb (h =? s_id s)).
      * cbn [prog_all]. split; [reflexivity|]. right. exists h, t, 0. auto.
      * apply prog_all_renew; [auto| |]; intros s' Hid Hk; cbn [prog_all]; (split; [exact Hid|left; exact Hk]).
    + cbn [prog_all]. split; [reflexivity|left; left; reflexivity].
Qed.

(** summary of a turn with arbitrary faults *)
Lemma turn_summary thr who fl r s tick r' s' pn evs :
  turn thr who fl r s tick = (r', s', pn, evs) ->
  (r' = r \/ r' = Some (s_id s, tick)) /\
  s_id s' = s_id s /\
  (cur_keep s s' \/ exists h t st, lookup r = (h, t) /\ s_cur s' = Some (mkL h t st)).
Proof.
  unfold turn. destruct (turn_prog_all thr s tick) as (k & Hk & HA). rewrite Hk.
  cbn [run_prog]. intros HR.
  apply (run_prog_all _ _ _ _ _ _ _ _ _ _ _ _ (HA _)) in HR.
  destruct HR as [[Hid Hpost] Hr]. split; [|split; [exact Hid|]].
  - destruct Hr as [Hr|(self & old & tk & [E1 E2] & Hr)]; [left; exact Hr|right; congruence].
  - destruct Hpost as [Hp|(h & t & st & Ha & Hc)]; [left; exact Hp|].
    right. exists h, t, st. split; [|exact Hc].
    unfold read_resp in Ha. destruct (f_r1 fl); try discriminate. inversion Ha. reflexivity.
Qed.

(* ================================================================== *)
(** * 2. Reachable states are consistent                               *)

Lemma NoDup_nth_error_inj {A} (l : list A) i j x :
  NoDup l -> nth_error l i = Some x -> nth_error l j = Some x -> i = j.
Proof.
  intros H Hi Hj. apply (proj1 (NoDup_nth_error l) H); [|congruence].
  apply nth_error_Some. congruence.
Qed.

Lemma consistent_new_sys ids : NoDup ids -> ~ In 0 ids -> consistent (new_sys ids).
Proof.
  intros Hnd Hnz. unfold consistent, new_sys. cbn [y_rec y_ws].
  assert (HN : forall i w, nth_error (map (fun id => mkW (new_server id) 0) ids) i = Some w ->
                 nth_error ids i = Some (s_id (w_srv w)) /\ s_cur (w_srv w) = None).
  { intros i w H. rewrite nth_error_map in H. destruct (nth_error ids i) as [x|]; [|discriminate].
    inversion H; subst w. auto. }
  repeat split.
  - intros i j wi wj Hi Hj E. apply HN in Hi, Hj. destruct Hi as [Hi _], Hj as [Hj _].
    rewrite <- E in Hj. eapply NoDup_nth_error_inj; eassumption.
  - intros i wi Hi E. apply HN in Hi. destruct Hi as [Hi _]. rewrite E in Hi.
    apply nth_error_In in Hi. contradiction.
  - discriminate.
  - discriminate.
  - intros f wf c j wj Hf Hc. apply HN in Hf. destruct Hf as [_ Hf]. congruence.
  - discriminate.
Qed.

Lemma consistent_step thr fl y i : consistent y -> consistent (sys_turn thr fl y i).
Proof.
  intros HC. destruct (nth_error (y_ws y) i) as [w|] eqn:Hw; [|rewrite sys_turn_none; assumption].
  rewrite (sys_turn_some _ _ _ _ _ Hw).
  destruct (turn thr i fl (y_rec y) (w_srv w) (w_tick w + 1)) as [[[r' s'] pn] evs] eqn:HT.
  cbn [fst snd]. apply turn_summary in HT. destruct HT as (Hr & Hid & Hcur).
  destruct HC as (Hd & Hnz & Hr0 & H2 & H3 & H4).
  set (T := w_tick w + 1) in *.
  (* a view of the new pool in terms of the old one *)
  assert (HV : forall j wj, nth_error (upd (y_ws y) i (mkW s' T)) j = Some wj ->
            exists wo, nth_error (y_ws y) j = Some wo /\ s_id (w_srv wj) = s_id (w_srv wo) /\
                       w_tick wo <= w_tick wj /\ (j <> i -> wj = wo) /\ (j = i -> wo = w /\ wj = mkW s' T)).
  { intros j wj H. apply nth_error_upd in H. destruct H as [[E1 E2]|[E1 E2]].
    - subst j wj. exists w. cbn. repeat split; auto; try lia; try (intros; congruence).
    - exists wj. repeat split; auto; try lia; try (intros; congruence). }
  assert (Hidw : s_id (w_srv w) <> 0) by (eapply Hnz; exact Hw).
  unfold consistent. cbn [y_rec y_ws]. repeat split.
  - intros a b wa wb Ha Hb E.
    destruct (HV _ _ Ha) as (wa0 & Ha0 & Eia & _). destruct (HV _ _ Hb) as (wb0 & Hb0 & Eib & _).
    eapply Hd; [exact Ha0|exact Hb0|congruence].
  - intros a wa Ha. destruct (HV _ _ Ha) as (wa0 & Ha0 & Eia & _). rewrite Eia. eapply Hnz; exact Ha0.
  - intros h t E. destruct Hr as [Hr|Hr]; rewrite Hr in E.
    + eapply Hr0; exact E.
    + inversion E; subst h. exact Hidw.
  - intros j wj t Hj E.
    destruct (HV _ _ Hj) as (wo & Ho & Eid & Hle & Hne & Heq).
    destruct Hr as [Hr|Hr]; rewrite Hr in E.
    + rewrite Eid in E. specialize (H2 _ _ _ Ho E). lia.
    + inversion E as [[E1 E2]]. rewrite Eid in E1.
      assert (j = i) by (eapply Hd; [exact Ho|exact Hw|congruence]).
      destruct (Heq H) as [_ ->]. cbn. lia.
  - intros f wf c j wj Hf Hc Hj E.
    destruct (HV _ _ Hj) as (wjo & Hjo & Eidj & Hlej & _).
    destruct (HV _ _ Hf) as (wfo & Hfo & _ & _ & Hnef & Heqf).
    destruct (Nat.eq_dec f i) as [Efi|Efi].
    + destruct (Heqf Efi) as [-> ->]. cbn [w_srv] in Hc.
      destruct Hcur as [[Hk|(c0 & c' & Hc0 & Hc' & Hi' & Ht')]|(h & t & st & Hl & Hc')].
      * congruence.
      * rewrite Hc' in Hc. inversion Hc; subst c'.
        assert (l_tick c0 <= w_tick wjo) by (eapply H3; [exact Hw|exact Hc0|exact Hjo|congruence]). lia.
      * rewrite Hc' in Hc. inversion Hc; subst c. cbn [l_id l_tick] in *.
        destruct (y_rec y) as [[h0 t0]|] eqn:Hrec; cbn [lookup] in Hl.
        -- inversion Hl; subst h0 t0.
           assert (t <= w_tick wjo) by (eapply H2; [exact Hjo|rewrite <- Eidj, <- E; reflexivity]). lia.
        -- inversion Hl; subst h t. exfalso. eapply Hnz; [exact Hjo|congruence].
    + rewrite (Hnef Efi) in Hc.
      assert (l_tick c <= w_tick wjo) by (eapply H3; [exact Hfo|exact Hc|exact Hjo|congruence]). lia.
  - intros f wf c t Hf Hc E.
    destruct (HV _ _ Hf) as (wfo & Hfo & _ & _ & Hnef & Heqf).
    destruct (Nat.eq_dec f i) as [Efi|Efi].
    + destruct (Heqf Efi) as [-> ->]. cbn [w_srv] in Hc.
      destruct Hcur as [[Hk|(c0 & c' & Hc0 & Hc' & Hi' & Ht')]|(h & t1 & st & Hl & Hc')].
      * congruence.
      * rewrite Hc' in Hc. inversion Hc; subst c'.
        destruct Hr as [Hr|Hr]; rewrite Hr in E.
        -- rewrite Hi' in E. specialize (H4 _ _ _ _ Hw Hc0 E). lia.
        -- inversion E as [[E1 E2]]. rewrite Hi' in E1.
           assert (l_tick c0 <= w_tick w) by (eapply H3; [exact Hw|exact Hc0|exact Hw|congruence]). lia.
      * rewrite Hc' in Hc. inversion Hc; subst c. cbn [l_id l_tick] in *.
        destruct Hr as [Hr|Hr]; rewrite Hr in E.
        -- rewrite E in Hl. cbn [lookup] in Hl. inversion Hl. lia.
        -- inversion E as [[E1 E2]]. subst h t.
           destruct (y_rec y) as [[h0 t0]|] eqn:Hrec; cbn [lookup] in Hl.
           ++ inversion Hl; subst h0 t0. specialize (H2 _ _ _ Hw eq_refl). lia.
           ++ inversion Hl. congruence.
    + rewrite (Hnef Efi) in Hc.
      destruct Hr as [Hr|Hr]; rewrite Hr in E.
      * eapply H4; eassumption.
      * inversion E as [[E1 E2]].
        assert (l_tick c <= w_tick w) by (eapply H3; [exact Hfo|exact Hc|exact Hw|congruence]). lia.
Qed.

Theorem consistent_reachable thr ids sched :
  NoDup ids -> ~ In 0 ids -> consistent (run_faulty thr sched (new_sys ids)).
Proof.
  intros Hnd Hnz. unfold run_faulty.
  assert (H : forall y, consistent y -> consistent (fold_left (fun y x => sys_turn thr (snd x) y (fst x)) sched y)).
  { induction sched as [|x sched IH]; intros y Hy; cbn [fold_left]; [exact Hy|].
    apply IH. apply consistent_step. exact Hy. }
  apply H. apply consistent_new_sys; assumption.
Qed.

Lemma consistent_run_sched thr p y : consistent y -> consistent (run_sched thr p y).
Proof.
  revert y. induction p as [|i p IH]; intros y Hy; [exact Hy|].
  rewrite run_sched_cons. apply IH. apply consistent_step. exact Hy.
Qed.

(** instance ids never change *)
Lemma id_at_sys_turn thr fl y i j : id_at (sys_turn thr fl y i) j = id_at y j.
Proof.
  destruct (nth_error (y_ws y) i) as [w|] eqn:Hw; [|rewrite sys_turn_none; auto].
  rewrite (sys_turn_some _ _ _ _ _ Hw).
  destruct (turn thr i fl (y_rec y) (w_srv w) (w_tick w + 1)) as [[[r' s'] pn] evs] eqn:HT.
  cbn [fst snd]. apply turn_summary in HT. destruct HT as (_ & Hid & _).
  unfold id_at. cbn [y_ws]. destruct (Nat.eq_dec i j) as [E|E].
  - subst j. rewrite (nth_error_upd_same _ _ _ _ Hw), Hw. exact Hid.
  - rewrite nth_error_upd_other by exact E. reflexivity.
Qed.

Lemma id_at_run_sched thr p y j : id_at (run_sched thr p y) j = id_at y j.
Proof.
  revert y. induction p as [|i p IH]; intros y; [reflexivity|].
  rewrite run_sched_cons, IH. apply id_at_sys_turn.
Qed.

(* ================================================================== *)
(** * 3. Fault-free turns, computed exactly                            *)

Lemma neqb_false (a b : N) : a <> b -> (a =? b) = false.
Proof. intros H. apply N.eqb_neq. exact H. Qed.

(** a leader finds somebody else in the record: follower, nothing written *)
Lemma turn_leader_stepdown thr who s h t tick :
  s_role s = Leader -> h <> s_id s ->
  turn thr who nofault (Some (h, t)) s tick =
  (Some (h, t), become_follower (Some (h, t)) s, false, [ERead who (Some (h, t))]).
Proof.
  intros Hrole Hne. unfold turn, turn_prog. rewrite Hrole. unfold leader_main.
  cbn [run_prog nofault f_r1 read_resp lookup]. rewrite (neqb_false _ _ Hne). reflexivity.
Qed.

(** a leader finds itself in the record: renews with the turn's tick, stays leader *)
Lemma turn_leader_renew thr who s t tick :
  s_role s = Leader ->
  exists evs,
    turn thr who nofault (Some (s_id s, t)) s tick =
    (Some (s_id s, tick), mkS (s_id s) Leader (s_cur s) true, false, evs).
Proof.
  intros Hrole. destruct s as [id role cur sess]. cbn [s_role s_id s_cur] in *. subst role.
  unfold turn, turn_prog, leader_main. cbn [s_role s_id run_prog nofault f_r1 read_resp lookup].
  rewrite N.eqb_refl. cbn [negb]. unfold renew_leadership, get_session.
  destruct sess; cbn [s_sess s_id with_sess s_role s_cur run_prog nofault f_s f_p sess_resp cas_resp cas];
    rewrite N.eqb_refl; cbn [orb code_eqb run_prog]; eexists; reflexivity.
Qed.

(** a follower sees a holder that is not itself and does not consider it dead:
    one lookup, nothing else *)
Lemma turn_follower_observe thr who s h t tick s1 :
  s_role s = Follower -> h <> 0 -> h <> s_id s ->
  set_leader_info s h t = Some s1 -> leader_dead thr s1 = false ->
  turn thr who nofault (Some (h, t)) s tick = (Some (h, t), s1, false, [ERead who (Some (h, t))]).
Proof.
  intros Hrole H0 Hne Hsli Hdead. unfold turn, turn_prog. rewrite Hrole. unfold follower_main.
  cbn [run_prog nofault f_r1 read_resp lookup].
  rewrite (neqb_false _ _ H0), (neqb_false _ _ Hne), Hsli, Hdead. reflexivity.
Qed.

(** ... considers it dead: campaigns against exactly that holder and wins *)
Lemma turn_follower_campaign thr who s h t tick s1 :
  s_role s = Follower -> h <> 0 -> h <> s_id s ->
  set_leader_info s h t = Some s1 -> leader_dead thr s1 = true ->
  exists evs,
    turn thr who nofault (Some (h, t)) s tick =
    (Some (s_id s, tick), mkS (s_id s) Leader None true, false, evs).
Proof.
  intros Hrole H0 Hne Hsli Hdead. unfold turn, turn_prog. rewrite Hrole. unfold follower_main.
  cbn [run_prog nofault f_r1 read_resp lookup].
  rewrite (neqb_false _ _ H0), (neqb_false _ _ Hne), Hsli, Hdead.
  destruct (set_leader_info_fields _ _ _ _ Hsli) as (Hid1 & Hr1 & _ & (c & Hc & Hcid)).
  destruct s1 as [id1 role1 cur1 sess1]. cbn [s_id s_role s_cur] in *. subst id1 role1 cur1.
  rewrite Hrole. unfold campaign, get_session.
  cbn [s_role s_cur s_id s_sess].
  destruct sess1; cbn [s_sess s_id with_sess s_role s_cur run_prog nofault f_s f_p f_r2 sess_resp cas_resp cas read_resp lookup];
    rewrite Hcid, (N.eqb_refl h), Bool.orb_true_r;
    cbn [run_prog nofault f_r2 read_resp lookup s_id become_leader s_sess];
    rewrite N.eqb_refl; cbn [run_prog]; eexists; reflexivity.
Qed.

(* ================================================================== *)
(** * 4. Stability: the invariant of a fair schedule with a renewing leader *)

(** follower [f]'s view of leader [idL] whose record carries tick [t];
    [Ld]/[fd]: the leader / [f] already took its turn in the current round *)
Definition Gf (Ld fd : bool) (t idL : N) (s : server) : Prop :=
  forall c, s_cur s = Some c -> l_id c = idL ->
    l_tick c <= t /\
    (l_tick c = t ->
     match Ld, fd with
     | true, false => False
     | false, true => l_static c <= 1
     | _, _ => l_static c = 0
     end).

(** [done]: who moved in the current round; [mv]: servers known to be
    followers; [ms]: servers known to watch the leader with static count <= 1 *)
Definition stable_inv (L : nat) (idL : N) (done mv ms : list nat) (y : sys) : Prop :=
  idL <> 0 /\
  exists wL t,
    nth_error (y_ws y) L = Some wL /\ s_id (w_srv wL) = idL /\ s_role (w_srv wL) = Leader /\
    y_rec y = Some (idL, t) /\ t <= w_tick wL /\
    forall f wf, f <> L -> nth_error (y_ws y) f = Some wf ->
      s_id (w_srv wf) <> idL /\
      Gf (mem L done) (mem f done) t idL (w_srv wf) /\
      (In f mv -> s_role (w_srv wf) = Follower) /\
      (In f ms -> exists c, s_cur (w_srv wf) = Some c /\ l_id c = idL /\ l_static c <= 1).

Lemma stable_inv_weaken L idL done mv ms mv' ms' y :
  incl mv' mv -> incl ms' ms -> stable_inv L idL done mv ms y -> stable_inv L idL done mv' ms' y.
Proof.
  intros I1 I2 (Hnz & wL & t & HL & Hid & Hrole & Hrec & Ht & HF).
  split; [exact Hnz|]. exists wL, t. repeat (split; [assumption|]).
  intros f wf Hne Hf. destruct (HF f wf Hne Hf) as (A1 & A2 & A3 & A4).
  split; [exact A1|]. split; [exact A2|].
  split; [intros H; apply A3, I1, H|intros H; apply A4, I2, H].
Qed.

Lemma stable_inv_round_end L idL done mv ms y :
  In L done -> stable_inv L idL done mv ms y -> stable_inv L idL [] mv ms y.
Proof.
  intros HLd (Hnz & wL & t & HL & Hid & Hrole & Hrec & Ht & HF).
  split; [exact Hnz|]. exists wL, t. repeat (split; [assumption|]).
  intros f wf Hne Hf. destruct (HF f wf Hne Hf) as (A1 & A2 & A3 & A4).
  split; [exact A1|]. split; [|split; [exact A3|exact A4]].
  intros c Hc Hic. apply mem_In in HLd. rewrite HLd in A2.
  destruct (A2 c Hc Hic) as [B1 B2]. split; [exact B1|].
  intros E. specialize (B2 E). cbn [mem existsb].
  destruct (mem f done); [exact B2|contradiction].
Qed.

Lemma stable_start_inv y L :
  stable_start y L -> exists idL, idL = id_at y L /\ stable_inv L idL [] [] [] y.
Proof.
  intros (wL & t & HL & Hrole & Hnz & Hrec & Ht & HF).
  exists (s_id (w_srv wL)). split; [unfold id_at; rewrite HL; reflexivity|].
  split; [exact Hnz|]. exists wL, t. repeat (split; [first [assumption|reflexivity]|]).
  intros f wf Hne Hf. destruct (HF f wf Hne Hf) as (A1 & A2).
  split; [exact A1|]. split; [|split; intros []].
  intros c Hc Hic. split.
  - destruct (A2 c Hc Hic) as [B|[B _]]; lia.
  - intros E. cbn [mem existsb]. destruct (A2 c Hc Hic) as [B|[_ B]]; [lia|exact B].
Qed.

(** one turn of the schedule keeps the invariant; a turn of a server other than
    the leader consists of exactly one lookup *)
Lemma stable_step thr L idL done mv ms y m :
  1 <= thr -> ~ In m done -> stable_inv L idL done mv ms y ->
  stable_inv L idL (m :: done) (m :: mv) (m :: ms) (sys_turn thr nofault y m) /\
  (m <> L -> forall e, In e (sys_turn_events thr nofault y m) -> exists a, e = ERead m a).
Proof.
  intros Hthr Hnd (Hnz & wL & t & HL & Hid & Hrole & Hrec & Ht & HF).
  destruct (nth_error (y_ws y) m) as [wm|] eqn:Hm.
  2:{ (* no such server: nothing happens *)
    rewrite sys_turn_none, sys_turn_events_none by exact Hm.
    split; [|intros _ e []].
    assert (HmL : m <> L) by congruence.
    split; [exact Hnz|]. exists wL, t. repeat (split; [assumption|]).
    intros f wf Hne Hf. destruct (HF f wf Hne Hf) as (A1 & A2 & A3 & A4).
    assert (Hfm : f <> m) by congruence.
    rewrite (mem_cons_other L m) by congruence. rewrite (mem_cons_other f m) by exact Hfm.
    split; [exact A1|]. split; [exact A2|].
    split; (intros [E|E]; [congruence|auto]). }
  rewrite (sys_turn_some _ _ _ _ _ Hm), (sys_turn_events_some _ _ _ _ _ Hm).
  destruct (Nat.eq_dec m L) as [EmL|EmL].
  - (* the leader renews *)
    subst m. rewrite HL in Hm. inversion Hm; subst wm. clear Hm.
    subst idL. rewrite Hrec.
    destruct (turn_leader_renew thr L (w_srv wL) t (w_tick wL + 1) Hrole) as (evs & ->).
    cbn [fst snd]. split; [|congruence].
    split; [exact Hnz|].
    exists (mkW (mkS (s_id (w_srv wL)) Leader (s_cur (w_srv wL)) true) (w_tick wL + 1)), (w_tick wL + 1).
    cbn [y_ws y_rec w_srv w_tick s_id s_role].
    split; [eapply nth_error_upd_same; exact HL|].
    split; [reflexivity|]. split; [reflexivity|]. split; [reflexivity|]. split; [lia|].
    intros f wf Hne Hf. rewrite nth_error_upd_other in Hf by congruence.
    destruct (HF f wf Hne Hf) as (A1 & A2 & A3 & A4).
    split; [exact A1|]. split.
    + intros c Hc Hic. destruct (A2 c Hc Hic) as [B _]. split; [lia|]. intros E. lia.
    + split; intros [E|E]; try congruence; auto.
  - (* somebody else looks at the record *)
    destruct (HF m wm EmL Hm) as (A1 & A2 & _ & _).
    apply mem_false in Hnd.
    assert (HmemL : mem L (m :: done) = mem L done) by (apply mem_cons_other; congruence).
    (* the state of m after its turn: follower watching (idL, t) with a small static count *)
    assert (HT : exists s1,
      turn thr m nofault (y_rec y) (w_srv wm) (w_tick wm + 1) = (y_rec y, s1, false, [ERead m (Some (idL, t))]) /\
      s_id s1 = s_id (w_srv wm) /\ s_role s1 = Follower /\
      exists st, s_cur s1 = Some (mkL idL t st) /\ st <= 1 /\ (mem L done = true -> st = 0)).
    { rewrite Hrec. destruct (s_role (w_srv wm)) eqn:Hrm.
      - (* a follower *)
        assert (HS : exists st, set_leader_info (w_srv wm) idL t = Some (with_cur (w_srv wm) (Some (mkL idL t st))) /\
                                st <= 1 /\ (mem L done = true -> st = 0)).
        { unfold set_leader_info, Gf in *. destruct (s_cur (w_srv wm)) as [c|] eqn:Hc.
          - destruct (N.eqb_spec (l_id c) idL) as [E|E]; cbn [andb negb].
            + destruct (A2 c eq_refl E) as [B1 B2]. rewrite Hnd in B2.
              destruct (N.ltb_spec (l_tick c) t) as [Hlt|Hge].
              * exists 0. rewrite E. split; [reflexivity|]. split; [lia|intros _; reflexivity].
              * assert (Et : l_tick c = t) by lia. rewrite (proj2 (N.eqb_eq _ _) Et).
                specialize (B2 Et). destruct (mem L done); [contradiction|].
                exists (l_static c + 1). rewrite E, Et, B2. split; [reflexivity|]. split; [lia|discriminate].
            + exists 0. split; [reflexivity|]. split; [lia|intros _; reflexivity].
          - exists 0. split; [reflexivity|]. split; [lia|intros _; reflexivity]. }
        destruct HS as (st & Hsli & Hst1 & Hst0).
        eexists. split.
        + apply turn_follower_observe; [exact Hrm|exact Hnz|congruence|exact Hsli|].
          unfold leader_dead. cbn [with_cur s_cur l_static]. apply N.ltb_ge. lia.
        + cbn [with_cur s_id s_role s_cur]. split; [reflexivity|]. split; [exact Hrm|]. exists st. auto.
      - (* a stale leader steps down *)
        eexists. split.
        + apply turn_leader_stepdown; [exact Hrm|congruence].
        + cbn [become_follower s_id s_role s_cur]. split; [reflexivity|]. split; [reflexivity|].
          exists 0. split; [reflexivity|]. split; [lia|intros _; reflexivity]. }
    destruct HT as (s1 & -> & Hid1 & Hr1 & st & Hc1 & Hst1 & Hst0). cbn [fst snd].
    split.
    2:{ intros _ e [<-|[]]. eexists; reflexivity. }
    split; [exact Hnz|]. exists wL, t. cbn [y_ws y_rec].
    split; [rewrite nth_error_upd_other by exact EmL; exact HL|].
    repeat (split; [assumption|]).
    intros f wf Hne Hf. apply nth_error_upd in Hf. destruct Hf as [[E1 E2]|[E1 E2]].
    + subst f wf. cbn [w_srv]. rewrite HmemL, mem_cons_same.
      split; [congruence|]. split.
      * intros c Hc Hic. rewrite Hc1 in Hc. inversion Hc; subst c. cbn [l_tick l_static].
        split; [lia|]. intros _. destruct (mem L done); [apply Hst0; reflexivity|exact Hst1].
      * split; [intros _; exact Hr1|]. intros _. exists (mkL idL t st). auto.
    + destruct (HF f wf Hne E2) as (B1 & B2 & B3 & B4).
      rewrite HmemL, (mem_cons_other f m) by congruence.
      split; [exact B1|]. split; [exact B2|].
      split; (intros [E|E]; [congruence|auto]).
Qed.

(** a stretch of a round *)
Lemma stable_sched thr L idL : forall r done mv ms y,
  1 <= thr -> NoDup r -> (forall x, In x r -> ~ In x done) ->
  stable_inv L idL done mv ms y ->
  stable_inv L idL (rev r ++ done) (rev r ++ mv) (rev r ++ ms) (run_sched thr r y) /\
  (forall e, In e (sched_events thr r y) -> ev_who e <> L -> exists a, e = ERead (ev_who e) a).
Proof.
  induction r as [|m r IH]; intros done mv ms y Hthr Hnd Hdis Hinv.
  - split; [exact Hinv|intros e []].
  - inversion Hnd as [|? ? Hm Hnd']; subst.
    destruct (stable_step thr L idL done mv ms y m Hthr (Hdis m (or_introl eq_refl)) Hinv) as [Hinv' Hev].
    destruct (IH (m :: done) (m :: mv) (m :: ms) (sys_turn thr nofault y m) Hthr Hnd') as [Hinv'' Hev''].
    { intros x Hx [E|E]; [subst x; contradiction|]. eapply Hdis; [right; exact Hx|exact E]. }
    { exact Hinv'. }
    rewrite run_sched_cons, sched_events_cons. cbn [rev]. rewrite <- !app_assoc. cbn [app].
    split; [exact Hinv''|].
    intros e He Hw. apply in_app_or in He. destruct He as [He|He]; [|apply Hev''; assumption].
    destruct (Nat.eq_dec m L) as [E|E].
    + (* the leader's own operations: they are the leader's *)
      exfalso. subst m. apply Hw.
      clear - He. unfold sys_turn_events, sys_turn_at in He.
      destruct (nth_error (y_ws y) L) as [w|]; [|destruct He].
      unfold turn in He.
      assert (HW : forall p n r log evs x, snd (run_prog L nofault n r p log) = evs -> In x evs -> (forall z, In z log -> ev_who z = L) -> ev_who x = L).
      { clear. induction p as [s pn0|k IH|k IH|self old tick k IH|k IH]; intros n r log evs x HR Hx Hlog; cbn [run_prog] in HR.
        - cbn [snd] in HR. subst evs. apply in_rev in Hx. auto.
        - eapply IH; [exact HR|exact Hx|]. intros z [<-|Hz]; [reflexivity|auto].
        - eapply IH; [exact HR|exact Hx|]. intros z [<-|Hz]; [reflexivity|auto].
        - destruct (cas_resp (f_p nofault) r self old tick) as [r1 a].
          eapply IH; [exact HR|exact Hx|]. intros z [<-|Hz]; [reflexivity|auto].
        - eapply IH; [exact HR|exact Hx|]. intros z [<-|Hz]; [reflexivity|auto]. }
      destruct (run_prog L nofault 0 (y_rec y) (turn_prog thr (w_srv w) (w_tick w + 1)) []) as [[[r' s'] pn] evs] eqn:HR.
      cbn [snd] in He. eapply HW; [rewrite HR; reflexivity|exact He|intros z []].
    + destruct (Hev E e He) as (a & ->). cbn [ev_who]. eexists; reflexivity.
Qed.

Lemma stable_rounds thr L idL : forall rs mv ms y,
  1 <= thr -> Forall (fair_round L) rs ->
  stable_inv L idL [] mv ms y ->
  stable_inv L idL [] (rev (concat rs) ++ mv) (rev (concat rs) ++ ms) (run_sched thr (concat rs) y) /\
  (forall e, In e (sched_events thr (concat rs) y) -> ev_who e <> L -> exists a, e = ERead (ev_who e) a).
Proof.
  induction rs as [|r rs IH]; intros mv ms y Hthr Hfair Hinv.
  - split; [exact Hinv|intros e []].
  - inversion Hfair as [|? ? [Hnd HLr] Hfair']; subst.
    destruct (stable_sched thr L idL r [] mv ms y Hthr Hnd (fun _ _ H => H) Hinv) as [H1 E1].
    rewrite app_nil_r in H1.
    apply stable_inv_round_end in H1; [|apply -> in_rev; exact HLr].
    destruct (IH _ _ _ Hthr Hfair' H1) as [H2 E2].
    cbn [concat]. rewrite run_sched_app, sched_events_app, rev_app_distr, <- !app_assoc.
    split; [exact H2|].
    intros e He. apply in_app_or in He. destruct He as [He|He]; auto.
Qed.

Lemma NoDup_app_l {A} (a b : list A) : NoDup (a ++ b) -> NoDup a.
Proof.
  induction a as [|x a IH]; intros H; [constructor|].
  cbn [app] in H. inversion H as [|? ? Hx Hn]; subst. constructor.
  - intros Hin. apply Hx. apply in_or_app. left. exact Hin.
  - apply IH. exact Hn.
Qed.

(** C14 stability *)
Theorem stable thr y L rs r1 r2 :
  1 <= thr -> stable_start y L ->
  Forall (fair_round L) rs -> fair_round L (r1 ++ r2) ->
  let p := concat rs ++ r1 in
  let y' := run_sched thr p y in
  holder (y_rec y') = Some (id_at y L) /\
  is_leader_at y' L = true /\
  (forall f, In f p -> f <> L -> is_leader_at y' f = false /\ static_at y' f <= 1) /\
  (forall e, In e (sched_events thr p y) -> ev_who e <> L -> is_proposal e = false).
Proof.
  intros Hthr Hstart Hfair [Hnd HLr] p y'.
  destruct (stable_start_inv _ _ Hstart) as (idL & Eid & Hinv). rewrite <- Eid.
  destruct (stable_rounds thr L idL rs [] [] y Hthr Hfair Hinv) as [H1 E1].
  rewrite !app_nil_r in H1.
  assert (Hnd1 : NoDup r1) by (eapply NoDup_app_l; exact Hnd).
  destruct (stable_sched thr L idL r1 [] _ _ _ Hthr Hnd1 (fun _ _ H => H) H1) as [H2 E2].
  rewrite app_nil_r in H2. fold (run_sched thr (concat rs ++ r1) y) in H2.
  rewrite <- run_sched_app in H2. fold p in H2. fold y' in H2.
  destruct H2 as (Hnz & wL & t & HL & Hid & Hrole & Hrec & Ht & HF).
  split; [rewrite Hrec; reflexivity|].
  split; [unfold is_leader_at, role_at; rewrite HL, Hrole; reflexivity|].
  split.
  - intros f Hf Hne.
    assert (Hmv : In f (rev r1 ++ rev (concat rs))).
    { unfold p in Hf. apply in_app_or in Hf. apply in_or_app. destruct Hf as [Hf|Hf]; [right|left]; apply -> in_rev; exact Hf. }
    destruct (nth_error (y_ws y') f) as [wf|] eqn:Hwf.
    + destruct (HF f wf Hne Hwf) as (_ & _ & A3 & A4).
      specialize (A3 Hmv). destruct (A4 Hmv) as (c & Hc & _ & Hst).
      unfold is_leader_at, role_at, static_at. rewrite Hwf, A3, Hc. split; [reflexivity|exact Hst].
    + unfold is_leader_at, role_at, static_at. rewrite Hwf. split; [reflexivity|lia].
  - intros e He Hw. unfold p in He. rewrite sched_events_app in He. apply in_app_or in He.
    destruct He as [He|He]; [destruct (E1 e He Hw) as (a & ->)|destruct (E2 e He Hw) as (a & ->)]; reflexivity.
Qed.

(* ================================================================== *)
(** * 5. Takeover: the holder has stopped                              *)

(** whom do we know to be a follower: in the first round those who moved, later everybody *)
Definition known (k : nat) (done A : list nat) : list nat :=
  match k with O => done | S _ => A end.

(** nobody has campaigned yet: after [k] complete rounds (and for the servers in
    [done] one more turn) every active server that has moved is a follower
    watching the dead holder's record with a static count of at least k-1 (k). *)
Definition phase1 (thr : N) (A : list nat) (h t0 : N) (k : nat) (done : list nat) (y : sys) : Prop :=
  consistent y /\ y_rec y = Some (h, t0) /\ incl done A /\
  forall f, In f A ->
    exists wf, nth_error (y_ws y) f = Some wf /\ s_id (w_srv wf) <> h /\
      ((mem f done = true \/ (1 <= k)%nat) ->
       s_role (w_srv wf) = Follower /\
       exists st, s_cur (w_srv wf) = Some (mkL h t0 st) /\ st <= thr /\
                  (if mem f done then N.of_nat k <= st else N.of_nat k <= st + 1)).

Definition J (thr : N) (A : list nat) (h t0 : N) (k : nat) (done : list nat) (y : sys) : Prop :=
  phase1 thr A h t0 k done y \/
  exists W, In W A /\ stable_inv W (id_at y W) done (known k done A) [] y.

Lemma sli_same s h t0 :
  (forall c, s_cur s = Some c -> l_id c = h -> l_tick c <= t0) ->
  exists st', set_leader_info s h t0 = Some (with_cur s (Some (mkL h t0 st'))) /\
              (forall st, s_cur s = Some (mkL h t0 st) -> st' = st + 1).
Proof.
  intros Hle. unfold set_leader_info. destruct (s_cur s) as [c|] eqn:Hc.
  - destruct (N.eqb_spec (l_id c) h) as [E|E]; cbn [andb negb].
    + specialize (Hle c eq_refl E). destruct (N.ltb_spec (l_tick c) t0) as [Hlt|Hge].
      * exists 0. rewrite E. split; [reflexivity|]. intros st Hst. inversion Hst; subst c. cbn in Hlt. lia.
      * assert (Et : l_tick c = t0) by lia. rewrite (proj2 (N.eqb_eq _ _) Et).
        exists (l_static c + 1). rewrite E, Et. split; [reflexivity|].
        intros st Hst. inversion Hst; subst c. reflexivity.
    + exists 0. split; [reflexivity|]. intros st Hst. inversion Hst; subst c. cbn in E. congruence.
  - exists 0. split; [reflexivity|]. intros st Hst. discriminate.
Qed.

Lemma incl_known_cons k m done A : incl (known k (m :: done) A) (m :: known k done A).
Proof. destruct k; cbn [known]; [apply incl_refl|apply incl_tl, incl_refl]. Qed.

Lemma J_step thr A h t0 k done y m :
  1 <= thr -> In m A -> ~ In m done ->
  J thr A h t0 k done y -> J thr A h t0 k (m :: done) (sys_turn thr nofault y m).
Proof.
  intros Hthr HmA Hnd [HP|(W & HWA & HS)].
  2:{ (* already taken over *)
    right. exists W. split; [exact HWA|]. rewrite id_at_sys_turn.
    destruct (stable_step thr W (id_at y W) done _ [] y m Hthr Hnd HS) as [HS' _].
    eapply stable_inv_weaken; [apply incl_known_cons|apply incl_nil_l|exact HS']. }
  destruct HP as (Hcons & Hrec & Hincl & HF).
  assert (Hcons' : consistent (sys_turn thr nofault y m)) by (apply consistent_step; exact Hcons).
  destruct (HF m HmA) as (wm & Hm & Hidm & Hmoved).
  assert (Hmd : mem m done = false) by (apply mem_false; exact Hnd).
  rewrite Hmd in Hmoved.
  destruct Hcons as (Hd & Hnz & Hr0 & H2 & H3 & H4).
  assert (Hh0 : h <> 0) by (eapply Hr0; exact Hrec).
  assert (Hidm' : h <> s_id (w_srv wm)) by congruence.
  rewrite (sys_turn_some _ _ _ _ _ Hm) in Hcons' |- *. rewrite Hrec in Hcons' |- *.
  set (T := w_tick wm + 1) in *.
  (* phase 1 continues when [m] ends its turn as a follower watching (h, t0, st') *)
  assert (HCont : forall s1 st',
     turn thr m nofault (Some (h, t0)) (w_srv wm) T = (Some (h, t0), s1, false, [ERead m (Some (h, t0))]) ->
     s_id s1 = s_id (w_srv wm) -> s_role s1 = Follower -> s_cur s1 = Some (mkL h t0 st') ->
     st' <= thr -> N.of_nat k <= st' ->
     J thr A h t0 k (m :: done)
       (mkSys (fst (fst (fst (turn thr m nofault (Some (h, t0)) (w_srv wm) T))))
              (upd (y_ws y) m (mkW (snd (fst (fst (turn thr m nofault (Some (h, t0)) (w_srv wm) T)))) T)))).
  { intros s1 st' HT Hid1 Hr1 Hc1 Hle1 Hk1. left. rewrite HT in *. cbn [fst snd] in *.
    split; [exact Hcons'|]. split; [reflexivity|].
    split; [intros x [<-|Hx]; [exact HmA|apply Hincl; exact Hx]|].
    intros f HfA. destruct (Nat.eq_dec f m) as [E|E].
    - subst f. exists (mkW s1 T). cbn [y_ws w_srv].
      split; [eapply nth_error_upd_same; exact Hm|]. split; [congruence|].
      intros _. split; [exact Hr1|]. exists st'. rewrite mem_cons_same. auto.
    - destruct (HF f HfA) as (wf & Hf & Hidf & Hmvf). exists wf. cbn [y_ws].
      split; [rewrite nth_error_upd_other by congruence; exact Hf|]. split; [exact Hidf|].
      rewrite (mem_cons_other f m) by exact E. exact Hmvf. }
  (* [m] wins *)
  assert (HWin : forall evs,
     turn thr m nofault (Some (h, t0)) (w_srv wm) T =
       (Some (s_id (w_srv wm), T), mkS (s_id (w_srv wm)) Leader None true, false, evs) ->
     J thr A h t0 k (m :: done)
       (mkSys (fst (fst (fst (turn thr m nofault (Some (h, t0)) (w_srv wm) T))))
              (upd (y_ws y) m (mkW (snd (fst (fst (turn thr m nofault (Some (h, t0)) (w_srv wm) T)))) T)))).
  { intros evs HT. right. exists m. split; [exact HmA|]. rewrite HT in *. cbn [fst snd] in *.
    unfold id_at. cbn [y_ws]. rewrite (nth_error_upd_same _ _ _ _ Hm). cbn [w_srv s_id].
    split; [eapply Hnz; exact Hm|].
    exists (mkW (mkS (s_id (w_srv wm)) Leader None true) T), T. cbn [y_ws y_rec w_srv w_tick s_id s_role].
    split; [eapply nth_error_upd_same; exact Hm|].
    split; [reflexivity|]. split; [reflexivity|]. split; [reflexivity|]. split; [lia|].
    intros f wf Hne Hf. rewrite nth_error_upd_other in Hf by congruence.
    split; [intros E; apply Hne; eapply Hd; [exact Hf|exact Hm|exact E]|].
    split.
    - intros c Hc Hic.
      assert (l_tick c <= w_tick wm) by (eapply H3; [exact Hf|exact Hc|exact Hm|exact Hic]).
      split; [lia|]. intros E. lia.
    - split; [|intros []].
      intros Hkn.
      assert (HfA : In f A /\ (mem f done = true \/ (1 <= k)%nat)).
      { destruct k; cbn [known] in Hkn.
        - destruct Hkn as [E|Hkn]; [congruence|].
          split; [apply Hincl; exact Hkn|left; apply mem_In; exact Hkn].
        - split; [exact Hkn|right; lia]. }
      destruct HfA as [HfA Hmvf]. destruct (HF f HfA) as (wf' & Hf' & _ & Hcl).
      rewrite Hf in Hf'. inversion Hf'; subst wf'. apply Hcl. exact Hmvf. }
  destruct (s_role (w_srv wm)) eqn:Hrm.
  - (* a follower looks at the dead holder's record once more *)
    destruct (sli_same (w_srv wm) h t0) as (st' & Hsli & Hst').
    { intros c Hc Hic. eapply H4; [exact Hm|exact Hc|rewrite Hic; exact Hrec]. }
    destruct (thr <? st') eqn:Hdead.
    + destruct (turn_follower_campaign thr m (w_srv wm) h t0 T _ Hrm Hh0 Hidm' Hsli Hdead) as (evs & HT).
      eapply HWin; exact HT.
    + apply N.ltb_ge in Hdead.
      eapply (HCont _ st'); [apply turn_follower_observe; [exact Hrm|exact Hh0|exact Hidm'|exact Hsli|]|..];
        try reflexivity.
      * unfold leader_dead. cbn [with_cur s_cur l_static]. apply N.ltb_ge. exact Hdead.
      * exact Hrm.
      * exact Hdead.
      * destruct k as [|k']; [lia|].
        destruct Hmoved as (_ & st & Hc & _ & Hk); [right; lia|].
        rewrite (Hst' st Hc). lia.
  - (* a stale leader steps down *)
    assert (Hk0 : k = O).
    { destruct k as [|k']; [reflexivity|]. destruct Hmoved as (Hf & _); [right; lia|]. congruence. }
    eapply (HCont _ 0); [apply turn_leader_stepdown; [exact Hrm|exact Hidm']|..]; try reflexivity; subst k; lia.
Qed.

Lemma J_round thr A h t0 k done y :
  (forall f, In f A -> In f done) ->
  J thr A h t0 k done y -> J thr A h t0 (S k) [] y.
Proof.
  intros Hall [HP|(W & HWA & HS)].
  - left. destruct HP as (Hcons & Hrec & Hincl & HF).
    split; [exact Hcons|]. split; [exact Hrec|]. split; [intros x []|].
    intros f HfA. destruct (HF f HfA) as (wf & Hf & Hidf & Hcl).
    exists wf. split; [exact Hf|]. split; [exact Hidf|]. intros _.
    assert (Hmd : mem f done = true) by (apply mem_In, Hall, HfA).
    rewrite Hmd in Hcl. destruct Hcl as (Hr & st & Hc & Hle & Hk); [left; reflexivity|].
    split; [exact Hr|]. exists st. cbn [mem existsb]. repeat (split; [assumption|]). lia.
  - right. exists W. split; [exact HWA|].
    apply stable_inv_round_end in HS; [|apply Hall; exact HWA].
    eapply stable_inv_weaken; [|apply incl_refl|exact HS].
    destruct k; cbn [known]; [exact Hall|apply incl_refl].
Qed.

Lemma J_sched thr A h t0 k : forall r done y,
  1 <= thr -> NoDup r -> incl r A -> (forall x, In x r -> ~ In x done) ->
  J thr A h t0 k done y -> J thr A h t0 k (rev r ++ done) (run_sched thr r y).
Proof.
  induction r as [|m r IH]; intros done y Hthr Hnd Hincl Hdis HJ; [exact HJ|].
  inversion Hnd as [|? ? Hm Hnd']; subst.
  rewrite run_sched_cons. cbn [rev]. rewrite <- app_assoc. cbn [app].
  apply IH; [exact Hthr|exact Hnd'|intros x Hx; apply Hincl; right; exact Hx| |].
  - intros x Hx [E|E]; [subst x; contradiction|]. eapply Hdis; [right; exact Hx|exact E].
  - apply J_step; [exact Hthr|apply Hincl; left; reflexivity|apply Hdis; left; reflexivity|exact HJ].
Qed.

Lemma J_rounds thr A h t0 : forall rs k y,
  1 <= thr -> NoDup A -> Forall (full_round A) rs ->
  J thr A h t0 k [] y -> J thr A h t0 (k + length rs) [] (run_sched thr (concat rs) y).
Proof.
  induction rs as [|r rs IH]; intros k y Hthr HndA Hfull HJ.
  - cbn [length concat]. rewrite Nat.add_0_r. exact HJ.
  - inversion Hfull as [|? ? Hr Hfull']; subst. unfold full_round in Hr.
    cbn [concat length]. rewrite run_sched_app, Nat.add_succ_r, <- Nat.add_succ_l.
    apply IH; [exact Hthr|exact HndA|exact Hfull'|].
    apply (J_round thr A h t0 k (rev r)).
    + intros f Hf. apply -> in_rev. eapply Permutation_in; [apply Permutation_sym; exact Hr|exact Hf].
    + rewrite <- (app_nil_r (rev r)). apply J_sched; [exact Hthr| | | |exact HJ].
      * eapply Permutation_NoDup; [apply Permutation_sym; exact Hr|exact HndA].
      * intros x Hx. eapply Permutation_in; [exact Hr|exact Hx].
      * intros x _ [].
Qed.

Lemma full_round_fair A W r : NoDup A -> In W A -> full_round A r -> fair_round W r.
Proof.
  intros Hnd HW Hr. unfold full_round in Hr. split.
  - eapply Permutation_NoDup; [apply Permutation_sym; exact Hr|exact Hnd].
  - eapply Permutation_in; [apply Permutation_sym; exact Hr|exact HW].
Qed.

(** C14 takeover *)
Theorem takeover thr y A h t0 rs1 :
  1 <= thr -> consistent y ->
  A <> [] -> NoDup A -> (forall f, In f A -> (f < length (y_ws y))%nat) ->
  y_rec y = Some (h, t0) -> (forall f, In f A -> id_at y f <> h) ->
  Forall (full_round A) rs1 -> N.of_nat (length rs1) = thr + 2 ->
  exists W, In W A /\
    forall rs2 r1 r2, Forall (full_round A) rs2 -> full_round A (r1 ++ r2) ->
      let y' := run_sched thr r1 (run_rounds thr rs2 (run_rounds thr rs1 y)) in
      holder (y_rec y') = Some (id_at y W) /\
      forall f, In f A -> is_leader_at y' f = Nat.eqb f W.
Proof.
  intros Hthr Hcons HA HndA Hlen Hrec Hids Hfull1 Hlen1.
  assert (HJ0 : J thr A h t0 0 [] y).
  { left. split; [exact Hcons|]. split; [exact Hrec|]. split; [intros x []|].
    intros f HfA. specialize (Hlen f HfA). apply nth_error_Some in Hlen.
    destruct (nth_error (y_ws y) f) as [wf|] eqn:Hf; [|congruence].
    exists wf. split; [reflexivity|]. split.
    - specialize (Hids f HfA). unfold id_at in Hids. rewrite Hf in Hids. exact Hids.
    - cbn [mem existsb]. intros [E|E]; [discriminate|lia]. }
  pose proof (J_rounds thr A h t0 rs1 0 y Hthr HndA Hfull1 HJ0) as HJ1.
  rewrite <- run_rounds_concat in HJ1. cbn [Nat.add] in HJ1.
  set (y1 := run_rounds thr rs1 y) in *.
  assert (HS1 : exists W, In W A /\ stable_inv W (id_at y W) [] A [] y1).
  { destruct HJ1 as [HP|(W & HWA & HS)].
    - exfalso. destruct HP as (_ & _ & _ & HF).
      destruct A as [|f A']; [congruence|].
      destruct (HF f (or_introl eq_refl)) as (wf & _ & _ & Hcl).
      destruct Hcl as (_ & st & _ & Hle & Hk); [right; lia|]. cbn [mem existsb] in Hk. lia.
    - exists W. split; [exact HWA|].
      unfold y1 in HS at 1. rewrite run_rounds_concat, id_at_run_sched in HS.
      destruct (length rs1) as [|n]; [lia|]. exact HS. }
  destruct HS1 as (W & HWA & HS). exists W. split; [exact HWA|].
  intros rs2 r1 r2 Hfull2 Hfull12 y'.
  assert (Hfair2 : Forall (fair_round W) rs2).
  { eapply Forall_impl; [|exact Hfull2]. intros r Hr. eapply full_round_fair; eassumption. }
  destruct (stable_rounds thr W (id_at y W) rs2 A [] y1 Hthr Hfair2 HS) as [H2 _].
  rewrite <- run_rounds_concat in H2.
  destruct (full_round_fair A W _ HndA HWA Hfull12) as [Hnd12 _].
  destruct (stable_sched thr W (id_at y W) r1 [] _ _ _ Hthr (NoDup_app_l _ _ Hnd12) (fun _ _ H => H) H2) as [H3 _].
  fold y' in H3.
  destruct H3 as (Hnz & wL & t & HL & Hid & Hrole & Hrec' & Ht & HF).
  split; [rewrite Hrec'; reflexivity|].
  intros f HfA. destruct (Nat.eqb_spec f W) as [E|E].
  - subst f. unfold is_leader_at, role_at. rewrite HL, Hrole. reflexivity.
  - unfold is_leader_at, role_at. destruct (nth_error (y_ws y') f) as [wf|] eqn:Hf; [|reflexivity].
    destruct (HF f wf E Hf) as (_ & _ & A3 & _). rewrite A3; [reflexivity|].
    apply in_or_app. right. apply in_or_app. right. exact HfA.
Qed.

(* ================================================================== *)
(** * 6. The turn-level model and the answer-fed programs agree          *)


Lemma cas_event_resp who f r self old tick :
  resp_of (cas_event who f r self old tick) = RCas (snd (cas_resp f r self old tick)).
Proof.
  unfold cas_event, cas_resp, resp_of. destruct f; try reflexivity.
  destruct (cas r self old tick) as [r' c]. reflexivity.
Qed.

Lemma run_prog_feed p : forall who fl n r log r' s' pn evs,
  run_prog who fl n r p log = (r', s', pn, evs) ->
  exists evs', evs = rev log ++ evs' /\ feed p (map resp_of evs') = Some (s', pn) /\
               Forall (fun e => ev_who e = who) evs'.
Proof.
  induction p as [s pn0|k IH|k IH|self old tick k IH|k IH]; intros who fl n r log r' s' pn evs HR; cbn [run_prog] in HR.
  - inversion HR; subst. exists []. rewrite app_nil_r. repeat split. constructor.
  - apply IH in HR. destruct HR as (evs' & -> & Hf & Hw). cbn [rev]. rewrite <- app_assoc. cbn [app].
    eexists. split; [reflexivity|]. cbn [map resp_of feed]. split; [exact Hf|constructor; [reflexivity|exact Hw]].
  - apply IH in HR. destruct HR as (evs' & -> & Hf & Hw). cbn [rev]. rewrite <- app_assoc. cbn [app].
    eexists. split; [reflexivity|]. cbn [map resp_of feed]. split; [exact Hf|constructor; [reflexivity|exact Hw]].
  - pose proof (cas_event_resp who (f_p fl) r self old tick) as HE.
    destruct (cas_resp (f_p fl) r self old tick) as [r1 a]. cbn [snd] in HE.
    apply IH in HR. destruct HR as (evs' & -> & Hf & Hw). cbn [rev]. rewrite <- app_assoc. cbn [app].
    eexists. split; [reflexivity|]. cbn [map feed]. rewrite HE. cbn [feed].
    split; [exact Hf|constructor; [reflexivity|exact Hw]].
  - apply IH in HR. destruct HR as (evs' & -> & Hf & Hw). cbn [rev]. rewrite <- app_assoc. cbn [app].
    eexists. split; [reflexivity|]. cbn [map resp_of feed]. split; [exact Hf|constructor; [reflexivity|exact Hw]].
Qed.

Lemma turn_feed thr who fl r s tick r' s' pn evs :
  turn thr who fl r s tick = (r', s', pn, evs) ->
  feed (turn_prog thr s tick) (map resp_of evs) = Some (s', pn) /\ Forall (fun e => ev_who e = who) evs.
Proof.
  unfold turn. intros HR. apply run_prog_feed in HR. destruct HR as (evs' & -> & Hf & Hw). auto.
Qed.

(** holder-only, on the turn function used by the correspondence check (any faults) *)
Theorem holder_only_turn thr who fl r s tick r' s' pn evs :
  turn thr who fl r s tick = (r', s', pn, evs) -> s_role s' = Leader ->
  exists t, In (ERead who (Some (s_id s, t))) evs.
Proof.
  intros HT HL. apply turn_feed in HT. destruct HT as [Hf Hw].
  destruct (holder_only _ _ _ _ _ _ Hf HL) as [(t & Hin) _].
  exists t. apply in_map_iff in Hin. destruct Hin as (e & He & Hin).
  rewrite Forall_forall in Hw. specialize (Hw e Hin).
  destruct e as [w a|w ok|w self old tk before applied res rep|w]; cbn [resp_of] in He; try discriminate.
  inversion He; subst a. cbn [ev_who] in Hw. subst w. exact Hin.
Qed.

(** step-down, on the turn function (any faults after the first lookup are irrelevant:
    there is no further operation) *)
Theorem step_down_turn thr who fl r s tick r' s' pn evs :
  s_role s = Leader ->
  turn thr who fl r s tick = (r', s', pn, evs) ->
  (f_r1 fl <> FOk \/ fst (lookup r) <> s_id s) ->
  s_role s' = Follower /\ r' = r /\ evs = [ERead who (read_resp (f_r1 fl) r)].
Proof.
  intros Hrole HT Hbad. unfold turn, turn_prog in HT. rewrite Hrole in HT. unfold leader_main in HT.
  cbn [run_prog] in HT.
  assert (HA : read_resp (f_r1 fl) r = None \/
               exists h t, read_resp (f_r1 fl) r = Some (h, t) /\ h <> s_id s).
  { unfold read_resp. destruct Hbad as [Hb|Hb].
    - destruct (f_r1 fl); [congruence|left; reflexivity|left; reflexivity].
    - destruct (f_r1 fl); [|left; reflexivity|left; reflexivity].
      right. destruct (lookup r) as [h t]. exists h, t. auto. }
  destruct HA as [HA|(h & t & HA & Hne)]; rewrite HA in HT |- *.
  - cbn [run_prog rev app] in HT. inversion HT; subst.
    split; [reflexivity|]. split; reflexivity.
  - rewrite (neqb_false _ _ Hne) in HT. cbn [negb run_prog rev app] in HT. inversion HT; subst.
    split; [reflexivity|]. split; reflexivity.
Qed.

(* ================================================================== *)
(** * 7. The first election                                            *)

Lemma first_election thr ids m :
  NoDup ids -> ~ In 0 ids -> (m < length ids)%nat ->
  stable_start (sys_turn thr nofault (new_sys ids) m) m.
Proof.
  intros Hnd Hnz Hlen. apply nth_error_Some in Hlen.
  destruct (nth_error ids m) as [id|] eqn:Hid; [|congruence]. clear Hlen.
  assert (Hm : nth_error (y_ws (new_sys ids)) m = Some (mkW (new_server id) 0)).
  { unfold new_sys. cbn [y_ws]. rewrite nth_error_map, Hid. reflexivity. }
  assert (Hid0 : id <> 0) by (intros E; subst id; apply Hnz; eapply nth_error_In; exact Hid).
  rewrite (sys_turn_some _ _ _ _ _ Hm).
  assert (HT : turn thr m nofault None (new_server id) (0 + 1) =
               (Some (id, 0 + 1), mkS id Leader None true, false,
                [ERead m (Some (0, 0)); ESess m true; ECas m id 0 (0 + 1) None true Updated true;
                 ERead m (Some (id, 0 + 1))])).
  { unfold turn, turn_prog, new_server, follower_main, campaign, get_session.
    cbn [s_role s_cur s_id s_sess with_sess run_prog nofault f_r1 f_s f_p f_r2 read_resp sess_resp lookup].
    replace (0 =? 0) with true by reflexivity.
    cbn [s_role s_cur s_id s_sess with_sess run_prog nofault f_r1 f_s f_p f_r2 read_resp sess_resp lookup cas_resp cas cas_event snd].
    rewrite N.eqb_refl. reflexivity. }
  cbn [y_rec new_sys w_srv w_tick] in *. rewrite HT. cbn [fst snd].
  exists (mkW (mkS id Leader None true) (0 + 1)), (0 + 1). cbn [y_ws y_rec w_srv w_tick s_id s_role].
  split; [eapply nth_error_upd_same; exact Hm|].
  split; [reflexivity|]. split; [exact Hid0|]. split; [reflexivity|]. split; [lia|].
  intros f wf Hne Hf. rewrite nth_error_upd_other in Hf by congruence.
  unfold new_sys in Hf. cbn [y_ws] in Hf. rewrite nth_error_map in Hf.
  destruct (nth_error ids f) as [idf|] eqn:Hidf; [|discriminate]. inversion Hf; subst wf.
  cbn [w_srv new_server s_id s_cur]. split.
  - intros E. subst idf. apply Hne. eapply NoDup_nth_error_inj; eassumption.
  - intros c Hc. discriminate.
Qed.

(** takeover from any state reachable by turns with arbitrary faults *)
Theorem takeover_reachable thr ids sched A h t0 rs1 :
  NoDup ids -> ~ In 0 ids ->
  let y := run_faulty thr sched (new_sys ids) in
  1 <= thr ->
  A <> [] -> NoDup A -> (forall f, In f A -> (f < length (y_ws y))%nat) ->
  y_rec y = Some (h, t0) -> (forall f, In f A -> id_at y f <> h) ->
  Forall (full_round A) rs1 -> N.of_nat (length rs1) = thr + 2 ->
  exists W, In W A /\
    forall rs2 r1 r2, Forall (full_round A) rs2 -> full_round A (r1 ++ r2) ->
      let y' := run_sched thr r1 (run_rounds thr rs2 (run_rounds thr rs1 y)) in
      holder (y_rec y') = Some (id_at y W) /\
      forall f, In f A -> is_leader_at y' f = Nat.eqb f W.
Proof.
  intros Hnd Hnz y Hthr. apply takeover; [exact Hthr|].
  apply consistent_reachable; assumption.
Qed.

(* ================================================================== *)
(** * 8. The correspondence's turn function without interference is [turn] *)

Lemma run_prog_x_none p : forall who fl n r log,
  run_prog_x who fl None None n r p log = run_prog who fl n r p log.
Proof.
  induction p as [s pn0|k IH|k IH|self old tick k IH|k IH]; intros who fl n r log; cbn [run_prog run_prog_x interfere].
  - reflexivity.
  - destruct n; apply IH.
  - apply IH.
  - destruct (cas_resp (f_p fl) r self old tick) as [r1 a]. apply IH.
  - apply IH.
Qed.

Theorem turn_x_none thr who fl r s tick :
  turn_x thr who fl None None r s tick = turn thr who fl r s tick.
Proof. apply run_prog_x_none. Qed.

Theorem sys_turn_at_x_none thr i tick fl y :
  sys_turn_at_x thr i tick fl None None y = sys_turn_at thr i tick fl y.
Proof.
  unfold sys_turn_at_x, sys_turn_at. destruct (nth_error (y_ws y) i) as [w|]; [|reflexivity].
  rewrite turn_x_none. reflexivity.
Qed.

(** a turn with interference is a turn-level view of an operation-level
    execution: the record it leaves is what replaying its events, preceded by
    the foreign writes, gives; in particular every event is consistent with the
    CAS rule on the record it met ([ev_ok]) *)
Lemma run_prog_x_events_ok p : forall who fl wp wr n r log r' s' pn evs,
  run_prog_x who fl wp wr n r p log = (r', s', pn, evs) ->
  exists evs', evs = rev log ++ evs' /\
    Forall (fun e => match e with
                     | ECas _ self old tick before _ res _ => res = snd (cas before self old tick)
                     | _ => True
                     end) evs'.
Proof.
  induction p as [s pn0|k IH|k IH|self old tick k IH|k IH]; intros who fl wp wr n r log r' s' pn evs HR; cbn [run_prog_x] in HR.
  - inversion HR; subst. exists []. rewrite app_nil_r. split; [reflexivity|constructor].
  - apply IH in HR. destruct HR as (evs' & -> & Hf). cbn [rev]. rewrite <- app_assoc. cbn [app].
    eexists. split; [reflexivity|]. constructor; [exact I|exact Hf].
  - apply IH in HR. destruct HR as (evs' & -> & Hf). cbn [rev]. rewrite <- app_assoc. cbn [app].
    eexists. split; [reflexivity|]. constructor; [exact I|exact Hf].
  - destruct (cas_resp (f_p fl) (interfere wp r) self old tick) as [r1 a].
    apply IH in HR. destruct HR as (evs' & -> & Hf). cbn [rev]. rewrite <- app_assoc. cbn [app].
    eexists. split; [reflexivity|]. constructor; [reflexivity|exact Hf].
  - apply IH in HR. destruct HR as (evs' & -> & Hf). cbn [rev]. rewrite <- app_assoc. cbn [app].
    eexists. split; [reflexivity|]. constructor; [exact I|exact Hf].
Qed.

(* ================================================================== *)
(** * 9. Operation-granularity executions feed turn programs             *)

(** what is left of a program after some answers *)
Fixpoint residual (p : prog) (rs : list resp) {struct rs} : option prog :=
  match rs with
  | [] => Some p
  | x :: rs' =>
      match p, x with
      | PRead k, RRead a => residual (k a) rs'
      | PSess k, RSess ok => residual (k ok) rs'
      | PCas _ _ _ k, RCas c => residual (k c) rs'
      | PClose k, RClose => residual k rs'
      | _, _ => None
      end
  end.

Lemma residual_app p : forall rs1 rs2 q,
  residual p rs1 = Some q -> residual p (rs1 ++ rs2) = residual q rs2.
Proof.
  intros rs1. revert p. induction rs1 as [|x rs1 IH]; intros p rs2 q H; cbn [residual app] in *.
  - inversion H. reflexivity.
  - destruct p as [s pn|k|k|self old tick k|k]; destruct x as [a|ok|c|]; try discriminate; apply IH; exact H.
Qed.

Lemma residual_done_feed p : forall rs s pn, residual p rs = Some (PDone s pn) -> feed p rs = Some (s, pn).
Proof.
  intros rs. revert p. induction rs as [|x rs IH]; intros p s pn H; cbn [residual] in H.
  - inversion H. reflexivity.
  - destruct p as [s0 pn0|k|k|self old tick k|k]; destruct x as [a|ok|c|]; try discriminate; cbn [feed]; apply IH; exact H.
Qed.

(** every server that is inside a turn is executing what is left of
    [turn_prog] of its pre-turn state after the answers it has received *)
Definition turns_ok (thr : N) (y : ocfg) : Prop :=
  forall i s p, nth_error (oc_pool y) i = Some (mkO s (Some p)) ->
    exists tick rs, residual (turn_prog thr s tick) rs = Some p /\
                    match p with PDone _ _ => False | _ => True end.

Lemma turn_prog_not_done thr s tick : match turn_prog thr s tick with PDone _ _ => False | _ => True end.
Proof. unfold turn_prog, leader_main, follower_main. destruct (s_role s); exact I. Qed.

Lemma settle_cases p old :
  (exists s pn, p = PDone s pn /\ settle p old = mkO s None) \/
  (match p with PDone _ _ => False | _ => True end /\ settle p old = mkO old (Some p)).
Proof. destruct p; cbn [settle]; eauto. Qed.

(** one operation: the invariant is kept, and a turn that ends has been fed *)
Lemma ostep_turns_ok thr c y :
  turns_ok thr y ->
  turns_ok thr (fst (ostep thr c y)) /\
  (forall i s p s', nth_error (oc_pool y) i = Some (mkO s (Some p)) ->
     nth_error (oc_pool (fst (ostep thr c y))) i = Some (mkO s' None) ->
     exists tick rs pn, feed (turn_prog thr s tick) rs = Some (s', pn)).
Proof.
  intros HI.
  (* generic update of entry j with the settled continuation q of a server whose program was p *)
  assert (HU : forall j s p q r',
     nth_error (oc_pool y) j = Some (mkO s (Some p)) ->
     (forall tick rs, residual (turn_prog thr s tick) rs = Some p -> exists x, residual (turn_prog thr s tick) (rs ++ [x]) = Some q) ->
     turns_ok thr (mkOC r' (upd (oc_pool y) j (settle q s))) /\
     (forall i s0 p0 s', nth_error (oc_pool y) i = Some (mkO s0 (Some p0)) ->
        nth_error (upd (oc_pool y) j (settle q s)) i = Some (mkO s' None) ->
        exists tick rs pn, feed (turn_prog thr s0 tick) rs = Some (s', pn))).
  { intros j s p q r' Hj Hq.
    destruct (HI _ _ _ Hj) as (tick & rs & Hres & _).
    destruct (Hq tick rs Hres) as (x & Hres').
    split.
    - intros i s0 p0 Hi. cbn [oc_pool] in Hi. apply nth_error_upd in Hi. destruct Hi as [[E1 E2]|[E1 E2]].
      + subst i. destruct (settle_cases q s) as [(s1 & pn & Eq & Es)|[Hnd Es]]; rewrite Es in E2; inversion E2; subst.
        exists tick, (rs ++ [x]). split; [exact Hres'|exact Hnd].
      + eapply HI. exact E2.
    - intros i s0 p0 s' Hi Hi'. apply nth_error_upd in Hi'. destruct Hi' as [[E1 E2]|[E1 E2]].
      + subst i. rewrite Hj in Hi. inversion Hi; subst s0 p0.
        destruct (settle_cases q s) as [(s1 & pn & Eq & Es)|[Hnd Es]]; rewrite Es in E2; inversion E2; subst.
        exists tick, (rs ++ [x]), pn. apply residual_done_feed. exact Hres'.
      + rewrite Hi in E2. discriminate. }
  destruct c as [i tick|i f]; cbn [ostep].
  - destruct (nth_error (oc_pool y) i) as [[s [p|]]|] eqn:Hi; cbn [fst]; try (split; [exact HI|intros i0 s0 p0 s' H1 H2; rewrite H1 in H2; discriminate]).
    split.
    + intros j s0 p0 Hj. cbn [oc_pool] in Hj. apply nth_error_upd in Hj. destruct Hj as [[E1 E2]|[E1 E2]].
      * subst j. pose proof (turn_prog_not_done thr s tick) as Hnd.
        destruct (settle_cases (turn_prog thr s tick) s) as [(s1 & pn & Eq & Es)|[_ Es]].
        -- rewrite Eq in Hnd. contradiction.
        -- rewrite Es in E2. inversion E2; subst. exists tick, []. split; [reflexivity|exact Hnd].
      * eapply HI. exact E2.
    + intros j s0 p0 s' Hj Hj'. cbn [oc_pool] in Hj'. apply nth_error_upd in Hj'. destruct Hj' as [[E1 E2]|[E1 E2]].
      * subst j. rewrite Hi in Hj. discriminate.
      * rewrite Hj in E2. discriminate.
  - destruct (nth_error (oc_pool y) i) as [[s [p|]]|] eqn:Hi; cbn [fst]; try (split; [exact HI|intros i0 s0 p0 s' H1 H2; rewrite H1 in H2; discriminate]).
    destruct p as [s1 pn|k|k|self old tick k|k].
    + exfalso. destruct (HI _ _ _ Hi) as (_ & _ & _ & Hnd). exact Hnd.
    + cbn [fst oc_pool]. apply (HU i s (PRead k)); [exact Hi|].
      intros tick rs Hres. eexists (RRead _). rewrite (residual_app _ _ _ _ Hres). reflexivity.
    + cbn [fst oc_pool]. apply (HU i s (PSess k)); [exact Hi|].
      intros tick rs Hres. eexists (RSess _). rewrite (residual_app _ _ _ _ Hres). reflexivity.
    + destruct (cas_resp f (oc_rec y) self old tick) as [r' a]. cbn [fst oc_pool].
      apply (HU i s (PCas self old tick k)); [exact Hi|].
      intros tick0 rs Hres. eexists (RCas _). rewrite (residual_app _ _ _ _ Hres). reflexivity.
    + cbn [fst oc_pool]. apply (HU i s (PClose k)); [exact Hi|].
      intros tick rs Hres. exists RClose. rewrite (residual_app _ _ _ _ Hres). reflexivity.
Qed.

Lemma turns_ok_new thr ids : turns_ok thr (new_ocfg ids).
Proof.
  intros i s p H. unfold new_ocfg in H. cbn [oc_pool] in H. rewrite nth_error_map in H.
  destruct (nth_error ids i); cbn in H; [inversion H|discriminate].
Qed.

Lemma turns_ok_oexec thr cs : forall y, turns_ok thr y -> turns_ok thr (oexec thr cs y).
Proof.
  induction cs as [|c cs IH]; intros y Hy; cbn [oexec]; [exact Hy|].
  apply IH. apply ostep_turns_ok. exact Hy.
Qed.

(** holder-only in an arbitrary operation-granularity execution from fresh
    managers: whenever an operation completes a turn of server [i] and leaves it
    leader, the answers that turn received contain a lookup answer naming [i]'s
    own instance id (and the id did not change) *)
Theorem o_holder_only thr ids cs c i s p s' :
  let y := oexec thr cs (new_ocfg ids) in
  nth_error (oc_pool y) i = Some (mkO s (Some p)) ->
  nth_error (oc_pool (fst (ostep thr c y))) i = Some (mkO s' None) ->
  s_role s' = Leader ->
  exists tick rs pn, feed (turn_prog thr s tick) rs = Some (s', pn) /\ read_own (s_id s) rs /\ s_id s' = s_id s.
Proof.
  intros y Hi Hi' HL.
  assert (HI : turns_ok thr y) by (apply turns_ok_oexec, turns_ok_new).
  destruct (ostep_turns_ok thr c y HI) as [_ HE].
  destruct (HE _ _ _ _ Hi Hi') as (tick & rs & pn & Hf).
  exists tick, rs, pn. split; [exact Hf|]. eapply holder_only; eassumption.
Qed.

(** step-down at operation granularity: a leader that has started its turn and
    whose lookup fails or names somebody else is a follower, between turns, right
    after that lookup; the record is untouched *)
Theorem o_step_down thr y i s tick f :
  nth_error (oc_pool y) i = Some (mkO s (Some (turn_prog thr s tick))) ->
  s_role s = Leader ->
  (f <> FOk \/ fst (lookup (oc_rec y)) <> s_id s) ->
  exists s', nth_error (oc_pool (fst (ostep thr (COp i f) y))) i = Some (mkO s' None) /\
             s_role s' = Follower /\ s_id s' = s_id s /\ oc_rec (fst (ostep thr (COp i f) y)) = oc_rec y.
Proof.
  intros Hi Hrole Hbad. cbn [ostep]. rewrite Hi. unfold turn_prog. rewrite Hrole. unfold leader_main.
  cbn [fst oc_pool oc_rec].
  assert (HA : read_resp f (oc_rec y) = None \/
               exists h t, read_resp f (oc_rec y) = Some (h, t) /\ h <> s_id s).
  { unfold read_resp. destruct Hbad as [Hb|Hb].
    - destruct f; [congruence|left; reflexivity|left; reflexivity].
    - destruct f; [|left; reflexivity|left; reflexivity].
      right. destruct (lookup (oc_rec y)) as [h t]. exists h, t. auto. }
  destruct HA as [HA|(h & t & HA & Hne)]; rewrite HA.
  - cbn [settle]. eexists. split; [eapply nth_error_upd_same; exact Hi|]. cbn. auto.
  - rewrite (neqb_false _ _ Hne). cbn [negb settle].
    eexists. split; [eapply nth_error_upd_same; exact Hi|]. cbn. auto.
Qed.
