(** RegisterProofs: facts about the definitions of theories/Register.v
    (well-formedness, real-time order, linearizations, renaming of ids).
    Used by C06 (WGLProofs) and available to C07. *)
From Coq Require Import List ZArith NArith Bool Permutation Lia.
From Drummer.Model Require Import Register.
Import ListNotations.

(** * Lists *)

Lemma mem_id_In : forall x l, mem_id x l = true <-> In x l.
Proof.
  intros x l. unfold mem_id. rewrite existsb_exists. split.
  - intros [y [Hy He]]. apply N.eqb_eq in He. subst y. exact Hy.
  - intros Hx. exists x. split; [exact Hx | apply N.eqb_refl].
Qed.

Lemma mem_id_false : forall x l, mem_id x l = false <-> ~ In x l.
Proof.
  intros x l. rewrite <- mem_id_In. destruct (mem_id x l); split; intro H.
  - discriminate H.
  - exfalso. apply H. reflexivity.
  - intro H'. discriminate H'.
  - reflexivity.
Qed.

Lemma nodupb_NoDup : forall l, nodupb l = true <-> NoDup l.
Proof.
  induction l as [|a l IH]; simpl.
  - split; intros _; [constructor | reflexivity].
  - rewrite andb_true_iff, negb_true_iff, IH, mem_id_false. split.
    + intros [H1 H2]. constructor; assumption.
    + intros H. inversion H; subst. split; assumption.
Qed.

Lemma filter_split {A} (p : A -> bool) : forall l h1 x h2,
  filter p l = h1 ++ x :: h2 ->
  exists l1 l2, l = l1 ++ x :: l2 /\ filter p l1 = h1 /\ filter p l2 = h2.
Proof.
  induction l as [|z l IH]; intros h1 x h2 H; simpl in H.
  - destruct h1; discriminate H.
  - destruct (p z) eqn:Hz.
    + destruct h1 as [|a h1]; simpl in H; injection H as H0 H1.
      * subst z. exists [], l. simpl. repeat split. exact H1.
      * subst a. destruct (IH _ _ _ H1) as [l1 [l2 [E [F1 F2]]]].
        exists (z :: l1), l2. simpl. rewrite Hz. subst l. repeat split; congruence.
    + destruct (IH _ _ _ H) as [l1 [l2 [E [F1 F2]]]].
      exists (z :: l1), l2. simpl. rewrite Hz. subst l. repeat split; assumption.
Qed.

Lemma filter_len_le {A} (p : A -> bool) : forall l, length (filter p l) <= length l.
Proof.
  induction l as [|z l IH]; simpl; [lia|]. destruct (p z); simpl; lia.
Qed.

Lemma filter_length_lt {A} (p : A -> bool) : forall l x,
  In x l -> p x = false -> length (filter p l) < length l.
Proof.
  induction l as [|z l IH]; intros x Hin Hp; simpl in *.
  - contradiction.
  - destruct Hin as [E | Hin].
    + subst z. rewrite Hp. pose proof (filter_len_le p l). lia.
    + specialize (IH x Hin Hp). destruct (p z); simpl; lia.
Qed.

Lemma filter_filter {A} (p q : A -> bool) : forall l,
  filter p (filter q l) = filter (fun x => q x && p x) l.
Proof.
  induction l as [|z l IH]; simpl; [reflexivity|].
  destruct (q z); simpl; [destruct (p z)|]; rewrite IH; reflexivity.
Qed.

Lemma NoDup_map_on {A B} (f : A -> B) : forall l,
  (forall a b, In a l -> In b l -> f a = f b -> a = b) -> NoDup l -> NoDup (map f l).
Proof.
  induction l as [|x l IH]; intros Hinj Hnd; simpl.
  - constructor.
  - inversion Hnd as [|? ? Hx Hl]; subst. constructor.
    + intro Hin. apply in_map_iff in Hin. destruct Hin as [y [Hy Hin]].
      assert (y = x) by (apply Hinj; simpl; auto). subst y. contradiction.
    + apply IH; [|exact Hl]. intros a b Ha Hb. apply Hinj; simpl; auto.
Qed.

(** * occurs_before *)

Lemma ob_nil {A} (x y : A) : ~ occurs_before x y [].
Proof. intros [l1 [l2 [l3 H]]]. destruct l1; discriminate H. Qed.

Lemma ob_cons {A} (x y z : A) l :
  occurs_before x y (z :: l) <-> (z = x /\ In y l) \/ occurs_before x y l.
Proof.
  split.
  - intros [l1 [l2 [l3 H]]]. destruct l1 as [|a l1]; simpl in H; injection H as H0 H1.
    + left. split; [exact H0|]. subst l. apply in_elt.
    + right. exists l1, l2, l3. exact H1.
  - intros [[E Hin] | [l1 [l2 [l3 H]]]].
    + subst z. apply in_split in Hin. destruct Hin as [l2 [l3 E]]. exists [], l2, l3. simpl. congruence.
    + exists (z :: l1), l2, l3. simpl. congruence.
Qed.

Lemma ob_In {A} (x y : A) l : occurs_before x y l -> In x l /\ In y l.
Proof.
  intros [l1 [l2 [l3 H]]]. subst l. split.
  - apply in_elt.
  - apply in_or_app. right. right. apply in_elt.
Qed.

Lemma ob_filter {A} (p : A -> bool) (x y : A) : forall l,
  occurs_before x y (filter p l) <-> occurs_before x y l /\ p x = true /\ p y = true.
Proof.
  induction l as [|z l IH]; simpl.
  - split; [intro H; destruct (ob_nil _ _ H) | intros [H _]; destruct (ob_nil _ _ H)].
  - destruct (p z) eqn:Hz.
    + rewrite !ob_cons, IH. split.
      * intros [[E Hin] | [H [Hx Hy]]].
        -- apply filter_In in Hin. destruct Hin as [Hin Hy]. subst z. repeat split; auto.
        -- repeat split; auto.
      * intros [[[E Hin] | H] [Hx Hy]].
        -- left. split; [exact E|]. apply filter_In. split; assumption.
        -- right. repeat split; assumption.
    + rewrite ob_cons, IH. split.
      * intros [H [Hx Hy]]. repeat split; auto.
      * intros [[[E Hin] | H] [Hx Hy]].
        -- subst z. congruence.
        -- repeat split; assumption.
Qed.

Lemma ob_map {A B} (f : A -> B) (x' y' : B) : forall l,
  occurs_before x' y' (map f l) <-> exists x y, x' = f x /\ y' = f y /\ occurs_before x y l.
Proof.
  induction l as [|z l IH]; simpl.
  - split; [intro H; destruct (ob_nil _ _ H) | intros [x [y [_ [_ H]]]]; destruct (ob_nil _ _ H)].
  - rewrite ob_cons, IH. split.
    + intros [[E Hin] | [x [y [Ex [Ey H]]]]].
      * apply in_map_iff in Hin. destruct Hin as [y [Ey Hin]].
        exists z, y. repeat split; auto. apply ob_cons. left. split; auto.
      * exists x, y. repeat split; auto. apply ob_cons. right. exact H.
    + intros [x [y [Ex [Ey H]]]]. apply ob_cons in H. destruct H as [[E Hin] | H].
      * left. subst. split; [reflexivity|]. apply in_map. exact Hin.
      * right. exists x, y. repeat split; assumption.
Qed.

(** * ids, calls and returns *)

Lemma call_ids_app : forall a b, call_ids (a ++ b) = call_ids a ++ call_ids b.
Proof.
  induction a as [|e a IH]; intros b; simpl; [reflexivity|].
  destruct e; simpl; rewrite IH; reflexivity.
Qed.

Lemma ret_ids_app : forall a b, ret_ids (a ++ b) = ret_ids a ++ ret_ids b.
Proof.
  induction a as [|e a IH]; intros b; simpl; [reflexivity|].
  destruct e; simpl; rewrite IH; reflexivity.
Qed.

Lemma In_call_ids : forall h id, In id (call_ids h) <-> exists i, In (Call id i) h.
Proof.
  induction h as [|e h IH]; intros id; simpl.
  - split; [contradiction | intros [_ []]].
  - destruct e as [id' i' | id' o']; simpl; rewrite IH; split.
    + intros [E | [i Hi]]; [subst; exists i'; auto | exists i; auto].
    + intros [i [E | Hi]]; [injection E as E1 E2; auto | right; exists i; exact Hi].
    + intros [i Hi]. exists i. auto.
    + intros [i [E | Hi]]; [discriminate E | exists i; exact Hi].
Qed.

Lemma In_ret_ids : forall h id, In id (ret_ids h) <-> exists o, In (Ret id o) h.
Proof.
  induction h as [|e h IH]; intros id; simpl.
  - split; [contradiction | intros [_ []]].
  - destruct e as [id' i' | id' o']; simpl; rewrite IH; split.
    + intros [o Ho]. exists o. auto.
    + intros [o [E | Ho]]; [discriminate E | exists o; exact Ho].
    + intros [E | [o Ho]]; [subst; exists o'; auto | exists o; auto].
    + intros [o [E | Ho]]; [injection E as E1 E2; auto | right; exists o; exact Ho].
Qed.

Lemma call_ids_ids : forall h id, In id (call_ids h) -> In id (map ev_id h).
Proof.
  intros h id H. apply In_call_ids in H. destruct H as [i Hi].
  apply in_map_iff. exists (Call id i). split; [reflexivity | exact Hi].
Qed.

Lemma ret_ids_ids : forall h id, In id (ret_ids h) -> In id (map ev_id h).
Proof.
  intros h id H. apply In_ret_ids in H. destruct H as [o Ho].
  apply in_map_iff. exists (Ret id o). split; [reflexivity | exact Ho].
Qed.

Lemma ret_of_In : forall h id, In id (ret_ids h) -> exists o, ret_of h id = Some o.
Proof.
  induction h as [|e h IH]; intros id H; simpl in *.
  - contradiction.
  - destruct e as [id' i' | id' o']; simpl in *.
    + apply IH. exact H.
    + destruct (N.eqb_spec id' id) as [E | NE].
      * exists o'. reflexivity.
      * destruct H as [E | H]; [contradiction | apply IH; exact H].
Qed.

Lemma call_of_split : forall h id i, call_of h id = Some i ->
  exists pre rest, h = pre ++ Call id i :: rest /\ ~ In id (call_ids pre).
Proof.
  induction h as [|e h IH]; intros id i H; simpl in H.
  - discriminate H.
  - destruct e as [id' i' | id' o'].
    + destruct (N.eqb_spec id' id) as [E | NE].
      * injection H as H. subst. exists [], h. split; [reflexivity | simpl; tauto].
      * destruct (IH _ _ H) as [pre [rest [E Hn]]]. exists (Call id' i' :: pre), rest. subst h.
        split; [reflexivity|]. simpl. intros [E | Hin]; [congruence | contradiction].
    + destruct (IH _ _ H) as [pre [rest [E Hn]]]. exists (Ret id' o' :: pre), rest. subst h.
      split; [reflexivity | exact Hn].
Qed.

(** * wfb decides wf *)

Lemma rets_after_calls_spec : forall h seen,
  rets_after_calls seen h = true <->
  (forall h1 id o h2, h = h1 ++ Ret id o :: h2 -> In id seen \/ In id (call_ids h1)).
Proof.
  induction h as [|e h IH]; intros seen; simpl.
  - split; [|reflexivity]. intros _ h1 id o h2 H. destruct h1; discriminate H.
  - destruct e as [id' i' | id' o'].
    + rewrite IH. split.
      * intros H h1 id o h2 E. destruct h1 as [|a h1]; simpl in E; [discriminate E|].
        injection E as E0 E1. subst a. simpl.
        destruct (H _ _ _ _ E1) as [[E | Hs] | Hc]; auto.
      * intros H h1 id o h2 E. subst h.
        destruct (H (Call id' i' :: h1) id o h2 eq_refl) as [Hs | Hc]; simpl in *; tauto.
    + rewrite andb_true_iff, mem_id_In, IH. split.
      * intros [Hm H] h1 id o h2 E. destruct h1 as [|a h1]; simpl in E; injection E as E0 E1.
        -- subst. left. exact Hm.
        -- subst a. simpl. apply (H _ _ _ _ E1).
      * intros H. split.
        -- destruct (H [] id' o' h eq_refl) as [Hs | Hc]; [exact Hs | destruct Hc].
        -- intros h1 id o h2 E. subst h. apply (H (Ret id' o' :: h1) id o h2 eq_refl).
Qed.

Theorem wfb_wf : forall h, wfb h = true <-> wf h.
Proof.
  intros h. unfold wfb, wf. rewrite !andb_true_iff, !nodupb_NoDup, forallb_forall, rets_after_calls_spec.
  split.
  - intros [[[H1 H2] H3] H4]. repeat split; auto.
    + intros id Hid. apply mem_id_In. apply H3. exact Hid.
    + intros h1 id o h2 E. destruct (H4 _ _ _ _ E) as [[] | Hc]. exact Hc.
  - intros [H1 [H2 [H3 H4]]]. repeat split; auto.
    + intros id Hid. apply mem_id_In. apply H3. exact Hid.
    + intros h1 id o h2 E. right. apply (H4 _ _ _ _ E).
Qed.

Lemma wf_nil : wf [].
Proof. apply wfb_wf. reflexivity. Qed.

Lemma wf_head_call : forall e t, wf (e :: t) -> is_call e = true.
Proof.
  intros e t [_ [_ [_ H4]]]. destruct e as [id i | id o]; [reflexivity|].
  destruct (H4 [] id o t eq_refl).
Qed.

(** * Renaming of ids *)

Lemma call_ids_rename : forall f h, call_ids (rename f h) = map f (call_ids h).
Proof.
  intros f. induction h as [|e h IH]; simpl; [reflexivity|].
  destruct e; simpl; rewrite IH; reflexivity.
Qed.

Lemma ret_ids_rename : forall f h, ret_ids (rename f h) = map f (ret_ids h).
Proof.
  intros f. induction h as [|e h IH]; simpl; [reflexivity|].
  destruct e; simpl; rewrite IH; reflexivity.
Qed.

Lemma ids_rename : forall f h, map ev_id (rename f h) = map f (map ev_id h).
Proof.
  intros f. induction h as [|e h IH]; simpl; [reflexivity|].
  destruct e; simpl; rewrite IH; reflexivity.
Qed.

Lemma call_of_rename : forall f h id,
  (forall j, In j (map ev_id h) -> f j = f id -> j = id) ->
  call_of (rename f h) (f id) = call_of h id.
Proof.
  intros f. induction h as [|e h IH]; intros id Hinj; simpl; [reflexivity|].
  assert (Ht : forall j, In j (map ev_id h) -> f j = f id -> j = id) by (intros j Hj; apply Hinj; simpl; auto).
  destruct e as [id' i' | id' o']; simpl.
  - destruct (N.eqb_spec id' id) as [E | NE].
    + subst. rewrite N.eqb_refl. reflexivity.
    + destruct (N.eqb_spec (f id') (f id)) as [E | NE'].
      * exfalso. apply NE. apply Hinj; simpl; auto.
      * apply IH. exact Ht.
  - apply IH. exact Ht.
Qed.

Lemma ret_of_rename : forall f h id,
  (forall j, In j (map ev_id h) -> f j = f id -> j = id) ->
  ret_of (rename f h) (f id) = ret_of h id.
Proof.
  intros f. induction h as [|e h IH]; intros id Hinj; simpl; [reflexivity|].
  assert (Ht : forall j, In j (map ev_id h) -> f j = f id -> j = id) by (intros j Hj; apply Hinj; simpl; auto).
  destruct e as [id' i' | id' o']; simpl.
  - apply IH. exact Ht.
  - destruct (N.eqb_spec id' id) as [E | NE].
    + subst. rewrite N.eqb_refl. reflexivity.
    + destruct (N.eqb_spec (f id') (f id)) as [E | NE'].
      * exfalso. apply NE. apply Hinj; simpl; auto.
      * apply IH. exact Ht.
Qed.

Lemma accepts_rename : forall f h, inj_on f h -> forall sigma st,
  incl sigma (map ev_id h) ->
  accepts (rename f h) st (map f sigma) = accepts h st sigma.
Proof.
  intros f h Hinj. induction sigma as [|id sigma IH]; intros st Hincl; simpl; [reflexivity|].
  assert (Hid : In id (map ev_id h)) by (apply Hincl; simpl; auto).
  rewrite call_of_rename, ret_of_rename by (intros j Hj E; apply Hinj; assumption).
  destruct (call_of h id) as [i|]; [|reflexivity].
  destruct (ret_of h id) as [o|]; [|reflexivity].
  destruct (step st i o) as [ok st']. rewrite IH; [reflexivity|].
  intros x Hx. apply Hincl. simpl. auto.
Qed.

Lemma precedes_rename : forall f h a' b', precedes (rename f h) a' b' ->
  exists a b, a' = f a /\ b' = f b /\ precedes h a b.
Proof.
  intros f h a' b' [o [i H]]. unfold rename in H. apply ob_map in H.
  destruct H as [x [y [Ex [Ey H]]]].
  destruct x as [xa xi | xa xo]; simpl in Ex; [discriminate Ex|]. injection Ex as Ea Eo.
  destruct y as [yb yi | yb yo]; simpl in Ey; [|discriminate Ey]. injection Ey as Eb Ei.
  exists xa, yb. repeat split; auto. exists xo, yi. exact H.
Qed.

Lemma lin_rename_fwd : forall f h st, inj_on f h ->
  linearizable_from h st -> linearizable_from (rename f h) st.
Proof.
  intros f h st Hinj [sigma [Hperm [Hprec Hacc]]]. exists (map f sigma). repeat split.
  - rewrite call_ids_rename. apply Permutation_map. exact Hperm.
  - intros a' b' Hp. apply precedes_rename in Hp. destruct Hp as [a [b [Ea [Eb Hp]]]]. subst.
    unfold before. apply ob_map. exists a, b. repeat split; auto. apply Hprec. exact Hp.
  - rewrite accepts_rename; [exact Hacc | exact Hinj |].
    intros x Hx. apply call_ids_ids. apply (Permutation_in _ Hperm). exact Hx.
Qed.

(* a left inverse of [f] on the ids of [h] *)
Definition inv_on (f : N -> N) (h : history) (y : N) : N :=
  match find (fun a => (f a =? y)%N) (map ev_id h) with Some a => a | None => 0%N end.

Lemma inv_on_spec : forall f h, inj_on f h -> forall a, In a (map ev_id h) -> inv_on f h (f a) = a.
Proof.
  intros f h Hinj a Ha. unfold inv_on.
  destruct (find (fun a0 => (f a0 =? f a)%N) (map ev_id h)) as [b|] eqn:Hf.
  - apply find_some in Hf. destruct Hf as [Hb E]. apply N.eqb_eq in E. apply Hinj; assumption.
  - exfalso. pose proof (find_none _ _ Hf a Ha) as H. simpl in H. rewrite N.eqb_refl in H. discriminate H.
Qed.

Lemma rename_inv : forall f h, inj_on f h -> rename (inv_on f h) (rename f h) = h.
Proof.
  intros f h Hinj. unfold rename. rewrite map_map. rewrite <- (map_id h) at 2.
  apply map_ext_in. intros e He.
  assert (Hid : In (ev_id e) (map ev_id h)) by (apply in_map; exact He).
  destruct e as [id i | id o]; simpl in *; rewrite inv_on_spec; auto.
Qed.

Lemma inj_on_inv : forall f h, inj_on f h -> inj_on (inv_on f h) (rename f h).
Proof.
  intros f h Hinj a' b' Ha Hb E. rewrite ids_rename in Ha, Hb.
  apply in_map_iff in Ha. destruct Ha as [a [Ea Ha]].
  apply in_map_iff in Hb. destruct Hb as [b [Eb Hb]]. subst a' b'.
  rewrite !inv_on_spec in E by assumption. congruence.
Qed.

Theorem lin_rename : forall f h st, inj_on f h ->
  (linearizable_from (rename f h) st <-> linearizable_from h st).
Proof.
  intros f h st Hinj. split.
  - intros H. rewrite <- (rename_inv f h Hinj). apply lin_rename_fwd; [apply inj_on_inv; exact Hinj | exact H].
  - apply lin_rename_fwd. exact Hinj.
Qed.

Theorem wf_rename : forall f h, inj_on f h -> wf h -> wf (rename f h).
Proof.
  intros f h Hinj [H1 [H2 [H3 H4]]]. unfold wf. rewrite call_ids_rename, ret_ids_rename. repeat split.
  - apply NoDup_map_on; [|exact H1]. intros a b Ha Hb. apply Hinj; apply call_ids_ids; assumption.
  - apply NoDup_map_on; [|exact H2]. intros a b Ha Hb. apply Hinj; apply ret_ids_ids; assumption.
  - intros id' Hid. apply in_map_iff in Hid. destruct Hid as [id [E Hid]]. subst id'.
    apply in_map. apply H3. exact Hid.
  - intros h1' id' o h2' E. unfold rename in E. apply map_eq_app in E.
    destruct E as [h1 [r [E [E1 E2]]]]. apply map_eq_cons in E2. destruct E2 as [x [h2 [Er [Ex E2]]]].
    destruct x as [xa xi | id xo]; simpl in Ex; [discriminate Ex|]. injection Ex as Eid Eo. subst.
    fold (rename f h1). rewrite call_ids_rename. apply in_map. eapply H4. reflexivity.
Qed.
